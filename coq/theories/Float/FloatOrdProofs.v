(** C05, float part: proofs about the model of float/src/cmp.rs (FloatOrdModel.v).
    For every base B >= 2 and every admissible digit estimate, repr_cmp_same_base (as repaired) is the
    order of the values s * B^e extended by the two infinities, for all significands and exponents - no
    bound on digits or precision is needed any more.  The pinned version with its precision shortcut
    is correct only while no operand has precision + 2 or more digits, and is refuted beyond.
    == is equality of values on normalised representations; normalize establishes the invariant. *)
From Dashu Require Import Base.Prelude Float.FloatOrdModel.
Open Scope Z_scope.

Lemma fcmp_gt a b : b < a -> (a ?= b) = Gt. Proof. intros. now apply Z.compare_gt_iff. Qed.
Lemma fcmp_lt a b : a < b -> (a ?= b) = Lt. Proof. intros. now apply Z.compare_lt_iff. Qed.

Lemma fsign_pos x : sign_of x = Positive <-> 0 <= x.
Proof. unfold sign_of. destruct (Z.ltb_spec x 0); split; intros; try lia; try reflexivity; discriminate. Qed.
Lemma fsign_neg x : sign_of x = Negative <-> x < 0.
Proof. unfold sign_of. destruct (Z.ltb_spec x 0); split; intros; try lia; try reflexivity; discriminate. Qed.

(** shl_digits (four branches: base 2, base 10 as 5^e then a shift, other powers of two, generic) *)
Theorem shl_digits_correct B x e : 0 <= e -> shl_digits B x e = x * B ^ e.
Proof.
  intros He. unfold shl_digits.
  destruct (Z.eqb_spec e 0) as [->|Ne]; [rewrite Z.pow_0_r; lia|].
  destruct (Z.eqb_spec B 2) as [->|N2]; [apply Z.shiftl_mul_pow2; lia|].
  destruct (Z.eqb_spec B 10) as [->|N10].
  - rewrite Z.shiftl_mul_pow2 by lia. replace 10 with (5 * 2) by reflexivity. rewrite Z.pow_mul_l. ring.
  - destruct (is_pow2 B) eqn:P; [|reflexivity].
    apply Z.eqb_eq in P. pose proof (Z.log2_nonneg B).
    rewrite Z.shiftl_mul_pow2 by nia.
    replace (B ^ e) with ((2 ^ Z.log2 B) ^ e) by (f_equal; symmetry; exact P).
    rewrite <- Z.pow_mul_r by lia. f_equal. f_equal. lia.
Qed.

Section CmpProofs.
Variable B : Z.
Hypothesis B_ge_2 : 2 <= B.
(** any estimate that is at most one digit short is admissible (Repr::digits_ub is meant as an upper bound) *)
Variable digits_ub : Z -> Z.
Hypothesis digits_ub_ok : forall s, s <> 0 -> Z.abs s < B ^ (digits_ub s + 1).

(** infinities are the two values Repr::infinity / neg_infinity build: exponent +1 / -1 *)
Definition fwf (r : frepr) : Prop := f_is_inf r = true -> Z.abs (fexp r) = 1.

Lemma Bpow_pos k : 0 <= k -> 0 < B ^ k.
Proof. intros. apply Z.pow_pos_nonneg; lia. Qed.

Lemma dub_nonneg s : s <> 0 -> 0 <= digits_ub s.
Proof.
  intros Hs. pose proof (digits_ub_ok s Hs) as H. destruct (Z.le_gt_cases 0 (digits_ub s)); [assumption|].
  exfalso. destruct (Z.eq_dec (digits_ub s + 1) 0) as [E|E].
  - rewrite E, Z.pow_0_r in H. lia.
  - rewrite Z.pow_neg_r in H by lia. lia.
Qed.

(** the digit shortcut: an exponent gap larger than the estimate dominates the significand *)
Lemma gap s e1 e2 : s <> 0 -> e1 > e2 + digits_ub s -> Z.abs s < B ^ (e1 - e2) /\ e2 < e1.
Proof.
  intros Hs Hg. pose proof (dub_nonneg s Hs). split; [|lia].
  apply Z.lt_le_trans with (B ^ (digits_ub s + 1)); [now apply digits_ub_ok|].
  apply Z.pow_le_mono_r; lia.
Qed.

Lemma finite_zero r : f_is_inf r = false -> fsig r = 0 -> fexp r = 0.
Proof.
  unfold f_is_inf. intros H E. rewrite E in H. cbn [Z.eqb andb] in H.
  destruct (Z.eqb_spec (fexp r) 0); [assumption | discriminate].
Qed.

Lemma fabs_fin r : fsig r <> 0 -> fabs r = FR (Z.abs (fsig r)) (fexp r).
Proof.
  intros H. unfold fabs, f_is_inf. destruct (Z.eqb_spec (fsig r) 0); [contradiction | reflexivity].
Qed.

(** the tail of repr_cmp_same_base (digit shortcut + exact comparison), non-zero significands *)
Lemma cmp_tail_signed sign l r : fsig l <> 0 -> fsig r <> 0 ->
  sign = sign_of (fsig l) -> sign = sign_of (fsig r) ->
  cmp_tail B digits_ub false sign l r = fin_cmp B l r.
Proof.
  destruct l as [sl el], r as [sr er]. cbn [fsig fexp]. intros Hl Hr S1 S2.
  unfold cmp_tail, fin_cmp. cbn [fsig fexp].
  assert (Hs : (0 < sl /\ 0 < sr /\ sign = Positive) \/ (sl < 0 /\ sr < 0 /\ sign = Negative)).
  { destruct sign; symmetry in S1, S2; [apply fsign_pos in S1, S2 | apply fsign_neg in S1, S2]; [left | right]; repeat split; lia. }
  destruct (Z.gtb_spec el (er + digits_ub sr)) as [G1|G1].
  { destruct (gap sr el er Hr ltac:(lia)) as [Hg Hlt]. rewrite Z.min_r by lia.
    replace (er - er) with 0 by lia. rewrite Z.pow_0_r.
    assert (0 < B ^ (el - er)) by (apply Bpow_pos; lia).
    destruct Hs as [(A & A' & ->)|(A & A' & ->)]; cbn [sign_mul_ord CompOpp]; symmetry;
      [apply fcmp_gt | apply fcmp_lt]; nia. }
  destruct (Z.gtb_spec er (el + digits_ub sl)) as [G2|G2].
  { destruct (gap sl er el Hl ltac:(lia)) as [Hg Hlt]. rewrite Z.min_l by lia.
    replace (el - el) with 0 by lia. rewrite Z.pow_0_r.
    assert (0 < B ^ (er - el)) by (apply Bpow_pos; lia).
    destruct Hs as [(A & A' & ->)|(A & A' & ->)]; cbn [sign_mul_ord CompOpp]; symmetry;
      [apply fcmp_lt | apply fcmp_gt]; nia. }
  destruct (Z.compare_spec el er) as [E|L|G].
  - subst er. rewrite Z.min_id. replace (el - el) with 0 by lia. rewrite Z.pow_0_r. f_equal; lia.
  - rewrite shl_digits_correct by lia. rewrite Z.min_l by lia.
    replace (el - el) with 0 by lia. rewrite Z.pow_0_r. f_equal; lia.
  - rewrite shl_digits_correct by lia. rewrite Z.min_r by lia.
    replace (er - er) with 0 by lia. rewrite Z.pow_0_r. f_equal; lia.
Qed.

Lemma cmp_tail_abs l r : fsig l <> 0 -> fsig r <> 0 ->
  cmp_tail B digits_ub true Positive l r = fin_cmp B (fabs l) (fabs r).
Proof.
  intros Hl Hr. rewrite (fabs_fin l Hl), (fabs_fin r Hr).
  destruct l as [sl el], r as [sr er]. cbn [fsig fexp] in *.
  unfold cmp_tail, fin_cmp. cbn [fsig fexp sign_mul_ord].
  destruct (Z.gtb_spec el (er + digits_ub sr)) as [G1|G1].
  { destruct (gap sr el er Hr ltac:(lia)) as [Hg Hlt]. rewrite Z.min_r by lia.
    replace (er - er) with 0 by lia. rewrite Z.pow_0_r.
    assert (0 < B ^ (el - er)) by (apply Bpow_pos; lia). symmetry. apply fcmp_gt. nia. }
  destruct (Z.gtb_spec er (el + digits_ub sl)) as [G2|G2].
  { destruct (gap sl er el Hl ltac:(lia)) as [Hg Hlt]. rewrite Z.min_l by lia.
    replace (el - el) with 0 by lia. rewrite Z.pow_0_r.
    assert (0 < B ^ (er - el)) by (apply Bpow_pos; lia). symmetry. apply fcmp_lt. nia. }
  destruct (Z.compare_spec el er) as [E|L|G].
  - subst er. rewrite Z.min_id. replace (el - el) with 0 by lia. rewrite Z.pow_0_r. f_equal; lia.
  - rewrite shl_digits_correct by lia. rewrite Z.min_l by lia.
    replace (el - el) with 0 by lia. rewrite Z.pow_0_r.
    assert (0 < B ^ (er - el)) by (apply Bpow_pos; lia).
    rewrite Z.abs_mul, (Z.abs_eq (B ^ (er - el))) by lia. f_equal; lia.
  - rewrite shl_digits_correct by lia. rewrite Z.min_r by lia.
    replace (er - er) with 0 by lia. rewrite Z.pow_0_r.
    assert (0 < B ^ (el - er)) by (apply Bpow_pos; lia).
    rewrite Z.abs_mul, (Z.abs_eq (B ^ (el - er))) by lia. f_equal; lia.
Qed.

Lemma frank_inf r : fwf r -> f_is_inf r = true -> (fexp r = 1 /\ frank r = 1) \/ (fexp r = -1 /\ frank r = -1).
Proof.
  intros W I. specialize (W I). unfold frank. rewrite I.
  destruct (Z.gtb_spec (fexp r) 0); [left | right]; split; lia.
Qed.

Lemma frank_fin r : f_is_inf r = false -> frank r = 0.
Proof. intros I. unfold frank. now rewrite I. Qed.

Lemma fin_cmp_zero_l r : fsig r <> 0 -> fin_cmp B (FR 0 0) r = (0 ?= fsig r).
Proof.
  intros H. unfold fin_cmp. cbn [fsig fexp]. rewrite Z.mul_0_l.
  destruct (Z.min_spec 0 (fexp r)) as [[Hm ->]|[Hm ->]].
  - assert (0 < B ^ (fexp r - 0)) by (apply Bpow_pos; lia).
    destruct (Z.compare_spec 0 (fsig r)); [lia | apply fcmp_lt; nia | apply fcmp_gt; nia].
  - replace (fexp r - fexp r) with 0 by lia. rewrite Z.pow_0_r. f_equal. lia.
Qed.

Lemma fin_cmp_zero_r l : fsig l <> 0 -> fin_cmp B l (FR 0 0) = (fsig l ?= 0).
Proof.
  intros H. unfold fin_cmp. cbn [fsig fexp]. rewrite Z.mul_0_l.
  destruct (Z.min_spec (fexp l) 0) as [[Hm ->]|[Hm ->]].
  - replace (fexp l - fexp l) with 0 by lia. rewrite Z.pow_0_r. f_equal. lia.
  - assert (0 < B ^ (fexp l - 0)) by (apply Bpow_pos; lia).
    destruct (Z.compare_spec (fsig l) 0); [lia | apply fcmp_lt; nia | apply fcmp_gt; nia].
Qed.

Lemma fin_cmp_signs l r : 0 <= fsig l -> fsig r < 0 -> fin_cmp B l r = Gt.
Proof.
  intros Hl Hr. unfold fin_cmp. apply fcmp_gt.
  assert (0 < B ^ (fexp l - Z.min (fexp l) (fexp r))) by (apply Bpow_pos; lia).
  assert (0 < B ^ (fexp r - Z.min (fexp l) (fexp r))) by (apply Bpow_pos; lia). nia.
Qed.

Lemma fin_cmp_signs' l r : fsig l < 0 -> 0 <= fsig r -> fin_cmp B l r = Lt.
Proof.
  intros Hl Hr. unfold fin_cmp. apply fcmp_lt.
  assert (0 < B ^ (fexp l - Z.min (fexp l) (fexp r))) by (apply Bpow_pos; lia).
  assert (0 < B ^ (fexp r - Z.min (fexp l) (fexp r))) by (apply Bpow_pos; lia). nia.
Qed.

Lemma zero_repr r : f_is_inf r = false -> fsig r = 0 -> r = FR 0 0.
Proof. intros I E. pose proof (finite_zero r I E). destruct r; cbn in *; subst; reflexivity. Qed.

(** Ord / PartialOrd of FBig and of Repr: the order of the values, infinities at the ends *)
Theorem repr_cmp_same_base_correct l r : fwf l -> fwf r ->
  repr_cmp_same_base B digits_ub false l r = fcmp_spec B l r.
Proof.
  intros Wl Wr. unfold repr_cmp_same_base, cmp_head, fcmp_spec.
  destruct (f_is_inf l) eqn:Il, (f_is_inf r) eqn:Ir; cbn [orb].
  - destruct (frank_inf l Wl Il) as [[El Rl]|[El Rl]], (frank_inf r Wr Ir) as [[Er Rr]|[Er Rr]];
      rewrite El, Er, Rl, Rr; reflexivity.
  - rewrite (frank_fin r Ir). destruct (frank_inf l Wl Il) as [[El Rl]|[El Rl]]; rewrite El, Rl; reflexivity.
  - rewrite (frank_fin l Il). destruct (frank_inf r Wr Ir) as [[Er Rr]|[Er Rr]]; rewrite Er, Rr; reflexivity.
  - rewrite (frank_fin l Il), (frank_fin r Ir). cbn [Z.compare].
    unfold f_is_zero.
    destruct (sign_of (fsig l)) eqn:S1, (sign_of (fsig r)) eqn:S2;
      try apply fsign_pos in S1; try apply fsign_neg in S1; try apply fsign_pos in S2; try apply fsign_neg in S2.
    + destruct (Z.eqb_spec (fsig l) 0) as [Zl|Zl], (Z.eqb_spec (fsig r) 0) as [Zr|Zr].
      * rewrite (finite_zero l Il Zl), (finite_zero r Ir Zr). cbn [Z.eqb andb].
        rewrite (zero_repr l Il Zl), (zero_repr r Ir Zr). reflexivity.
      * rewrite (finite_zero l Il Zl). cbn [Z.eqb andb]. rewrite (zero_repr l Il Zl), fin_cmp_zero_l by assumption.
        symmetry. apply fcmp_lt. lia.
      * rewrite (finite_zero r Ir Zr). cbn [Z.eqb andb]. rewrite (zero_repr r Ir Zr), fin_cmp_zero_r by assumption.
        symmetry. apply fcmp_gt. lia.
      * cbn [andb]. apply cmp_tail_signed; auto; symmetry; apply fsign_pos; lia.
    + symmetry. now apply fin_cmp_signs.
    + symmetry. now apply fin_cmp_signs'.
    + destruct (Z.eqb_spec (fsig l) 0) as [Zl|Zl]; [lia|]. destruct (Z.eqb_spec (fsig r) 0) as [Zr|Zr]; [lia|].
      cbn [andb]. apply cmp_tail_signed; auto; symmetry; apply fsign_neg; lia.
Qed.

Lemma fabs_inf r : f_is_inf (fabs r) = f_is_inf r.
Proof.
  unfold fabs, f_is_inf. cbn [fsig fexp].
  destruct (Z.eqb_spec (fsig r) 0) as [E|E].
  - rewrite E. cbn [Z.abs Z.eqb andb]. destruct (Z.eqb_spec (fexp r) 0) as [E2|E2]; cbn [negb].
    + rewrite E2. reflexivity.
    + destruct (Z.eqb_spec (Z.abs (fexp r)) 0); [lia | reflexivity].
  - destruct (Z.eqb_spec (Z.abs (fsig r)) 0); [lia | reflexivity].
Qed.

(** AbsOrd of FBig: the order of the absolute values *)
Theorem repr_cmp_same_base_abs_correct l r : fwf l -> fwf r ->
  repr_cmp_same_base B digits_ub true l r = fabs_cmp_spec B l r.
Proof.
  intros Wl Wr. unfold repr_cmp_same_base, cmp_head, fabs_cmp_spec, fcmp_spec.
  rewrite !fabs_inf.
  assert (forall x, f_is_inf x = true -> fwf x -> frank (fabs x) = 1) as Rinf.
  { intros x I W. unfold frank. rewrite fabs_inf, I. unfold fabs. rewrite I. cbn [fexp]. specialize (W I).
    destruct (Z.gtb_spec (Z.abs (fexp x)) 0); [reflexivity | lia]. }
  assert (forall x, f_is_inf x = false -> frank (fabs x) = 0) as Rfin.
  { intros x I. unfold frank. now rewrite fabs_inf, I. }
  destruct (f_is_inf l) eqn:Il, (f_is_inf r) eqn:Ir; cbn [orb].
  - rewrite (Rinf l Il Wl), (Rinf r Ir Wr). reflexivity.
  - rewrite (Rinf l Il Wl), (Rfin r Ir). reflexivity.
  - rewrite (Rfin l Il), (Rinf r Ir Wr). reflexivity.
  - rewrite (Rfin l Il), (Rfin r Ir). cbn [Z.compare]. unfold f_is_zero.
    destruct (Z.eqb_spec (fsig l) 0) as [Zl|Zl], (Z.eqb_spec (fsig r) 0) as [Zr|Zr].
    + rewrite (finite_zero l Il Zl), (finite_zero r Ir Zr). cbn [Z.eqb andb].
      rewrite (zero_repr l Il Zl), (zero_repr r Ir Zr). reflexivity.
    + rewrite (finite_zero l Il Zl). cbn [Z.eqb andb]. rewrite (zero_repr l Il Zl).
      replace (fabs (FR 0 0)) with (FR 0 0) by reflexivity.
      rewrite fin_cmp_zero_l by (rewrite fabs_fin by assumption; cbn [fsig]; lia).
      rewrite fabs_fin by assumption. cbn [fsig]. symmetry. apply fcmp_lt. lia.
    + rewrite (finite_zero r Ir Zr). cbn [Z.eqb andb]. rewrite (zero_repr r Ir Zr).
      replace (fabs (FR 0 0)) with (FR 0 0) by reflexivity.
      rewrite fin_cmp_zero_r by (rewrite fabs_fin by assumption; cbn [fsig]; lia).
      rewrite fabs_fin by assumption. cbn [fsig]. symmetry. apply fcmp_gt. lia.
    + cbn [andb]. now apply cmp_tail_abs.
Qed.

(* ---------------------------------------------------------------- the pinned precision shortcut *)

(** when no limited-precision operand has more than precision + 1 digits, the old shortcut agreed *)
Theorem repr_cmp_same_base_pinned_correct l r prec : fwf l -> fwf r ->
  (forall lp rp, prec = Some (lp, rp) -> lp <> 0 -> rp <> 0 ->
     Z.abs (fsig l) < B ^ (lp + 1) /\ Z.abs (fsig r) < B ^ (rp + 1)) ->
  repr_cmp_same_base_pinned B digits_ub false l r prec = fcmp_spec B l r.
Proof.
  intros Wl Wr Hp. rewrite <- repr_cmp_same_base_correct by assumption.
  unfold repr_cmp_same_base_pinned, repr_cmp_same_base, cmp_head.
  destruct (f_is_inf l) eqn:Il, (f_is_inf r) eqn:Ir; try reflexivity.
  destruct (sign_of (fsig l)) eqn:S1, (sign_of (fsig r)) eqn:S2; try reflexivity;
    unfold f_is_zero;
    (destruct (Z.eqb_spec (fsig l) 0) as [Zl|Zl];
      [rewrite (finite_zero l Il Zl); cbn [Z.eqb andb]; destruct ((fsig r =? 0) && (fexp r =? 0)); reflexivity|]);
    (destruct (Z.eqb_spec (fsig r) 0) as [Zr|Zr];
      [rewrite (finite_zero r Ir Zr); cbn [Z.eqb andb]; reflexivity|]);
    cbn [andb].
  all: unfold precision_shortcut; destruct prec as [[lp rp]|]; [|reflexivity].
  all: destruct (Z.eqb_spec lp 0) as [Elp|Elp]; [reflexivity|];
       destruct (Z.eqb_spec rp 0) as [Erp|Erp]; [reflexivity|]; cbn [negb andb].
  all: destruct (Hp lp rp eq_refl Elp Erp) as [Dl Dr].
  all: assert (Hfin : forall s e1 e2 p, s <> 0 -> Z.abs s < B ^ (p + 1) -> e1 > e2 + p -> Z.abs s < B ^ (e1 - e2) /\ e2 < e1)
    by (intros s e1 e2 p Hs Hb Hg;
        assert (0 <= p + 1) by (destruct (Z.le_gt_cases 0 (p + 1)); [assumption | rewrite Z.pow_neg_r in Hb by lia; lia]);
        assert (p + 1 <> 0) by (intros E0; rewrite E0, Z.pow_0_r in Hb; lia);
        split; [apply Z.lt_le_trans with (B ^ (p + 1)); [exact Hb | apply Z.pow_le_mono_r; lia] | lia]).
  all: destruct (Z.gtb_spec (fexp l) (fexp r + rp)) as [G1|G1];
       [ destruct (Hfin (fsig r) (fexp l) (fexp r) rp Zr Dr ltac:(lia)) as [Hg Hlt] |
         destruct (Z.gtb_spec (fexp r) (fexp l + lp)) as [G2|G2];
         [ destruct (Hfin (fsig l) (fexp r) (fexp l) lp Zl Dl ltac:(lia)) as [Hg Hlt] | reflexivity ] ].
  all: try apply fsign_pos in S1; try apply fsign_neg in S1; try apply fsign_pos in S2; try apply fsign_neg in S2.
  all: rewrite cmp_tail_signed by (auto; symmetry; first [apply fsign_pos; lia | apply fsign_neg; lia]).
  all: unfold fin_cmp; cbn [sign_mul_ord CompOpp]; symmetry.
  all: first [ rewrite Z.min_r by lia; replace (fexp r - fexp r) with 0 by lia; rewrite Z.pow_0_r;
               assert (0 < B ^ (fexp l - fexp r)) by (apply Bpow_pos; lia);
               first [apply fcmp_gt; nia | apply fcmp_lt; nia]
             | rewrite Z.min_l by lia; replace (fexp l - fexp l) with 0 by lia; rewrite Z.pow_0_r;
               assert (0 < B ^ (fexp r - fexp l)) by (apply Bpow_pos; lia);
               first [apply fcmp_gt; nia | apply fcmp_lt; nia] ].
Qed.

(* ---------------------------------------------------------------- == *)

Lemma mul_pow_mod s k : 1 <= k -> (s * B ^ k) mod B = 0.
Proof.
  intros Hk. replace k with (Z.succ (k - 1)) by lia. rewrite Z.pow_succ_r by lia.
  replace (s * (B * B ^ (k - 1))) with (s * B ^ (k - 1) * B) by ring. apply Z.mod_mul. lia.
Qed.

(** == of FBig (any two rounding modes and precisions) is equality of the values on normalised operands *)
Theorem fbig_eq_correct l r : fwf l -> fwf r -> normalized_ext B l -> normalized_ext B r ->
  fbig_eq l r = feq_spec B l r.
Proof.
  intros Wl Wr Nl Nr. unfold fbig_eq, feq_spec, fcmp_spec.
  destruct (f_is_inf l) eqn:Il, (f_is_inf r) eqn:Ir.
  - destruct (frank_inf l Wl Il) as [[El Rl]|[El Rl]], (frank_inf r Wr Ir) as [[Er Rr]|[Er Rr]];
      rewrite El, Er, Rl, Rr; reflexivity.
  - rewrite (frank_fin r Ir). destruct (frank_inf l Wl Il) as [[El Rl]|[El Rl]]; rewrite Rl; reflexivity.
  - rewrite (frank_fin l Il). destruct (frank_inf r Wr Ir) as [[Er Rr]|[Er Rr]]; rewrite Rr; reflexivity.
  - rewrite (frank_fin l Il), (frank_fin r Ir). cbn [Z.compare].
    destruct Nl as [Nl|Nl]; [congruence|]. destruct Nr as [Nr|Nr]; [congruence|].
    unfold fin_cmp. destruct l as [sl el], r as [sr er]. unfold normalized in *. cbn [fsig fexp] in *.
    destruct (Z.eqb_spec el er) as [E|E].
    + subst er. rewrite Z.min_id. replace (el - el) with 0 by lia. rewrite Z.pow_0_r, !Z.mul_1_r, andb_true_r.
      destruct (Z.eqb_spec sl sr) as [->|Ns]; [now rewrite Z.compare_refl|].
      destruct (Z.compare_spec sl sr); try reflexivity. contradiction.
    + rewrite andb_false_r.
      destruct (Z.lt_total el er) as [L|[L|L]]; [|contradiction|].
      * rewrite Z.min_l by lia. replace (el - el) with 0 by lia. rewrite Z.pow_0_r, Z.mul_1_r.
        destruct (Z.compare_spec sl (sr * B ^ (er - el))) as [X|X|X]; try reflexivity. exfalso.
        pose proof (mul_pow_mod sr (er - el) ltac:(lia)) as M. rewrite <- X in M.
        destruct Nl as [[Zs Ze]|[Zs Zm]]; [|contradiction].
        subst sl. assert (0 < B ^ (er - el)) by (apply Bpow_pos; lia).
        destruct Nr as [[Zs' Ze']|[Zs' Zm']]; [lia | nia].
      * rewrite Z.min_r by lia. replace (er - er) with 0 by lia. rewrite Z.pow_0_r, Z.mul_1_r.
        destruct (Z.compare_spec (sl * B ^ (el - er)) sr) as [X|X|X]; try reflexivity. exfalso.
        pose proof (mul_pow_mod sl (el - er) ltac:(lia)) as M. rewrite X in M.
        destruct Nr as [[Zs Ze]|[Zs Zm]]; [|contradiction].
        subst sr. assert (0 < B ^ (el - er)) by (apply Bpow_pos; lia).
        destruct Nl as [[Zs' Ze']|[Zs' Zm']]; [lia | nia].
Qed.

(** ... and == holds exactly when cmp says Equal *)
Theorem fbig_cmp_eq_iff_eq l r : fwf l -> fwf r -> normalized_ext B l -> normalized_ext B r ->
  (repr_cmp_same_base B digits_ub false l r = Eq <-> fbig_eq l r = true).
Proof.
  intros Wl Wr Nl Nr. rewrite repr_cmp_same_base_correct, fbig_eq_correct by assumption.
  unfold feq_spec. destruct (fcmp_spec B l r); split; intros; try reflexivity; discriminate.
Qed.

(* ---------------------------------------------------------------- the spec is a total order *)

(** fin_cmp does not depend on the common scale: it compares s1 * B^e1 with s2 * B^e2 *)
Lemma fin_cmp_scale l r m : m <= fexp l -> m <= fexp r ->
  fin_cmp B l r = (fsig l * B ^ (fexp l - m) ?= fsig r * B ^ (fexp r - m)).
Proof.
  intros H1 H2. unfold fin_cmp. set (m0 := Z.min (fexp l) (fexp r)).
  assert (m <= m0) by (unfold m0; lia).
  replace (fexp l - m) with ((fexp l - m0) + (m0 - m)) by lia.
  replace (fexp r - m) with ((fexp r - m0) + (m0 - m)) by lia.
  rewrite !Z.pow_add_r by (unfold m0; lia).
  assert (0 < B ^ (m0 - m)) by (apply Bpow_pos; lia).
  rewrite !Z.mul_assoc. apply Zmult_compare_compat_r. lia.
Qed.

Theorem fin_cmp_antisym l r : fin_cmp B r l = CompOpp (fin_cmp B l r).
Proof. unfold fin_cmp. rewrite (Z.min_comm (fexp r)). apply Z.compare_antisym. Qed.

Theorem fin_cmp_trans a b c x : fin_cmp B a b = x -> fin_cmp B b c = x -> fin_cmp B a c = x.
Proof.
  set (m := Z.min (fexp a) (Z.min (fexp b) (fexp c))).
  rewrite (fin_cmp_scale a b m), (fin_cmp_scale b c m), (fin_cmp_scale a c m) by (unfold m; lia).
  destruct x; intros H1 H2.
  - rewrite Z.compare_eq_iff in *. lia.
  - rewrite Z.compare_lt_iff in *. lia.
  - rewrite Z.compare_gt_iff in *. lia.
Qed.

End CmpProofs.

(* ---------------------------------------------------------------- digits, normalize *)

(** the digit counter used as the estimate in the oracle is admissible (and exact) *)
Lemma ndigits_fuel_ok B (HB : 2 <= B) fuel : forall m, 0 <= m -> m < 2 ^ Z.of_nat fuel ->
  m < B ^ ndigits_fuel fuel B m /\ 0 <= ndigits_fuel fuel B m.
Proof.
  induction fuel as [|f IH]; intros m Hm Hf.
  - cbn [Z.of_nat] in Hf. rewrite Z.pow_0_r in Hf. cbn [ndigits_fuel]. rewrite Z.pow_0_r. lia.
  - cbn [ndigits_fuel]. destruct (Z.eqb_spec m 0) as [->|Nz]; [rewrite Z.pow_0_r; lia|].
    rewrite Nat2Z.inj_succ, Z.pow_succ_r in Hf by lia.
    assert (0 <= m / B) by (apply Z.div_pos; lia).
    assert (m / B < 2 ^ Z.of_nat f).
    { apply Z.div_lt_upper_bound; [lia|]. assert (0 < 2 ^ Z.of_nat f) by (apply Z.pow_pos_nonneg; lia). nia. }
    destruct (IH (m / B) H H0) as [I1 I2]. split; [|lia].
    rewrite Z.pow_add_r, Z.pow_1_r by lia.
    pose proof (Z.div_mod m B ltac:(lia)). pose proof (Z.mod_pos_bound m B ltac:(lia)). nia.
Qed.

Theorem ndigits_ok B s : 2 <= B -> s <> 0 -> Z.abs s < B ^ (ndigits B s + 1).
Proof.
  intros HB Hs. unfold ndigits.
  assert (0 <= Z.log2 (Z.abs s)) by apply Z.log2_nonneg.
  destruct (ndigits_fuel_ok B HB (Z.to_nat (Z.log2 (Z.abs s) + 1)) (Z.abs s) ltac:(lia)) as [H1 H2].
  - rewrite Z2Nat.id by lia. replace (Z.log2 (Z.abs s) + 1) with (Z.succ (Z.log2 (Z.abs s))) by lia.
    apply Z.log2_spec. lia.
  - rewrite Z.pow_add_r, Z.pow_1_r by lia.
    assert (0 < B ^ ndigits_fuel (Z.to_nat (Z.log2 (Z.abs s) + 1)) B (Z.abs s)) by (apply Z.pow_pos_nonneg; lia). nia.
Qed.

(** the generic branch of normalize: divide by B while divisible.  The fuel log2|s| + 1 suffices,
    the result is not divisible by B and has the same value *)
Lemma strip_fuel_ok B (HB : 2 <= B) fuel : forall s e, 0 < s -> s < 2 ^ Z.of_nat fuel ->
  exists s' e', strip_fuel fuel B s e = Ok (s', e') /\ 0 < s' /\ s' mod B <> 0 /\ e <= e' /\ s = s' * B ^ (e' - e).
Proof.
  induction fuel as [|f IH]; intros s e Hs Hf.
  - cbn [Z.of_nat] in Hf. rewrite Z.pow_0_r in Hf. lia.
  - cbn [strip_fuel]. destruct (Z.eqb_spec (s mod B) 0) as [E|E].
    + rewrite Nat2Z.inj_succ, Z.pow_succ_r in Hf by lia.
      pose proof (Z.div_mod s B ltac:(lia)) as Hdm. rewrite E in Hdm.
      assert (0 < s / B) by nia.
      assert (s / B < 2 ^ Z.of_nat f).
      { apply Z.div_lt_upper_bound; [lia|]. assert (0 < 2 ^ Z.of_nat f) by (apply Z.pow_pos_nonneg; lia). nia. }
      destruct (IH (s / B) (e + 1) H H0) as (s' & e' & R & P & M & L & V).
      exists s', e'. repeat split; try assumption; try lia.
      replace (e' - e) with (Z.succ (e' - (e + 1))) by lia. rewrite Z.pow_succ_r by lia. nia.
    + exists s, e. repeat split; try assumption; try lia. replace (e - e) with 0 by lia. rewrite Z.pow_0_r. lia.
Qed.

Lemma tzp_spec p : exists q, Zpos p = q * 2 ^ tzp p /\ Z.odd q = true /\ 0 <= tzp p.
Proof.
  induction p as [p IH|p IH|].
  - exists (Zpos p~1). cbn [tzp]. rewrite Z.pow_0_r. repeat split; try lia; try reflexivity.
  - destruct IH as (q & E & O & N). exists q. cbn [tzp]. repeat split; try assumption; try lia.
    replace (1 + tzp p) with (Z.succ (tzp p)) by lia. rewrite Z.pow_succ_r by lia.
    change (Zpos p~0) with (2 * Zpos p). rewrite E. ring.
  - exists 1. cbn [tzp]. rewrite Z.pow_0_r. repeat split; try lia; try reflexivity.
Qed.

Lemma mod_signed_nonzero B s m : 2 <= B -> m mod B <> 0 -> signed s m mod B <> 0.
Proof.
  intros HB Hm. unfold signed. destruct s; cbn [sgnz].
  - now rewrite Z.mul_1_l.
  - intros E. apply Hm. apply Z.mod_divide in E; [|lia]. apply Z.mod_divide; [lia|].
    destruct E as [k E]. exists (- k). lia.
Qed.

Lemma signed_sign_abs s : signed (sign_of s) (Z.abs s) = s.
Proof. unfold signed, sign_of. destruct (Z.ltb_spec s 0); cbn [sgnz]; lia. Qed.

(** normalize, base-2 branch (trailing zeros) and generic branch (repeated division, never out of
    fuel): the result is normalised and has the same value.  PARTIAL: the branch for the other powers
    of two (4, 8, 16, 32: trailing zeros / bits per digit) is only compared, not proved. *)
Theorem normalize_ok_partial B r : 2 <= B -> (B = 2 \/ is_pow2 B = false) ->
  exists r', normalize B r = Ok r' /\ normalized B r' /\
    (fsig r = 0 -> r' = FR 0 0) /\
    (fsig r <> 0 -> fexp r <= fexp r' /\ fsig r = fsig r' * B ^ (fexp r' - fexp r)).
Proof.
  intros HB HBr. unfold normalize. destruct r as [s e]. cbn [fsig fexp].
  destruct (Z.eqb_spec s 0) as [Zs|Zs].
  { exists (FR 0 0). repeat split; try reflexivity; [left; split; reflexivity | contradiction | contradiction]. }
  destruct (Z.eqb_spec B 2) as [->|N2].
  - (* base 2 *)
    assert (exists q, Z.abs s = q * 2 ^ tz s /\ Z.odd q = true /\ 0 <= tz s) as (q & E & O & N).
    { destruct s as [|p|p]; [contradiction | |]; cbn [tz Z.abs]; apply tzp_spec. }
    assert (0 < 2 ^ tz s) by (apply Z.pow_pos_nonneg; lia).
    assert (Z.shiftr (Z.abs s) (tz s) = q) as Hq.
    { rewrite Z.shiftr_div_pow2 by lia. rewrite E. apply Z.div_mul. lia. }
    eexists. split; [reflexivity|]. rewrite Hq. cbn [fsig fexp].
    assert (q mod 2 <> 0) by (rewrite Zmod_odd, O; lia).
    assert (0 < q) by nia.
    repeat split.
    + right. cbn [fsig]. split; [unfold signed; destruct (sign_of s); cbn [sgnz]; lia | now apply mod_signed_nonzero].
    + intros; contradiction.
    + lia.
    + replace (e + tz s - e) with (tz s) by lia.
      rewrite <- (signed_sign_abs s) at 1. rewrite E. unfold signed. ring.
  - (* generic *)
    destruct HBr as [->|NP]; [contradiction|]. rewrite NP.
    assert (0 <= Z.log2 (Z.abs s)) by apply Z.log2_nonneg.
    destruct (strip_fuel_ok B HB (Z.to_nat (Z.log2 (Z.abs s) + 1)) (Z.abs s) e ltac:(lia)) as (m & e' & R & P & M & L & V).
    { rewrite Z2Nat.id by lia. replace (Z.log2 (Z.abs s) + 1) with (Z.succ (Z.log2 (Z.abs s))) by lia.
      apply Z.log2_spec. lia. }
    rewrite R. eexists. split; [reflexivity|]. cbn [fsig fexp]. repeat split.
    + right. cbn [fsig]. split; [unfold signed; destruct (sign_of s); cbn [sgnz]; lia | now apply mod_signed_nonzero].
    + intros; contradiction.
    + exact L.
    + rewrite <- (signed_sign_abs s) at 1. rewrite V. unfold signed. ring.
Qed.

(* ---------------------------------------------------------------- refutation of the pinned shortcut, examples *)

(** DESIGN finding 15 (F02, repaired in e4cb9cb): 1e30 converted to base 2 keeps the 70-bit significand
    5^30 at precision 3; against 3 * 2^40 (precision 3) the pinned code answered Less.  The values are
    5^30 * 2^30 > 3 * 2^40; the repaired code (and Repr::cmp, which never used the precision) says Greater. *)
Lemma pinned_precision_shortcut_refuted :
  let a := FR (5 ^ 30) 30 in
  let b := FR 3 40 in
  excess_digits 2 a 3 = true /\
  repr_cmp_same_base_pinned 2 (ndigits 2) false a b (Some (3, 3)) = Lt /\
  fcmp_spec 2 a b = Gt /\
  repr_cmp_same_base 2 (ndigits 2) false a b = Gt.
Proof. vm_compute. repeat split. Qed.

Example cmp_examples :
  repr_cmp_same_base 10 (ndigits 10) false (FR 1 5) (FR 99999 0) = Gt /\
  repr_cmp_same_base 10 (ndigits 10) false (FR (-123) (-2)) (FR 0 (-1)) = Gt /\
  repr_cmp_same_base 10 (ndigits 10) true (FR (-123) (-2)) (FR 0 (-1)) = Lt /\
  fbig_eq (FR 5 3) (FR 5 3) = true /\ normalize 10 (FR 12000 (-2)) = Ok (FR 12 1) /\
  normalize 2 (FR (-40) 0) = Ok (FR (-5) 3) /\ normalize 16 (FR 4096 0) = Ok (FR 1 3).
Proof. vm_compute. repeat split. Qed.
