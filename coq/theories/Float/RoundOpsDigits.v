(** C10: the base-specific digit splitting of float/src/utils.rs (split_bits, split_digits for base 10
    and for power-of-two bases, shr_digits for base 10) equals the generic truncating division by
    B^k used by the upper models (Model.split_digits), for every value and every digit count. *)
From Dashu Require Import Base.Prelude Float.RoundSpec Float.Contract Float.Model Float.RoundOpsModel.
Open Scope Z_scope.

Theorem split_bits_spec v n : 0 <= n -> split_bits v n = (Z.quot v (2 ^ n), Z.rem v (2 ^ n)).
Proof.
  intros Hn. pose proof (Z.pow_pos_nonneg 2 n ltac:(lia) Hn) as Hp. unfold split_bits.
  rewrite Z.quot_div, Z.rem_mod by lia. rewrite (Z.sgn_pos (2 ^ n)), (Z.abs_eq (2 ^ n)) by lia.
  f_equal; ring.
Qed.

Theorem split_digits_pow2_spec t v k : 0 <= t -> 0 <= k ->
  split_digits_pow2 t v k = split_digits (2 ^ t) v k.
Proof.
  intros Ht Hk. unfold split_digits_pow2, split_digits. destruct (Z.eqb_spec k 0) as [->|K].
  - rewrite Z.pow_0_r, Z.quot_1_r, Z.rem_1_r. reflexivity.
  - rewrite split_bits_spec by nia. rewrite <- Z.pow_mul_r by lia. rewrite (Z.mul_comm t k). reflexivity.
Qed.

Theorem split_digits_10_spec v k : 0 <= k -> split_digits_10 v k = split_digits 10 v k.
Proof.
  intros Hk. unfold split_digits_10, split_digits. destruct (Z.eqb_spec k 0) as [->|K].
  - rewrite Z.pow_0_r, Z.quot_1_r, Z.rem_1_r. reflexivity.
  - rewrite split_bits_spec by lia.
    pose proof (Z.pow_pos_nonneg 2 k ltac:(lia) Hk). pose proof (Z.pow_pos_nonneg 5 k ltac:(lia) Hk).
    replace (10 ^ k) with (2 ^ k * 5 ^ k) by (rewrite <- Z.pow_mul_l; reflexivity).
    rewrite Z.quot_quot by lia. f_equal.
    rewrite !Z.rem_eq by lia. rewrite Z.quot_quot by lia. ring.
Qed.

Theorem shr_digits_10_spec v k : 0 <= k -> shr_digits_10 v k = Z.quot v (10 ^ k).
Proof.
  intros Hk. unfold shr_digits_10. destruct (Z.eqb_spec k 0) as [->|K].
  - rewrite Z.pow_0_r, Z.quot_1_r. reflexivity.
  - pose proof (Z.pow_pos_nonneg 2 k ltac:(lia) Hk). pose proof (Z.pow_pos_nonneg 5 k ltac:(lia) Hk).
    replace (10 ^ k) with (2 ^ k * 5 ^ k) by (rewrite <- Z.pow_mul_l; reflexivity).
    rewrite <- Z.quot_quot by lia. f_equal.
    rewrite Z.quot_div by lia. rewrite (Z.sgn_pos (2 ^ k)), (Z.abs_eq (2 ^ k)) by lia. ring.
Qed.

Example split_digits_examples :
  split_digits_10 (-123) 2 = (-1, -23) /\ split_digits_10 123 1 = (12, 3) /\
  split_digits_pow2 4 (-0x123) 2 = (-1, -0x23) /\ shr_digits_10 (-1999) 3 = -1.
Proof. repeat split. Qed.
