(** C08 (round 4): the radix-specific formatters of float/src/fmt.rs (impl_fmt_with_base!):

      Binary   {:b}        base 2,  marker 'b'            LowerHex/UpperHex {:x} {:X}  base 16, marker 'h'
      Octal    {:o}        base 8,  marker 'o'            LowerHex/UpperHex {:x} {:X}  base 2:  hexadecimal form 0x1.8p3

    All call Repr::fmt_round_scientific::<R>(f, upper, use_hexadecimal, Some(marker)): R is the mode of the
    FBig (Zero for a bare Repr).  As-is model (rounding to the formatter precision - in BITS, 4 * prec + 4, for the
    hexadecimal form -, undoing a carry, digit layout, "0x", width / fill / alignment / sign / zero flag) and
    specification.  Definitions only (proofs: RadixFmtProof.v). *)
From Dashu Require Import Base.Prelude Float.RoundSpec Float.Contract Float.Model Int.IoSpec Float.TextIoSpec Float.TextIoModel.
From DashuGen Require Import RoundTables.
Open Scope Z_scope.

(** the rounding step of fmt_round_scientific: (signif, exp) *)
Definition radix_rounded (B : Z) (hex : bool) (m : mode) (s e : Z) (prec : option Z) : Z * Z :=
  match prec with
  | Some p0 =>
    let p := if hex then p0 * 4 + 4 else p0 + 1 in
    let diff := p - dlen B s in
    if diff <? 0 then
      let shift := - diff in
      let '(hi, lo) := split_digits B s shift in
      let r := hi + adj (round_fract B m hi lo shift) in
      let exp := e - diff in
      if p <? dlen B r then
        let extra := if hex then 4 else 1 in
        (Z.quot r (B ^ extra), exp + extra)           (* shr_digits::<B>(&rounded, extra): the result is a power of B *)
      else (r, exp)
    else (s, e)
  | None => (s, e)
  end.

(** digits (radix 16 for the hexadecimal form), one digit before the point, zero filling up to the precision,
    marker, decimal exponent of the leading digit *)
Definition radix_layout (B : Z) (upper hex : bool) (mk : Z) (s : Z) (prec : option Z) (rounded : Z * Z) : list Z :=
  let '(signif, exp) := rounded in
  let tb := if hex then 16 else B in
  let str := if (s <? 0) && (signif =? 0) then [] else dtext upper tb (Z.abs signif) in
  let exp_adjust := if hex then exp + (len str - 1) * 4 else exp + (len str - 1) in
  let int := firstn 1 str in
  let fract := skipn 1 str in
  let p := match prec with Some p => p | None => 0 end in
  int ++ (if len fract =? 0 then [] else 46 :: fract) ++
  (if 0 <? p then (if len fract =? 0 then [46] else []) ++ zeros (p - len fract) else []) ++
  [mk] ++ itoa exp_adjust.

Definition radix_body_asis (B : Z) (m : mode) (upper hex : bool) (mk : Z) (s e : Z) (prec : option Z) : list Z :=
  radix_layout B upper hex mk s prec (radix_rounded B hex m s e prec).

Definition radix_pads (B : Z) (m : mode) (upper hex : bool) (f : fmtflags) (s e : Z) (prec : option Z) : Z * Z :=
  match f_width f with
  | None => (0, 0)
  | Some minw =>
    let '(signif, exp) := radix_rounded B hex m s e prec in
    let tb := if hex then 16 else B in
    let str := if (s <? 0) && (signif =? 0) then [] else dtext upper tb (Z.abs signif) in
    let n := len str in
    let exp_str := itoa (if hex then exp + (n - 1) * 4 else exp + (n - 1)) in
    let p := match prec with Some p => p | None => 0 end in
    let has_point := if (1 <? n) || (0 <? p) then 1 else 0 in
    let has_sign := if (s <? 0) || f_plus f then 1 else 0 in
    let trailing := if n - 1 <? p then p - (n - 1) else 0 in
    let width := n + len exp_str + 1 + has_sign + has_point + (if hex then 2 else 0) + trailing in
    if minw <=? width then (0, 0)
    else if f_zero f then (minw - width, 0)
    else match f_align f with
         | Some ALeft => (0, minw - width)
         | Some ARight | None => (minw - width, 0)
         | Some ACenter => let d := minw - width in (d / 2, d - d / 2)
         end
  end.

Definition radix_asis (B : Z) (m : mode) (upper hex : bool) (mk : Z) (f : fmtflags) (s e : Z) (prec : option Z) : list Z :=
  let '(l, r) := radix_pads B m upper hex f s e prec in
  (if f_zero f then [] else rep l (f_fill f)) ++
  (if s <? 0 then [45] else if f_plus f then [43] else []) ++
  (if hex then [48; 120] else []) ++
  (if f_zero f then zeros l else []) ++
  radix_body_asis B m upper hex mk s e prec ++ rep r (f_fill f).

(** the formats that exist: (base, trait) -> (upper, hex, marker) *)
Inductive radix_trait := TBinary | TOctal | TLowerHex | TUpperHex.
Definition radix_format (B : Z) (t : radix_trait) : option (bool * bool * Z) :=
  match t with
  | TBinary => if B =? 2 then Some (false, false, 98) else None                      (* 'b' *)
  | TOctal => if B =? 8 then Some (false, false, 111) else None                      (* 'o' *)
  | TLowerHex => if B =? 2 then Some (false, true, 112) else if B =? 16 then Some (false, false, 104) else None   (* 'p' / 'h' *)
  | TUpperHex => if B =? 2 then Some (true, true, 112) else if B =? 16 then Some (true, false, 104) else None
  end.

(* ------------------------------------------------------------------------------------------ *)
(** * specification *)

(** the positional forms: [TextIoSpec.sci_body_spec] with the marker of the format *)
Definition sci_body_spec_mk (mk : Z) (B : Z) (m : mode) (upper : bool) (s e : Z) (prec : option Z) : list Z :=
  let '(a, x) := match prec with
                 | None => (Z.abs s, e)
                 | Some p => if s =? 0 then (0, 0) else sci_round B m s e p
                 end in
  let D := dtext upper B a in
  let frac := match prec with
              | Some p => if s =? 0 then zeros p else tl D
              | None => tl D
              end in
  firstn 1 D ++ (if len frac =? 0 then [] else 46 :: frac) ++ [mk] ++
  itoa (if a =? 0 then 0 else x + len D - 1).

(** the hexadecimal form of a binary float: the significand is rounded to 4 * p + 4 BITS (the leading hexadecimal
    digit of a rounded significand is 8..f); a carry to 2^(4p+4) is printed as 1.00..0 with the exponent 4 higher *)
Definition hex_round (m : mode) (s e p0 : Z) : Z * Z :=
  let P := 4 * p0 + 4 in
  let d := dlen 2 s in
  if d <=? P then (Z.abs s, e)
  else
    let k := d - P in
    let r := Z.abs (spec_round m s (2 ^ k)) in
    if r =? 2 ^ P then (2 ^ (P - 4), e + k + 4) else (r, e + k).

(** hexadecimal digits of a (first digit, point, the rest), zero filled to p0 fractional digits, 'p', the binary
    exponent of the unit of the first hexadecimal digit *)
Definition hex_body_spec (m : mode) (upper : bool) (s e : Z) (prec : option Z) : list Z :=
  let '(a, x) := match prec with
                 | None => (Z.abs s, e)
                 | Some p => hex_round m s e p
                 end in
  let D := dtext upper 16 a in
  let frac := tl D ++ match prec with Some p => zeros (p - len (tl D)) | None => [] end in
  firstn 1 D ++ (if len frac =? 0 then [] else 46 :: frac) ++ [112] ++ itoa (x + 4 * (len D - 1)).

Definition radix_body_spec (B : Z) (m : mode) (upper hex : bool) (mk : Z) (s e : Z) (prec : option Z) : list Z :=
  if hex then hex_body_spec m upper s e prec else sci_body_spec_mk mk B m upper s e prec.

(** padding of a signed number with a radix prefix (core::fmt's convention for numbers: sign, prefix, then the zeros
    of the zero flag; otherwise fill characters around sign + prefix + body according to the alignment) *)
Definition pad_spec_prefix (f : fmtflags) (negative : bool) (prefix body : list Z) : list Z :=
  let sg := if negative then [45] else if f_plus f then [43] else [] in
  let width := len sg + len prefix + len body in
  match f_width f with
  | None => sg ++ prefix ++ body
  | Some min =>
    if min <=? width then sg ++ prefix ++ body
    else if f_zero f then sg ++ prefix ++ zeros (min - width) ++ body
    else
      let p := min - width in
      let '(l, r) := match f_align f with
                     | Some ALeft => (0, p)
                     | Some ARight | None => (p, 0)
                     | Some ACenter => (p / 2, p - p / 2)
                     end in
      rep l (f_fill f) ++ sg ++ prefix ++ body ++ rep r (f_fill f)
  end.

Definition radix_spec (B : Z) (m : mode) (upper hex : bool) (mk : Z) (f : fmtflags) (s e : Z) (prec : option Z) : list Z :=
  pad_spec_prefix f (s <? 0) (if hex then [48; 120] else []) (radix_body_spec B m upper hex mk s e prec).
