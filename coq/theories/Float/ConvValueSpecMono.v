(** C08 (round 5): the specification of a base change ([ConvBaseModel4.convert_value_spec]: the p-digit float the
    mode names for the value N / D, normal form, flag) is CONSTANT BETWEEN two values on which it agrees with an
    Inexact flag: this is the step from "both ends of the error interval of the approximant round alike"
    (the test of the repaired ln/exp route of convert_base) to "the exact value is rounded like them". *)
From Dashu Require Import Base.Prelude Float.RoundSpec Float.RoundSpecProof Float.Contract Float.Model Float.ModelProof
  Float.AddModelProof Int.IoSpec Float.TextIoSpec Float.TextIoModel
  Conv.ConvSpec Conv.ConvModel Conv.ConvRatToFbig Float.ConvBaseModel4 Float.ConvValueSpecProof Float.RoundSpecMono.
From DashuGen Require Import RoundTables.
Open Scope Z_scope.

Section Mono.
Variable B : Z.
Hypothesis B_ge_2 : 2 <= B.
Local Notation pw := (Bpow_pos B B_ge_2).

Lemma spec_round_multiple m k d : 0 < d -> spec_round m (k * d) d = k.
Proof.
  intros Hd. pose proof (spec_round_exact m (k * d) d Hd (Z.mod_mul k d ltac:(lia))) as E. nia.
Qed.

(** the rounding at the exponent of the p-th digit, with operands scaled to integers *)
Lemma scaled_form p m N D : N <> 0 -> 0 < D -> 1 <= p ->
  exists sh ex, 0 <= sh /\ 0 <= ex /\ rat_exp B N D - p + 1 = ex - sh /\
    0 < D * B ^ ex /\
    round_rat_at B m N D (rat_exp B N D - p + 1) = spec_round m (N * B ^ sh) (D * B ^ ex) /\
    (forall M, cmp_kx B 1 (XRat N D) M (rat_exp B N D - p + 1) = (M * (D * B ^ ex) ?= N * B ^ sh)) /\
    B ^ (p - 1) * (D * B ^ ex) <= Z.abs (N * B ^ sh) < B ^ p * (D * B ^ ex).
Proof.
  intros HN HD Hp. destruct (rat_exp_bounds B B_ge_2 N D HN HD) as (j & Hj & Hej & L & U). cbv zeta in *.
  set (e := rat_exp B N D) in *.
  exists (j + p), (e + j + 1). split; [lia|]. split; [lia|]. split; [lia|].
  pose proof (pw (e + j + 1) ltac:(lia)) as Pex. pose proof (pw (j + p) ltac:(lia)) as Psh.
  split; [apply Z.mul_pos_pos; lia|].
  replace (e - p + 1) with (e + j + 1 - (j + p)) by lia.
  split; [apply (round_at_scaled B B_ge_2 m N D (j + p) (e + j + 1) 0 HD); lia|].
  split; [intros M; apply (round_at_scaled B B_ge_2 m N D (j + p) (e + j + 1) M HD); lia|].
  rewrite Z.abs_mul, (Z.abs_eq (B ^ (j + p))) by lia.
  pose proof (pw p ltac:(lia)) as Pp. pose proof (pw (p - 1) ltac:(lia)) as Pp1.
  assert (E1 : B ^ (p - 1) * (D * B ^ (e + j + 1)) = D * B ^ (e + j) * B ^ p).
  { replace (e + j + 1) with (e + j + 1) by lia. rewrite (Z.pow_add_r B (e + j) 1) by lia.
    replace (B ^ p) with (B ^ (p - 1) * B ^ 1) by (rewrite <- Z.pow_add_r by lia; f_equal; lia). ring. }
  assert (E2 : B ^ p * (D * B ^ (e + j + 1)) = D * B ^ (e + 1 + j) * B ^ p).
  { replace (e + 1 + j) with (e + j + 1) by lia. ring. }
  assert (E3 : Z.abs N * B ^ (j + p) = Z.abs N * B ^ j * B ^ p) by (rewrite Z.pow_add_r by lia; ring).
  rewrite E1, E2, E3. split.
  - apply Z.mul_le_mono_nonneg_r; lia.
  - apply Z.mul_lt_mono_pos_r; lia.
Qed.

(** the significand of the specification has p digits (or is B^p) and the sign of the value *)
Lemma spec_sig_bounds p m N D : N <> 0 -> 0 < D -> 1 <= p ->
  let M := round_rat_at B m N D (rat_exp B N D - p + 1) in
  B ^ (p - 1) <= Z.abs M <= B ^ p /\ Z.sgn M = Z.sgn N.
Proof.
  intros HN HD Hp M. destruct (scaled_form p m N D HN HD Hp) as (sh & ex & Hsh & Hex & _ & Pd & EM & _ & L & U).
  fold M in EM. set (n := N * B ^ sh) in *. set (d := D * B ^ ex) in *.
  pose proof (pw (p - 1) ltac:(lia)) as Pp1. pose proof (pw sh Hsh) as Psh.
  pose proof (spec_round_multiple m (B ^ (p - 1)) d Pd) as X1. pose proof (spec_round_multiple m (B ^ p) d Pd) as X2.
  pose proof (spec_round_multiple m (- B ^ (p - 1)) d Pd) as Y1. pose proof (spec_round_multiple m (- B ^ p) d Pd) as Y2.
  destruct (Z.lt_trichotomy N 0) as [Neg|[Z0|Pos]]; [|contradiction|].
  - assert (n < 0) by (unfold n; apply Z.mul_neg_pos; lia). rewrite Z.abs_neq in L, U by lia.
    pose proof (spec_round_mono m n (- B ^ (p - 1) * d) d Pd ltac:(lia)) as A1.
    pose proof (spec_round_mono m (- B ^ p * d) n d Pd ltac:(lia)) as A2.
    rewrite <- EM in A1, A2. rewrite Y1 in A1. rewrite Y2 in A2.
    rewrite (Z.sgn_neg N), (Z.sgn_neg M), (Z.abs_neq M) by lia. lia.
  - assert (0 < n) by (unfold n; apply Z.mul_pos_pos; lia). rewrite Z.abs_eq in L, U by lia.
    pose proof (spec_round_mono m (B ^ (p - 1) * d) n d Pd ltac:(lia)) as A1.
    pose proof (spec_round_mono m n (B ^ p * d) d Pd ltac:(lia)) as A2.
    rewrite <- EM in A1, A2. rewrite X1 in A1. rewrite X2 in A2.
    rewrite (Z.sgn_pos N), (Z.sgn_pos M), (Z.abs_eq M) by lia. lia.
Qed.

(** the exponent grows with the magnitude *)
Lemma rat_exp_mono N N' D : N <> 0 -> N' <> 0 -> 0 < D -> Z.abs N <= Z.abs N' -> rat_exp B N D <= rat_exp B N' D.
Proof.
  intros HN HN' HD H.
  destruct (rat_exp_bounds B B_ge_2 N D HN HD) as (j & Hj & Hej & L & _).
  destruct (rat_exp_bounds B B_ge_2 N' D HN' HD) as (j' & Hj' & Hej' & _ & U'). cbv zeta in *.
  set (e := rat_exp B N D) in *. set (e' := rat_exp B N' D) in *.
  pose proof (pw j Hj) as Pj. pose proof (pw j' Hj') as Pj'.
  assert (A : D * B ^ (e + j) * B ^ j' <= Z.abs N * B ^ j * B ^ j') by (apply Z.mul_le_mono_nonneg_r; lia).
  assert (C : Z.abs N' * B ^ j' * B ^ j < D * B ^ (e' + 1 + j') * B ^ j) by (apply Z.mul_lt_mono_pos_r; lia).
  assert (Mid : Z.abs N * B ^ j * B ^ j' <= Z.abs N' * B ^ j' * B ^ j).
  { replace (Z.abs N * B ^ j * B ^ j') with (Z.abs N * (B ^ j * B ^ j')) by ring.
    replace (Z.abs N' * B ^ j' * B ^ j) with (Z.abs N' * (B ^ j * B ^ j')) by ring.
    apply Z.mul_le_mono_nonneg_r; [apply Z.mul_nonneg_nonneg; lia | lia]. }
  assert (P : B ^ (e + j + j') < B ^ (e' + 1 + j' + j)).
  { rewrite (Z.pow_add_r B (e + j) j'), (Z.pow_add_r B (e' + 1 + j') j) by lia.
    apply (Z.mul_lt_mono_pos_l D); [exact HD|]. rewrite !Z.mul_assoc. lia. }
  destruct (Z.le_gt_cases e e') as [|G]; [assumption|exfalso].
  assert (B ^ (e' + 1 + j' + j) <= B ^ (e + j + j')) by (apply Z.pow_le_mono_r; lia). lia.
Qed.

Lemma rat_spec_nz p m N D : N <> 0 ->
  rat_to_fbig_spec B p m N D =
  (round_rat_at B m N D (rat_exp B N D - p + 1), rat_exp B N D - p + 1,
   cmp_kx B 1 (XRat N D) (round_rat_at B m N D (rat_exp B N D - p + 1)) (rat_exp B N D - p + 1)).
Proof. intros HN. unfold rat_to_fbig_spec. destruct (Z.eqb_spec N 0); [contradiction|reflexivity]. Qed.

Lemma flag_of_error_inj sg c1 c2 r : sg <> 0 ->
  flag_of_error sg c1 = Some r -> flag_of_error sg c2 = Some r -> c1 = c2.
Proof.
  intros Hs. unfold flag_of_error.
  destruct c1, c2; try discriminate; try reflexivity;
    destruct (Z.ltb_spec 0 sg); destruct (Z.ltb_spec sg 0); try lia; intros E1 E2; congruence.
Qed.

(** what [convert_value_spec] = (h, x, FInexact r) says, unfolded *)
Lemma spec_unfold p m N D h x r : N <> 0 -> 0 < D -> 1 <= p ->
  convert_value_spec B p m N D = (h, x, FInexact r) ->
  let u := rat_exp B N D - p + 1 in let M := round_rat_at B m N D u in
  normalize B M u = (h, x) /\ flag_of_error (Z.sgn N) (cmp_kx B 1 (XRat N D) M u) = Some r /\
  B ^ (p - 1) <= Z.abs M <= B ^ p /\ Z.sgn M = Z.sgn N /\
  exists k, 0 <= k /\ x = u + k /\ M = h * B ^ k.
Proof.
  intros HN HD Hp H u M. unfold convert_value_spec in H. rewrite (rat_spec_nz p m N D HN) in H. fold u in H. fold M in H.
  pose proof (spec_sig_bounds p m N D HN HD Hp) as [Bd Sg]. cbv zeta in Bd, Sg. fold u in Bd, Sg. fold M in Bd, Sg.
  pose proof (pw (p - 1) ltac:(lia)) as Pp1. assert (HM : M <> 0) by lia.
  pose proof (normalize_spec B B_ge_2 M u) as NS. destruct (normalize B M u) as [h' x'].
  destruct NS as [_ NS]. destruct (NS HM) as (_ & _ & k & Hk & Ex & EM).
  destruct (flag_of_error (Z.sgn N) (cmp_kx B 1 (XRat N D) M u)) as [f|]; [|discriminate].
  injection H as -> -> ->. repeat split; try assumption; try lia. exists k. auto.
Qed.

(** the core: Na is the end next to zero, Nz the far end, all three of one sign *)
Lemma between_core p m D Na N Nz h x r : 1 <= p -> 0 < D ->
  ((0 < Na /\ Na <= N <= Nz) \/ (Na < 0 /\ Nz <= N <= Na)) ->
  convert_value_spec B p m Na D = (h, x, FInexact r) ->
  convert_value_spec B p m Nz D = (h, x, FInexact r) ->
  convert_value_spec B p m N D = (h, x, FInexact r).
Proof.
  intros Hp HD Ord Ha Hz.
  assert (HNa : Na <> 0) by lia. assert (HN : N <> 0) by lia. assert (HNz : Nz <> 0) by lia.
  assert (Sg : Z.sgn N = Z.sgn Na /\ Z.sgn Nz = Z.sgn Na /\ Z.sgn Na <> 0).
  { destruct Ord as [[P [O1 O2]]|[P [O1 O2]]].
    - rewrite !Z.sgn_pos by lia. lia.
    - rewrite !Z.sgn_neg by lia. lia. }
  destruct Sg as (SgN & SgZ & Sg0).
  pose proof (rat_exp_mono Na N D HNa HN HD ltac:(lia)) as E1.
  pose proof (rat_exp_mono N Nz D HN HNz HD ltac:(lia)) as E2.
  destruct (spec_unfold p m Na D h x r HNa HD Hp Ha) as (Na_n & Fa & Ba & Sa & ka & Hka & Xa & EMa).
  destruct (spec_unfold p m Nz D h x r HNz HD Hp Hz) as (Nz_n & Fz & Bz & Sz & kz & Hkz & Xz & EMz).
  clear Ha Hz. rewrite SgZ in Fz.
  remember (rat_exp B Na D) as ea. remember (rat_exp B Nz D) as ez. remember (rat_exp B N D) as e.
  remember (round_rat_at B m Na D (ea - p + 1)) as Ma. remember (round_rat_at B m Nz D (ez - p + 1)) as Mz.
  pose proof (pw (p - 1) ltac:(lia)) as Pp1. pose proof (pw p ltac:(lia)) as Pp.
  pose proof (flag_of_error_inj _ _ _ _ Sg0 Fa Fz) as Ec.
  destruct (Z.eq_dec ea ez) as [Eq|Ne].
  - (* one exponent *)
    rewrite <- Eq in *. clear Eq. assert (Ee : e = ea) by (clear - E1 E2; lia). rewrite Ee in *. clear Ee E1 E2.
    assert (ka = kz) by (clear - Xa Xz; lia). subst kz. assert (EM : Mz = Ma) by (rewrite EMa, EMz; reflexivity).
    remember (ea - p + 1) as u.
    set (sh := if 0 <=? u then 0 else - u). set (ex := if 0 <=? u then u else 0).
    assert (Hsh : 0 <= sh) by (unfold sh; destruct (Z.leb_spec 0 u); lia).
    assert (Hex : 0 <= ex) by (unfold ex; destruct (Z.leb_spec 0 u); lia).
    assert (Eu : u = ex - sh) by (unfold sh, ex; destruct (Z.leb_spec 0 u); lia).
    pose proof (pw sh Hsh) as Psh. pose proof (pw ex Hex) as Pex.
    assert (Pd : 0 < D * B ^ ex) by (apply Z.mul_pos_pos; lia).
    destruct (round_at_scaled B B_ge_2 m Na D sh ex Ma HD Hsh Hex) as [Ra Ca].
    destruct (round_at_scaled B B_ge_2 m Nz D sh ex Ma HD Hsh Hex) as [Rz Cz].
    destruct (round_at_scaled B B_ge_2 m N D sh ex Ma HD Hsh Hex) as [Rn Cn].
    rewrite <- Eu in *. rewrite <- HeqMa in Ra. rewrite EM in HeqMz. rewrite <- HeqMz in Rz.
    assert (EMn : round_rat_at B m N D u = Ma).
    { rewrite Rn. destruct Ord as [[P [O1 O2]]|[P [O1 O2]]].
      - transitivity (spec_round m (Na * B ^ sh) (D * B ^ ex)); [|symmetry; exact Ra]. apply (spec_round_between m (Na * B ^ sh) (N * B ^ sh) (Nz * B ^ sh) _ Pd); [split; apply Z.mul_le_mono_nonneg_r; lia|]. rewrite <- Ra, <- Rz. reflexivity.
      - transitivity (spec_round m (Nz * B ^ sh) (D * B ^ ex)); [|symmetry; exact Rz]. apply (spec_round_between m (Nz * B ^ sh) (N * B ^ sh) (Na * B ^ sh) _ Pd); [split; apply Z.mul_le_mono_nonneg_r; lia|]. rewrite <- Ra, <- Rz. reflexivity. }
    unfold convert_value_spec. rewrite (rat_spec_nz p m N D HN). rewrite <- Heqe, <- Hequ. rewrite EMn. rewrite Na_n.
    rewrite SgN.
    assert (Ecn : cmp_kx B 1 (XRat N D) Ma u = cmp_kx B 1 (XRat Na D) Ma u).
    { rewrite EM in Ec. rewrite Cn, Ca. rewrite Ca, Cz in Ec. rewrite Ca in Fa.
      assert (Obt : (Na * B ^ sh <= N * B ^ sh /\ N * B ^ sh <= Nz * B ^ sh) \/ (Nz * B ^ sh <= N * B ^ sh /\ N * B ^ sh <= Na * B ^ sh)).
      { destruct Ord as [[P [O1 O2]]|[P [O1 O2]]]; [left|right]; split; apply Z.mul_le_mono_nonneg_r; lia. }
      revert Fa Ec. generalize (Ma * (D * B ^ ex)) (Na * B ^ sh) (N * B ^ sh) (Nz * B ^ sh) Obt. clear.
      intros X A V Zz Obt Fa Ec.
      destruct (Z.compare_spec X A) as [C1|C1|C1]; [cbn in Fa; discriminate| |];
        destruct (Z.compare_spec X Zz) as [C2|C2|C2]; try discriminate;
        destruct (Z.compare_spec X V) as [C3|C3|C3]; try reflexivity; exfalso; lia. }
    rewrite Ecn, Fa. reflexivity.
  - (* two exponents: the far end would be a power of the base reached from both sides with different flags *)
    exfalso.
    assert (Lt : ea < ez) by (clear - E1 E2 Ne; lia).
    assert (Ek : ka = kz + (ez - ea)) by (clear - Xa Xz; lia).
    assert (EMM : Ma = Mz * B ^ (ez - ea)).
    { rewrite EMa, EMz, Ek. rewrite Z.pow_add_r by (clear - Hkz Lt; lia). ring. }
    pose proof (pw (ez - ea) ltac:(clear - Lt; lia)) as Pt.
    assert (Bt : B ^ 1 <= B ^ (ez - ea)) by (apply Z.pow_le_mono_r; clear - B_ge_2 Lt; lia). rewrite Z.pow_1_r in Bt.
    assert (Eabs : Z.abs Ma = Z.abs Mz * B ^ (ez - ea)) by (rewrite EMM, Z.abs_mul, (Z.abs_eq (B ^ (ez - ea))) by (clear - Pt; lia); reflexivity).
    assert (Epp : B ^ p = B ^ (p - 1) * B) by (replace p with (p - 1 + 1) at 1 by (clear; lia); rewrite Z.pow_add_r, Z.pow_1_r by (clear - Hp; lia); reflexivity).
    assert (T1 : B ^ (p - 1) * B ^ (ez - ea) <= Z.abs Mz * B ^ (ez - ea)) by (apply Z.mul_le_mono_nonneg_r; [clear - Pt; lia | clear - Bz; lia]).
    assert (T2 : B ^ (p - 1) * B <= B ^ (p - 1) * B ^ (ez - ea)) by (apply Z.mul_le_mono_nonneg_l; [clear - Pp1; lia | clear - Bt; lia]).
    assert (T3 : Z.abs Mz * B ^ (ez - ea) = B ^ (p - 1) * B ^ (ez - ea)) by (clear - Eabs T1 T2 Ba Epp; lia).
    assert (TopZ' : Z.abs Mz = B ^ (p - 1)) by (apply (Z.mul_reg_r _ _ (B ^ (ez - ea))); [clear - Pt; lia | exact T3]).
    assert (TopA' : Z.abs Ma = B ^ (p - 1) * B ^ (ez - ea)) by (rewrite Eabs; exact T3).
    assert (Top : Z.abs Ma = B ^ p /\ Z.abs Mz = B ^ (p - 1)).
    { split; [|exact TopZ']. destruct Ba as [_ Ba2]. rewrite Epp in *. rewrite TopA' in *. apply Z.le_antisymm; assumption. }
    destruct Top as [TopA TopZ].
    destruct (scaled_form p m Na D HNa HD Hp) as (sha & exa & Hsha & _ & _ & Pda & _ & Ca & La & Ua).
    destruct (scaled_form p m Nz D HNz HD Hp) as (shz & exz & Hshz & _ & _ & Pdz & _ & Cz & Lz & Uz).
    rewrite <- Heqea in Ca. rewrite <- Heqez in Cz. specialize (Ca Ma). specialize (Cz Mz).
    rewrite Ca in Fa. rewrite Cz in Fz.
    destruct Ord as [[P [O1 O2]]|[P [O1 O2]]].
    + (* positive *)
      rewrite SgZ in Sz. rewrite (Z.sgn_pos Na P) in Fa, Fz, Sa, Sz.
      assert (EqA : Ma = B ^ p) by (clear - TopA Sa; destruct (Z.sgn_spec Ma) as [[? ?]|[[? ?]|[? ?]]]; lia).
      assert (EqZ : Mz = B ^ (p - 1)) by (clear - TopZ Sz; destruct (Z.sgn_spec Mz) as [[? ?]|[[? ?]|[? ?]]]; lia).
      rewrite Z.abs_eq in Ua by (apply Z.mul_nonneg_nonneg; [clear - P; lia|apply Z.pow_nonneg; clear - B_ge_2; lia]).
      rewrite Z.abs_eq in Lz by (apply Z.mul_nonneg_nonneg; [clear - P O1 O2; lia|apply Z.pow_nonneg; clear - B_ge_2; lia]).
      rewrite EqA in Fa. rewrite EqZ in Fz.
      revert Fa Fz.
      destruct (Z.compare_spec (B ^ p * (D * B ^ exa)) (Na * B ^ sha)) as [C1|C1|C1]; [exfalso; clear - C1 Ua; lia | exfalso; clear - C1 Ua; lia |].
      destruct (Z.compare_spec (B ^ (p - 1) * (D * B ^ exz)) (Nz * B ^ shz)) as [C2|C2|C2]; [| | exfalso; clear - C2 Lz; lia]; cbn; intros; congruence.
    + (* negative *)
      rewrite SgZ in Sz. rewrite (Z.sgn_neg Na P) in Fa, Fz, Sa, Sz.
      assert (EqA : Ma = - B ^ p) by (clear - TopA Sa; destruct (Z.sgn_spec Ma) as [[? ?]|[[? ?]|[? ?]]]; lia).
      assert (EqZ : Mz = - B ^ (p - 1)) by (clear - TopZ Sz; destruct (Z.sgn_spec Mz) as [[? ?]|[[? ?]|[? ?]]]; lia).
      assert (NA0 : Na * B ^ sha < 0) by (apply Z.mul_neg_pos; [exact P|apply Z.pow_pos_nonneg; [clear - B_ge_2; lia|exact Hsha]]).
      assert (NZ0 : Nz * B ^ shz < 0) by (apply Z.mul_neg_pos; [clear - P O1 O2; lia|apply Z.pow_pos_nonneg; [clear - B_ge_2; lia|exact Hshz]]).
      rewrite Z.abs_neq in Ua by (clear - NA0; lia). rewrite Z.abs_neq in Lz by (clear - NZ0; lia).
      rewrite EqA in Fa. rewrite EqZ in Fz.
      revert Fa Fz.
      destruct (Z.compare_spec (- B ^ p * (D * B ^ exa)) (Na * B ^ sha)) as [C1|C1|C1]; [exfalso; clear - C1 Ua; lia | | exfalso; clear - C1 Ua; lia].
      destruct (Z.compare_spec (- B ^ (p - 1) * (D * B ^ exz)) (Nz * B ^ shz)) as [C2|C2|C2]; [| exfalso; clear - C2 Lz; lia |]; cbn; intros; congruence.
Qed.

Lemma spec_zero_exact p m D h x r : convert_value_spec B p m 0 D <> (h, x, FInexact r).
Proof. unfold convert_value_spec, rat_to_fbig_spec. cbn. destruct (normalize B 0 0). discriminate. Qed.

Lemma spec_sign p m N D h x r : N <> 0 -> 0 < D -> 1 <= p ->
  convert_value_spec B p m N D = (h, x, FInexact r) -> Z.sgn h = Z.sgn N.
Proof.
  intros HN HD Hp H. destruct (spec_unfold p m N D h x r HN HD Hp H) as (_ & _ & _ & Sg & k & Hk & _ & EM).
  rewrite <- Sg, EM, Z.sgn_mul, (Z.sgn_pos (B ^ k)) by (apply pw; exact Hk). ring.
Qed.

(** ** the specification is constant between two values on which it agrees with an Inexact flag *)
Theorem convert_value_spec_between p m N1 D1 N D N2 D2 h x r : 1 <= p -> 0 < D1 -> 0 < D -> 0 < D2 ->
  N1 * D <= N * D1 -> N * D2 <= N2 * D ->
  convert_value_spec B p m N1 D1 = (h, x, FInexact r) ->
  convert_value_spec B p m N2 D2 = (h, x, FInexact r) ->
  convert_value_spec B p m N D = (h, x, FInexact r).
Proof.
  intros Hp HD1 HD HD2 L U H1 H2.
  set (DD := D1 * D * D2). assert (HDD : 0 < DD) by (unfold DD; apply Z.mul_pos_pos; [apply Z.mul_pos_pos|]; lia).
  rewrite (convert_value_spec_ratio B B_ge_2 p m N1 D1 (N1 * D * D2) DD HD1 HDD ltac:(unfold DD; ring)) in H1.
  rewrite (convert_value_spec_ratio B B_ge_2 p m N2 D2 (N2 * D1 * D) DD HD2 HDD ltac:(unfold DD; ring)) in H2.
  rewrite (convert_value_spec_ratio B B_ge_2 p m N D (N * D1 * D2) DD HD HDD ltac:(unfold DD; ring)).
  assert (O1 : N1 * D * D2 <= N * D1 * D2) by (apply Z.mul_le_mono_nonneg_r; lia).
  assert (O2 : N * D1 * D2 <= N2 * D1 * D).
  { replace (N * D1 * D2) with (N * D2 * D1) by ring. replace (N2 * D1 * D) with (N2 * D * D1) by ring.
    apply Z.mul_le_mono_nonneg_r; lia. }
  set (A := N1 * D * D2) in *. set (V := N * D1 * D2) in *. set (Z2 := N2 * D1 * D) in *.
  destruct (Z.lt_trichotomy 0 A) as [PA|[ZA|NA]].
  - apply (between_core p m DD A V Z2 h x r Hp HDD); [left; lia | exact H1 | exact H2].
  - exfalso. rewrite <- ZA in H1. exact (spec_zero_exact p m DD h x r H1).
  - destruct (Z.lt_trichotomy Z2 0) as [NZ|[ZZ|PZ]].
    + apply (between_core p m DD Z2 V A h x r Hp HDD); [right; lia | exact H2 | exact H1].
    + exfalso. rewrite ZZ in H2. exact (spec_zero_exact p m DD h x r H2).
    + exfalso.
      pose proof (spec_sign p m A DD h x r ltac:(lia) HDD Hp H1) as S1.
      pose proof (spec_sign p m Z2 DD h x r ltac:(lia) HDD Hp H2) as S2.
      rewrite (Z.sgn_neg A) in S1 by lia. rewrite (Z.sgn_pos Z2) in S2 by lia. lia.
Qed.

End Mono.

(** non-vacuity: 10/3 and 11/3 at one decimal digit, mode Down, both give 3 (Inexact): so does 7/2 *)
Example convert_value_spec_between_ex :
  convert_value_spec 10 1 MDown 10 3 = (3, 0, FInexact NoOp) /\ convert_value_spec 10 1 MDown 11 3 = (3, 0, FInexact NoOp) /\
  convert_value_spec 10 1 MDown 7 2 = (3, 0, FInexact NoOp).
Proof. vm_compute. repeat split. Qed.
