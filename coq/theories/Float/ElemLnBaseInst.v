(** C11 round 5, piece (ii) of C11_exp_nearest_1ulp_partial: the error of ln_base.

    The as-is models ElemAsis.iacoth / ln2 / ln10 / ln_base (log.rs Context::iacoth, ln2, ln10, ln_base)
    against the real numbers atanh(1/n), ln 2, ln 10, ln B, in the two nearest modes, for EVERY f32
    estimate layer whose `as usize` conversion is non-negative:

      fb_sqr_rel             FBig::sqr: value = x^2 * theta, three rounding factors (Context::sqr of the
                             model may round an operand longer than 2P digits first)
      iacoth_loop_trace      every returning run of ElemAsis.iacoth_loop from a state of AtTrace
                             (ElemAtanhErr.v) ends in a state of AtTrace whose next increase is below
                             the threshold B^(sub_ulp_exp sum)
      iacoth_asis_error      iacoth fuel p m n = Ok res (n >= 3) =>
                               |res - atanh(1/n)| (1 - y) <= atanh(1/n) y + 2 B^(sub_ulp_exp res),
                               y = (10 K + 16) u,  u = 1 / (2 B^(wp-1)),  wp = p + guard + 2,
                               K < fuel the number of additions the loop made
      iacoth_asis_rel        with the contract of Repr::digits_lb (a LOWER bound of the digit count:
                             hypothesis on the f32 layer) the threshold is at most u |res| and
                               res = atanh(1/n) (1 + delta), |delta| <= (y + 2u) / (1 - y - 2u)
      ln2_asis_rel, ln10_asis_rel, ln_base_asis_rel
                             the recombinations 4 a + 2 b, 3 ln2 + 2 c, ln2 * log2(B) (bases 2, 10 and
                             the powers of two) keep the relative error: one more factor (1 + u)^2 each. *)
From Coq Require Import ZArith Reals Lra Lia Bool Psatz.
From Flocq Require Import Core.
From Dashu Require Import Base.Prelude Float.RoundSpec Float.RoundSpecProof Float.Contract Float.Model
  Float.ModelProof Float.AddModel Float.DivMulModel Float.ElemEncl Float.ElemEntryProof Float.ElemEnclProof
  Float.ElemF32 Float.ElemAsis Float.ElemPowiProof Float.ElemSeriesErr Float.ElemSeriesInst
  Float.ElemAddInst Float.ElemAtanhErr.
From DashuGen Require Import RoundTables ElemParams.
Open Scope Z_scope.

Section LnBase.
Variable B : Z.
Hypothesis HB : 2 <= B.
Local Notation bp := (bpw B).
Local Notation fbv := (fbv B).
Local Notation uP := (uP B).

Lemma uP_half P : 1 <= P -> (0 <= uP P)%R /\ (uP P <= / 2)%R.
Proof.
  intros HP. pose proof (uP_pos B HB P HP). split; [lra|].
  unfold ElemSeriesInst.uP. pose proof (U_ge2 B HB P HP). apply Rinv_le_contravar; lra.
Qed.

Lemma abs_to_RA u th : (0 <= u)%R -> (u <= 1)%R -> (Rabs (th - 1) <= u)%R -> forall t, RA u 1 t (t * th).
Proof. intros u0 u1 H t. apply (RA_step u u0 u1 0 t t th (RA_refl u t) H). Qed.

(** Model.shrink: the value is kept up to one rounding factor of the precision p *)
Lemma shrink_rel p k m s e : 1 <= p -> 1 <= k -> is_half_mode m = true ->
  exists th : R, (let '(a, ea) := shrink B p k m s e in fval B a ea) = (fval B s e * th)%R /\ (Rabs (th - 1) <= uP p)%R.
Proof.
  intros Hp Hk Hm. unfold shrink. destruct (Z.eqb_spec p 0); [lia|].
  assert (Hkp : 1 <= k * p) by nia.
  destruct (Z.gtb_spec (dlen B s) (k * p)).
  - destruct (repr_round_rel B HB (k * p) m s e Hkp Hm) as (th & E & Hth). exists th. split; [exact E|].
    eapply Rle_trans; [apply (rel_to_u B HB (k * p) Hkp); exact Hth|]. apply (uP_antitone B HB). nia.
  - exists 1%R. split; [ring|]. replace (1 - 1)%R with 0%R by ring. rewrite Rabs_R0. left. apply (uP_pos B HB). exact Hp.
Qed.

(** FBig::sqr *)
Theorem fb_sqr_rel m x : is_half_mode m = true -> 1 <= fprec x ->
  RA (uP (fprec x)) 3 (fbv x * fbv x) (fbv (fb_sqr B m x)).
Proof.
  intros Hm HP. pose proof (uP_half (fprec x) HP) as [u0 uh]. assert (u1 : (uP (fprec x) <= 1)%R) by lra.
  unfold fb_sqr. rewrite (fbv_fb_of B HB). unfold ctx_sqr.
  destruct (shrink_rel (fprec x) 2 m (fsig x) (fexp x) HP ltac:(lia) Hm) as (ths & Es & Hs).
  destruct (shrink B (fprec x) 2 m (fsig x) (fexp x)) as [a ea].
  pose proof (fval_normalize B HB (a * a) (2 * ea)) as Hn.
  destruct (normalize B (a * a) (2 * ea)) as [s' e'].
  replace (2 * ea) with (ea + ea) in Hn by lia. rewrite (fval_mul B HB) in Hn.
  destruct (repr_round_rel B HB (fprec x) m s' e' HP Hm) as (th & E & Hth).
  apply (rel_to_u B HB (fprec x) HP) in Hth.
  unfold approx_val. cbn [fst snd]. fold (aval B (repr_round B (fprec x) m s' e')). rewrite E, Hn, Es.
  apply (RA_step (uP (fprec x)) u0 u1 2); [|exact Hth].
  apply (RA_mul (uP (fprec x)) u0 u1 1 1); apply abs_to_RA; assumption.
Qed.

Section F32.
Context {F : Type} (O : f32ops F).
Variable W : Z.
Hypothesis usize_nonneg : forall x, 0 <= f_to_usize O x.
Variable m : mode.
Hypothesis Hm : is_half_mode m = true.

(* ------------------------------------------------------------------ the loop of iacoth *)
Section Loop.
Variable P : Z.
Hypothesis HP : 1 <= P.
Variable inv2 : fbig.
Hypothesis Hi2 : P <= fprec inv2.
Hypothesis Hi2pos : (0 < fbv inv2)%R.
Variable zc : R.
Local Notation u := (uP P).

Theorem iacoth_loop_trace : forall fuel sum pow (j : nat) res,
  P <= fprec pow -> P <= fprec sum -> (0 < fbv pow)%R -> (0 < fbv sum)%R ->
  AtTrace u zc (fbv inv2) j (fbv pow) (fbv sum) ->
  iacoth_loop B O W fuel P m inv2 sum pow (Z.of_nat (S (2 * S j))) = Ok res ->
  exists (K : nat) pw th1 thk th2, (j <= K)%nat /\ (K < j + fuel)%nat /\ AtTrace u zc (fbv inv2) K pw (fbv res) /\
    (Rabs (th1 - 1) <= u)%R /\ (Rabs (thk - 1) <= u)%R /\ (Rabs (th2 - 1) <= u)%R /\
    (Rabs (at_increase (fbv inv2) pw K th1 thk th2) <= bp (sub_ulp_exp B O W res))%R /\ (0 < fbv res)%R.
Proof.
  pose proof (uP_half P HP) as [u0 uh].
  induction fuel as [|fuel IH]; intros sum pow j res Hpw Hsm Hpp Hsp T E; [discriminate|].
  cbn [iacoth_loop] in E.
  assert (Hge : forall a b, P <= a -> P <= ctx_max a b) by (intros a b H; unfold ctx_max; destruct (Z.gtb_spec a b); lia).
  assert (Hge' : forall a b, P <= b -> P <= ctx_max a b) by (intros a b H; unfold ctx_max; destruct (Z.gtb_spec a b); lia).
  set (pow' := fb_mul B m pow inv2) in *.
  destruct (fb_mul_rel B HB m pow inv2 Hm ltac:(specialize (Hge (fprec pow) (fprec inv2) Hpw); lia)) as (th1 & E1 & H1). fold pow' in E1.
  assert (H1' : (Rabs (th1 - 1) <= u)%R).
  { eapply Rle_trans; [exact H1|]. apply (uP_antitone B HB). specialize (Hge (fprec pow) (fprec inv2) Hpw). lia. }
  set (kz := Z.of_nat (S (2 * S j))) in *.
  destruct (convert_int_rel B HB m P kz Hm HP) as (thk & Ek & Hk). set (kf := convert_int B P m kz) in *.
  assert (Hkz : IZR kz = INR (S (2 * S j))) by (unfold kz; rewrite <- INR_IZR_INZ; reflexivity).
  assert (Hkpos : (0 < INR (S (2 * S j)))%R) by (apply lt_0_INR; lia).
  assert (Htk : (0 < thk)%R) by (apply Rabs_le_inv in Hk; lra).
  assert (Hkf0 : fsig kf <> 0).
  { intros Z0. assert (fbv kf = 0%R) by (unfold ElemSeriesInst.fbv; rewrite Z0; apply fval_0).
    rewrite Ek, Hkz in H. nra. }
  assert (Hfk : fprec kf = P) by (unfold kf, convert_int; destruct (normalize B kz 0); apply fprec_fb_of).
  assert (Hpp' : P <= fprec pow') by (unfold pow', fb_mul; rewrite fprec_fb_of; apply Hge; exact Hpw).
  destruct (fb_div_rel B HB m pow' kf Hm ltac:(specialize (Hge (fprec pow') (fprec kf) Hpp'); lia) Hkf0) as (inc & Ei & th2 & E2 & H2).
  assert (H2' : (Rabs (th2 - 1) <= u)%R).
  { eapply Rle_trans; [exact H2|]. apply (uP_antitone B HB). specialize (Hge (fprec pow') (fprec kf) Hpp'). lia. }
  rewrite Ei in E. cbn [rbind] in E.
  assert (Einc : fbv inc = at_increase (fbv inv2) (fbv pow) j th1 thk th2).
  { unfold at_increase. rewrite E2, E1, Ek, Hkz. reflexivity. }
  assert (Hth1 : (0 < th1)%R) by (apply Rabs_le_inv in H1'; lra).
  assert (Hth2 : (0 < th2)%R) by (apply Rabs_le_inv in H2'; lra).
  assert (Hpow'pos : (0 < fbv pow')%R) by (rewrite E1; apply Rmult_lt_0_compat; [apply Rmult_lt_0_compat|]; assumption).
  assert (Hincpos : (0 < fbv inc)%R).
  { rewrite E2, Ek, Hkz. apply Rmult_lt_0_compat; [|exact Hth2]. apply Rdiv_lt_0_compat; [exact Hpow'pos|].
    apply Rmult_lt_0_compat; assumption. }
  destruct (fval_lt B (fsig inc) (fexp inc) 1 (sub_ulp_exp B O W sum)) eqn:C.
  - injection E as <-. exists j, (fbv pow), th1, thk, th2.
    split; [lia|]. split; [lia|]. split; [exact T|]. split; [exact H1'|]. split; [exact Hk|]. split; [exact H2'|]. split; [|exact Hsp].
    apply (fval_lt_spec B HB) in C. rewrite (fval_1 B) in C. rewrite <- Einc, Rabs_pos_eq by lra.
    unfold ElemSeriesInst.fbv. lra.
  - assert (Hss : 0 < fsig sum) by (apply (fb_sign_pos B HB); exact Hsp).
    assert (His : 0 < fsig inc) by (apply (fb_sign_pos B HB); exact Hincpos).
    set (sum' := fb_add_vv B m sum inc Positive) in *.
    assert (HPs : P <= ctx_max (fprec sum) (fprec inc)) by (apply Hge; exact Hsm).
    destruct (fb_add_vv_rel B HB m sum inc Hm ltac:(lia) ltac:(nia)) as (th3 & E3 & H3). fold sum' in E3.
    assert (H3' : (Rabs (th3 - 1) <= u)%R) by (eapply Rle_trans; [exact H3 | apply (uP_antitone B HB); lia]).
    assert (Hth3 : (0 < th3)%R) by (apply Rabs_le_inv in H3'; lra).
    assert (Hsp' : (0 < fbv sum')%R) by (rewrite E3; apply Rmult_lt_0_compat; lra).
    assert (HsP : P <= fprec sum') by (unfold sum', fb_add_vv; rewrite fprec_fb_of; exact HPs).
    assert (T' : AtTrace u zc (fbv inv2) (S j) (fbv pow') (fbv sum')).
    { rewrite E3, Einc, E1. unfold at_increase. apply AT_step; assumption. }
    replace (kz + 2) with (Z.of_nat (S (2 * S (S j)))) in E by (unfold kz; lia).
    destruct (IH sum' pow' (S j) res Hpp' HsP Hpow'pos Hsp' T' E) as (K & pw & t1 & tk & t2 & HK1 & HK2 & G).
    exists K, pw, t1, tk, t2. split; [lia|]. split; [lia | exact G].
Qed.

End Loop.

Lemma ctx_max_id a : ctx_max a a = a.
Proof. unfold ctx_max. destruct (a >? a); reflexivity. Qed.

Lemma fb_div_prec x y z : fb_div B m x y = Ok z -> fprec z = ctx_max (fprec x) (fprec y).
Proof.
  unfold fb_div. destruct (fbig_div B (fprec x) (fprec y) m (fsig x) (fexp x) (fsig y) (fexp y)); try discriminate.
  cbn [rbind]. intros E. injection E as <-. apply fprec_fb_of.
Qed.

Lemma convert_int_prec p k : fprec (convert_int B p m k) = p.
Proof. unfold convert_int. destruct (normalize B k 0). apply fprec_fb_of. Qed.

(** every value of the loop keeps the working precision *)
Lemma iacoth_loop_prec : forall fuel wp inv2 sum pow k res, fprec inv2 = wp -> fprec sum = wp -> fprec pow = wp ->
  iacoth_loop B O W fuel wp m inv2 sum pow k = Ok res -> fprec res = wp.
Proof.
  induction fuel as [|f IH]; intros wp inv2 sum pow k res H2 Hs Hp E; [discriminate|].
  cbn [iacoth_loop] in E.
  assert (Hpw : fprec (fb_mul B m pow inv2) = wp) by (unfold fb_mul; rewrite fprec_fb_of, Hp, H2; apply ctx_max_id).
  destruct (fb_div B m (fb_mul B m pow inv2) (convert_int B wp m k)) as [inc| | |] eqn:Ed; try discriminate.
  apply fb_div_prec in Ed. rewrite Hpw, convert_int_prec, ctx_max_id in Ed.
  cbn [rbind] in E. destruct (fval_lt B (fsig inc) (fexp inc) 1 (sub_ulp_exp B O W sum)).
  - injection E as <-. exact Hs.
  - apply (IH wp inv2 _ _ _ res H2) in E; [exact E | | exact Hpw].
    unfold fb_add_vv. rewrite fprec_fb_of, Hs, Ed. apply ctx_max_id.
Qed.

(* ------------------------------------------------------------------ iacoth *)
Definition iacoth_wp (p : Z) : Z := iacoth_work_precision_gen O p (iacoth_guard_digits_gen O p B).

Lemma iacoth_wp_ge p : 1 <= p -> p + 2 <= iacoth_wp p.
Proof.
  intros Hp. unfold iacoth_wp, iacoth_work_precision_gen, iacoth_guard_digits_gen.
  pose proof (usize_nonneg (f_div O (uint_log2_est O p) (uint_log2_est O B))). lia.
Qed.

Theorem iacoth_asis_error fuel p n res : 1 <= p -> 3 <= n ->
  iacoth B O W fuel p m n = Ok res ->
  fprec res = iacoth_wp p /\ (0 < fbv res)%R /\
  exists K : nat, (K < fuel)%nat /\
    let u := uP (iacoth_wp p) in let c := (10 * K + 16)%nat in
    ((INR c * u < 1)%R ->
     (Rabs (fbv res - atanhR (/ IZR n)) * (1 - INR c * u) <= atanhR (/ IZR n) * (INR c * u) + 2 * bp (sub_ulp_exp B O W res))%R).
Proof.
  intros Hp Hn E. unfold iacoth in E. fold (iacoth_wp p) in E.
  pose proof (iacoth_wp_ge p Hp) as Hwp. set (wp := iacoth_wp p) in *. assert (HP : 1 <= wp) by lia.
  pose proof (uP_half wp HP) as [u0 uh]. assert (u1 : (uP wp <= 1)%R) by lra.
  destruct (convert_int_rel B HB m wp n Hm HP) as (thn & En & Hthn). set (nf := convert_int B wp m n) in *.
  assert (Hnpos : (3 <= IZR n)%R) by (apply IZR_le; exact Hn).
  assert (Htn : (0 < thn)%R) by (apply Rabs_le_inv in Hthn; lra).
  assert (Hnf0 : fsig nf <> 0).
  { intros Z0. assert (fbv nf = 0%R) by (unfold ElemSeriesInst.fbv; rewrite Z0; apply fval_0). rewrite En in H. nra. }
  assert (Hfn : fprec nf = wp) by (unfold nf, convert_int; destruct (normalize B n 0); apply fprec_fb_of).
  assert (Hcm : ctx_max (fprec ONE) (fprec nf) = wp) by (rewrite Hfn; unfold ctx_max; cbn [ONE fprec]; destruct (Z.gtb_spec 0 wp); lia).
  destruct (fb_div_rel B HB m ONE nf Hm ltac:(lia) Hnf0) as (inv & Ei & thd & Ed & Hthd). rewrite Hcm in Hthd.
  rewrite Ei in E. cbn [rbind] in E.
  assert (Hfi : fprec inv = wp).
  { unfold fb_div in Ei. destruct (fbig_div B (fprec ONE) (fprec nf) m (fsig ONE) (fexp ONE) (fsig nf) (fexp nf)); try discriminate.
    cbn [rbind] in Ei. injection Ei as <-. rewrite fprec_fb_of. exact Hcm. }
  assert (H1 : fbv ONE = 1%R) by (unfold ElemSeriesInst.fbv, ONE; cbn [fsig fexp]; apply fval_1_0).
  set (z := (/ IZR n)%R).
  assert (Hz : (0 < z)%R) by (apply Rinv_0_lt_compat; lra).
  assert (Hz3 : (z <= / 3)%R) by (apply Rinv_le_contravar; lra).
  (* inv = z * (1/thn) * thd: three factors *)
  assert (Hzc : RA (uP wp) 3 z (fbv inv)).
  { rewrite Ed, H1, En. replace (1 / (IZR n * thn) * thd)%R with (z * (1 * / thn) * thd)%R by (unfold z; field; lra).
    apply (RA_step (uP wp) u0 u1 2); [|exact Hthd].
    destruct (RA_inv_factor (uP wp) u0 uh thn Hthn) as (t & Et & Bt).
    exists t. split; [rewrite Et; ring | exact Bt]. }
  assert (Hipos : (0 < fbv inv)%R).
  { destruct Hzc as (t & Et & Lt & _). rewrite Et.
    assert (0 < (1 - uP wp) ^ 3)%R by (apply pow_lt; lra). apply Rmult_lt_0_compat; lra. }
  set (inv2 := fb_sqr B m inv) in *.
  pose proof (fb_sqr_rel m inv Hm ltac:(lia)) as Hsq. rewrite Hfi in Hsq. fold inv2 in Hsq.
  assert (Hz2 : RA (uP wp) 9 (z * z) (fbv inv2)).
  { destruct Hsq as (t & Et & Bt). rewrite Et.
    replace 9%nat with ((3 + 3) + 3)%nat by reflexivity. rewrite <- (Rmult_1_r (z * z)).
    apply (RA_mul (uP wp) u0 u1 (3 + 3) 3 (z * z) 1 (fbv inv * fbv inv) t).
    - apply (RA_mul (uP wp) u0 u1); exact Hzc.
    - exists t. split; [ring | exact Bt]. }
  assert (Hz2' : RA (uP wp) 9 (z * z) (fbv inv2)) by exact Hz2.
  assert (Hi2pos : (0 < fbv inv2)%R).
  { destruct Hz2' as (t & Et & Lt & _). rewrite Et.
    assert (0 < (1 - uP wp) ^ 9)%R by (apply pow_lt; lra). apply Rmult_lt_0_compat; [nra | lra]. }
  assert (Hfi2 : fprec inv2 = wp) by (unfold inv2, fb_sqr; rewrite fprec_fb_of; exact Hfi).
  change 3 with (Z.of_nat (S (2 * S 0))) in E.
  assert (A1 : wp <= fprec inv2) by (rewrite Hfi2; lia). assert (A2 : wp <= fprec inv) by (rewrite Hfi; lia).
  destruct (iacoth_loop_trace wp HP inv2 Hi2pos (fbv inv) fuel inv inv 0%nat res A2 A2 Hipos Hipos
              (AT_init (uP wp) (fbv inv) (fbv inv2)) E)
    as (K & pw & th1 & thk & th2 & HK1 & HK2 & TK & G1 & Gk & G2 & G3 & Gpos).
  split.
  - apply (iacoth_loop_prec fuel wp inv2 inv inv _ res Hfi2 Hfi Hfi E).
  - split; [exact Gpos|]. exists K. split; [lia|]. intros u c Hcu.
    pose proof (at_series_error (uP wp) u0 uh (fbv inv) (fbv inv2) z (Rlt_le _ _ Hz) 3 9 Hzc Hz2' K pw (fbv res) th1 thk th2
                  (bp (sub_ulp_exp B O W res)) Hz3 TK G1 Gk G2 G3) as Herr.
    cbv zeta in Herr. replace (3 + S K * 10 + 3)%nat with c in Herr by (unfold c; lia).
    apply Herr. exact Hcu.
Qed.

(* ------------------------------------------------------------------ relative form *)
(** the contract of Repr::digits_lb: a lower bound of the number of digits (a property of the f32 layer:
    log2 bounds rounded downwards) *)
Hypothesis digits_lb_ok : forall s, digits_lb O W B s <= dlen B s.

Lemma sub_ulp_le_rel x : 1 <= fprec x -> fsig x <> 0 ->
  (bp (sub_ulp_exp B O W x) <= uP (fprec x) * Rabs (fbv x))%R.
Proof.
  intros HP Hs. unfold sub_ulp_exp. pose proof (digits_lb_ok (fsig x)) as Hd.
  destruct (dlen_spec B HB (fsig x) Hs) as [[L _] G1].
  eapply Rle_trans; [apply (bpw_le B HB (_) (fexp x + (dlen B (fsig x) - 1) + - fprec x)); lia|].
  rewrite !(bpw_add B HB). unfold ElemSeriesInst.fbv. rewrite (fval_bpw B), Rabs_mult, <- abs_IZR.
  rewrite (Rabs_pos_eq (bp (fexp x))) by (left; apply (bpw_pos B HB)).
  apply IZR_le in L. rewrite (IZR_Bpow B (dlen B (fsig x) - 1)) in L by lia.
  assert (Hu : (bp (- fprec x) <= uP (fprec x))%R).
  { rewrite (bpw_neg B HB). unfold ElemSeriesInst.uP. apply Rinv_le_contravar.
    - apply IZR_lt. pose proof (Z.pow_pos_nonneg B (fprec x - 1)). lia.
    - rewrite <- (IZR_Bpow B (fprec x)) by lia. apply IZR_le.
      replace (fprec x) with (1 + (fprec x - 1)) at 2 by lia. rewrite Z.pow_add_r, Z.pow_1_r by lia.
      pose proof (Z.pow_pos_nonneg B (fprec x - 1)). nia. }
  pose proof (bpw_pos B HB (fexp x)). pose proof (bpw_pos B HB (dlen B (fsig x) - 1)). pose proof (bpw_pos B HB (- fprec x)).
  pose proof (uP_pos B HB (fprec x) HP).
  assert (bp (fexp x) * bp (dlen B (fsig x) - 1) <= IZR (Z.abs (fsig x)) * bp (fexp x))%R by nra.
  rewrite (Rmult_comm (uP (fprec x))). apply Rmult_le_compat; try lra. apply Rmult_le_pos; lra.
Qed.

Lemma abs_err_to_RD a v y w : (0 < a)%R -> (0 <= y)%R -> (0 <= w)%R -> (y + w < 1)%R ->
  (Rabs (v - a) * (1 - y) <= a * y + w * Rabs v)%R -> RD ((y + w) / (1 - y - w)) a v.
Proof.
  intros Ha Hy Hw Hyw H. exists (v / a)%R. split; [field; lra|].
  replace (v / a - 1)%R with ((v - a) / a)%R by (field; lra).
  unfold Rdiv at 1. rewrite Rabs_mult, Rabs_inv, (Rabs_pos_eq a) by lra.
  assert (Hv : (Rabs v <= a + Rabs (v - a))%R).
  { replace v with (a + (v - a))%R at 1 by ring. eapply Rle_trans; [apply Rabs_triang|]. rewrite (Rabs_pos_eq a) by lra. lra. }
  pose proof (Rabs_pos (v - a)).
  apply (Rmult_le_reg_r a); [exact Ha|]. rewrite Rmult_assoc, Rinv_l by lra.
  apply (Rmult_le_reg_r (1 - y - w)); [lra|].
  replace ((y + w) / (1 - y - w) * a * (1 - y - w))%R with ((y + w) * a)%R by (field; lra). nra.
Qed.

(** the error of iacoth as a relative error *)
Definition iacoth_rel (u : R) (K : nat) : R := ((INR (10 * K + 16) * u + 2 * u) / (1 - INR (10 * K + 16) * u - 2 * u))%R.

Theorem iacoth_asis_rel fuel p n res : 1 <= p -> 3 <= n ->
  iacoth B O W fuel p m n = Ok res ->
  fprec res = iacoth_wp p /\ (0 < fbv res)%R /\
  exists K : nat, (K < fuel)%nat /\
    let u := uP (iacoth_wp p) in
    ((INR (10 * K + 16) * u + 2 * u < 1)%R -> RD (iacoth_rel u K) (atanhR (/ IZR n)) (fbv res)).
Proof.
  intros Hp Hn E. destruct (iacoth_asis_error fuel p n res Hp Hn E) as (Hprec & Hpos & K & HK & Herr).
  split; [exact Hprec|]. split; [exact Hpos|]. exists K. split; [exact HK|]. intros u Hc. cbv zeta in Herr. fold u in Herr.
  pose proof (iacoth_wp_ge p Hp) as Hwp.
  pose proof (uP_pos B HB (iacoth_wp p) ltac:(lia)) as Hu. fold u in Hu.
  set (y := (INR (10 * K + 16) * u)%R) in *.
  assert (Hy0 : (0 <= y)%R) by (unfold y; pose proof (pos_INR (10 * K + 16)); nra).
  specialize (Herr ltac:(lra)).
  assert (Ha : (0 < atanhR (/ IZR n))%R).
  { assert (3 <= IZR n)%R by (apply IZR_le; exact Hn).
    assert (Hz : (0 < / IZR n)%R) by (apply Rinv_0_lt_compat; lra).
    assert (Hz3 : (/ IZR n <= / 3)%R) by (apply Rinv_le_contravar; lra).
    pose proof (atanh_tail (/ IZR n) 0 ltac:(lra)) as [L _]. unfold An in L. cbn [sum_f_R0] in L. rewrite aterm_z0 in L. lra. }
  unfold iacoth_rel. fold u y. apply abs_err_to_RD; try lra.
  assert (NZ : fsig res <> 0).
  { intros Z0. assert (E0 : fbv res = 0%R) by (unfold ElemSeriesInst.fbv; rewrite Z0; apply fval_0). lra. }
  pose proof (sub_ulp_le_rel res ltac:(rewrite Hprec; lia) NZ) as Hs. rewrite Hprec in Hs. fold u in Hs.
  pose proof (Rabs_pos (fbv res)). nra.
Qed.

(* ------------------------------------------------------------------ ln2, ln10, ln_base *)
Definition rstep (u d : R) : R := (d + u + d * u)%R.

Lemma rstep_mono u d d' : (0 <= u)%R -> (d <= d')%R -> (rstep u d <= rstep u d')%R.
Proof. intros. unfold rstep. nra. Qed.

Lemma RD_add d t1 t2 v1 v2 : (0 <= t1)%R -> (0 <= t2)%R -> RD d t1 v1 -> RD d t2 v2 -> RD d (t1 + t2) (v1 + v2).
Proof.
  intros H1 H2 (a & -> & Ha) (b & -> & Hb). apply Rabs_le_inv in Ha. apply Rabs_le_inv in Hb.
  destruct (Req_dec (t1 + t2) 0) as [Z0|NZ].
  - assert (t1 = 0)%R by lra. assert (t2 = 0)%R by lra. subst. exists 1%R. split; [ring|].
    replace (1 - 1)%R with 0%R by ring. rewrite Rabs_R0. lra.
  - assert (Hp : (0 < t1 + t2)%R) by lra.
    exists ((t1 * a + t2 * b) / (t1 + t2))%R. split; [field; exact NZ|].
    replace ((t1 * a + t2 * b) / (t1 + t2) - 1)%R with ((t1 * (a - 1) + t2 * (b - 1)) / (t1 + t2))%R by (field; exact NZ).
    apply Rabs_le. split.
    + apply (Rmult_le_reg_r (t1 + t2)); [exact Hp|]. unfold Rdiv. rewrite Rmult_assoc, Rinv_l by exact NZ. nra.
    + apply (Rmult_le_reg_r (t1 + t2)); [exact Hp|]. unfold Rdiv. rewrite Rmult_assoc, Rinv_l by exact NZ. nra.
Qed.

Lemma RD_pos d t v : (0 < t)%R -> (d < 1)%R -> RD d t v -> (0 < v)%R.
Proof. intros Ht Hd (a & -> & Ha). apply Rabs_le_inv in Ha. apply Rmult_lt_0_compat; lra. Qed.

(** n * f for a primitive n >= 1: one rounding at (at least) the precision of f *)
Lemma prim_mul_rel n x w d t : 1 <= w -> w <= fprec x -> 1 <= n -> (0 <= d)%R -> RD d t (fbv x) ->
  RD (rstep (uP w) d) (IZR n * t) (fbv (prim_mul B m n x)) /\ w <= fprec (prim_mul B m n x).
Proof.
  intros Hw Hx Hn Hd H. unfold prim_mul.
  assert (Hc : w <= ctx_max (fprec (fb_from_int B n)) (fprec x)) by (unfold ctx_max; destruct (Z.gtb_spec (fprec (fb_from_int B n)) (fprec x)); lia).
  destruct (fb_mul_rel B HB m (fb_from_int B n) x Hm ltac:(lia)) as (th & E & Hth).
  split; [|unfold fb_mul; rewrite fprec_fb_of; exact Hc].
  rewrite E, (fb_from_int_val B HB).
  assert (Hth' : (Rabs (th - 1) <= uP w)%R) by (eapply Rle_trans; [exact Hth | apply (uP_antitone B HB); lia]).
  destruct H as (a & Ea & Ha). rewrite Ea.
  replace (IZR n * (t * a) * th)%R with (IZR n * t * a * th)%R by ring.
  apply (RD_step d (IZR n * t) (IZR n * t * a) th (uP w) Hd); [|exact Hth'].
  exists a. split; [ring | exact Ha].
Qed.

(** n1 * x1 + n2 * x2 as log.rs forms it (ln2: 4a + 2b, ln10: 3 ln2 + 2c) *)
Lemma comb2_rel n1 x1 n2 x2 w d t1 t2 : 1 <= w -> w <= fprec x1 -> w <= fprec x2 -> 1 <= n1 -> 1 <= n2 ->
  (0 < t1)%R -> (0 < t2)%R -> (0 <= d)%R -> (rstep (uP w) d < 1)%R ->
  RD d t1 (fbv x1) -> RD d t2 (fbv x2) ->
  let r := fb_add_vv B m (prim_mul B m n1 x1) (prim_mul B m n2 x2) Positive in
  RD (rstep (uP w) (rstep (uP w) d)) (IZR n1 * t1 + IZR n2 * t2) (fbv r) /\ w <= fprec r.
Proof.
  intros Hw H1 H2 Hn1 Hn2 Ht1 Ht2 Hd Hd1 R1 R2 r.
  destruct (prim_mul_rel n1 x1 w d t1 Hw H1 Hn1 Hd R1) as (Q1 & P1).
  destruct (prim_mul_rel n2 x2 w d t2 Hw H2 Hn2 Hd R2) as (Q2 & P2).
  set (y1 := prim_mul B m n1 x1) in *. set (y2 := prim_mul B m n2 x2) in *.
  assert (Hn1r : (1 <= IZR n1)%R) by (apply IZR_le; exact Hn1). assert (Hn2r : (1 <= IZR n2)%R) by (apply IZR_le; exact Hn2).
  assert (T1 : (0 < IZR n1 * t1)%R) by nra. assert (T2 : (0 < IZR n2 * t2)%R) by nra.
  pose proof (RD_pos _ _ _ T1 Hd1 Q1) as V1. pose proof (RD_pos _ _ _ T2 Hd1 Q2) as V2.
  pose proof (fb_sign_pos B HB _ V1) as S1. pose proof (fb_sign_pos B HB _ V2) as S2.
  assert (Hc : w <= ctx_max (fprec y1) (fprec y2)) by (unfold ctx_max; destruct (Z.gtb_spec (fprec y1) (fprec y2)); lia).
  destruct (fb_add_vv_rel B HB m y1 y2 Hm ltac:(lia) ltac:(nia)) as (th & E & Hth). fold r in E.
  assert (Hth' : (Rabs (th - 1) <= uP w)%R) by (eapply Rle_trans; [exact Hth | apply (uP_antitone B HB); lia]).
  split; [|unfold r, fb_add_vv; rewrite fprec_fb_of; exact Hc].
  rewrite E. pose proof (uP_pos B HB w Hw) as Hu.
  apply (RD_step (rstep (uP w) d) _ _ th (uP w)); [unfold rstep; nra | | exact Hth'].
  apply RD_add; try lra; assumption.
Qed.

Definition ln2_rel (u : R) (Ka Kb : nat) : R := rstep u (rstep u (Rmax (iacoth_rel u Ka) (iacoth_rel u Kb))).

Lemma iacoth_rel_nonneg u K : (0 <= u)%R -> (INR (10 * K + 16) * u + 2 * u < 1)%R -> (0 <= iacoth_rel u K)%R.
Proof.
  intros Hu H. unfold iacoth_rel. pose proof (pos_INR (10 * K + 16)).
  apply Rmult_le_pos; [nra|]. left. apply Rinv_0_lt_compat. lra.
Qed.

(** log.rs Context::ln2 *)
Theorem ln2_asis_rel fuel p res : 1 <= p -> ln2 B O W fuel p m = Ok res ->
  iacoth_wp p <= fprec res /\
  exists Ka Kb : nat, (Ka < fuel)%nat /\ (Kb < fuel)%nat /\
    let u := uP (iacoth_wp p) in
    ((INR (10 * Ka + 16) * u + 2 * u < 1)%R -> (INR (10 * Kb + 16) * u + 2 * u < 1)%R ->
     (rstep u (Rmax (iacoth_rel u Ka) (iacoth_rel u Kb)) < 1)%R ->
     RD (ln2_rel u Ka Kb) (ln 2) (fbv res)).
Proof.
  intros Hp E. unfold ln2 in E.
  destruct (iacoth B O W fuel p m 6) as [a| | |] eqn:Ea; try discriminate. cbn [rbind] in E.
  destruct (iacoth B O W fuel p m 99) as [b| | |] eqn:Eb; try discriminate. cbn [rbind] in E. injection E as <-.
  destruct (iacoth_asis_rel fuel p 6 a Hp ltac:(lia) Ea) as (Pa & _ & Ka & HKa & Ra).
  destruct (iacoth_asis_rel fuel p 99 b Hp ltac:(lia) Eb) as (Pb & _ & Kb & HKb & Rb).
  pose proof (iacoth_wp_ge p Hp) as Hwp. set (w := iacoth_wp p) in *.
  assert (A6 : (0 < atanhR (/ 6))%R).
  { pose proof (atanh_tail (/ 6) 0 ltac:(lra)) as [L _]. unfold An in L. cbn [sum_f_R0] in L. rewrite aterm_z0 in L. lra. }
  assert (A99 : (0 < atanhR (/ 99))%R).
  { pose proof (atanh_tail (/ 99) 0 ltac:(lra)) as [L _]. unfold An in L. cbn [sum_f_R0] in L. rewrite aterm_z0 in L. lra. }
  assert (G : forall Ka Kb, let u := uP w in
     (INR (10 * Ka + 16) * u + 2 * u < 1)%R -> (INR (10 * Kb + 16) * u + 2 * u < 1)%R ->
     (rstep u (Rmax (iacoth_rel u Ka) (iacoth_rel u Kb)) < 1)%R ->
     RD (iacoth_rel u Ka) (atanhR (/ 6)) (fbv a) -> RD (iacoth_rel u Kb) (atanhR (/ 99)) (fbv b) ->
     RD (ln2_rel u Ka Kb) (ln 2) (fbv (fb_add_vv B m (prim_mul B m 4 a) (prim_mul B m 2 b) Positive)) /\
     w <= fprec (fb_add_vv B m (prim_mul B m 4 a) (prim_mul B m 2 b) Positive)).
  { intros Ka' Kb' u H1 H2 H3 R1 R2. pose proof (uP_pos B HB w ltac:(lia)) as Hu. fold u in Hu.
    rewrite ln2_atanh. unfold ln2_rel. set (d := Rmax (iacoth_rel u Ka') (iacoth_rel u Kb')) in *.
    apply (comb2_rel 4 a 2 b w d (atanhR (/ 6)) (atanhR (/ 99))); try lia; try assumption.
    - unfold d. eapply Rle_trans; [apply (iacoth_rel_nonneg u Ka'); lra | apply Rmax_l].
    - apply (RD_weaken (iacoth_rel u Ka')); [apply Rmax_l | exact R1].
    - apply (RD_weaken (iacoth_rel u Kb')); [apply Rmax_r | exact R2]. }
  split.
  - (* the precision does not need the error bounds *)
    assert (Hc : forall x y, w <= fprec x -> w <= ctx_max (fprec x) (fprec y)) by (intros x y H; unfold ctx_max; destruct (Z.gtb_spec (fprec x) (fprec y)); lia).
    assert (Hc' : forall x y, w <= fprec y -> w <= ctx_max (fprec x) (fprec y)) by (intros x y H; unfold ctx_max; destruct (Z.gtb_spec (fprec x) (fprec y)); lia).
    unfold fb_add_vv. rewrite fprec_fb_of. apply Hc. unfold prim_mul, fb_mul. rewrite fprec_fb_of. apply Hc'. lia.
  - exists Ka, Kb. split; [exact HKa|]. split; [exact HKb|]. intros u H1 H2 H3.
    apply (G Ka Kb H1 H2 H3 (Ra H1) (Rb H2)).
Qed.

(** log.rs Context::ln_base for B = 2 (the constant of the argument reduction of exp in base 2) *)
Theorem ln_base2_asis_rel fuel p res : B = 2 -> 1 <= p -> ln_base B O W fuel p m = Ok res ->
  iacoth_wp p <= fprec res /\
  exists Ka Kb : nat, (Ka < fuel)%nat /\ (Kb < fuel)%nat /\
    let u := uP (iacoth_wp p) in
    ((INR (10 * Ka + 16) * u + 2 * u < 1)%R -> (INR (10 * Kb + 16) * u + 2 * u < 1)%R ->
     (rstep u (Rmax (iacoth_rel u Ka) (iacoth_rel u Kb)) < 1)%R ->
     RD (ln2_rel u Ka Kb) (ln (IZR B)) (fbv res)).
Proof.
  intros E2 Hp E. unfold ln_base in E. destruct (Z.eqb_spec B 2) as [_|N]; [|contradiction].
  assert (EB : IZR B = 2%R) by (rewrite E2; reflexivity). rewrite EB. apply (ln2_asis_rel fuel p res Hp E).
Qed.

(** the bounds grow with the number of terms: one number for every run within the fuel *)
Lemma iacoth_rel_mono u K K' : (0 <= u)%R -> (K <= K')%nat -> (INR (10 * K' + 16) * u + 2 * u < 1)%R ->
  (iacoth_rel u K <= iacoth_rel u K')%R /\ (INR (10 * K + 16) * u + 2 * u < 1)%R.
Proof.
  intros Hu HK H. assert (Hi : (INR (10 * K + 16) <= INR (10 * K' + 16))%R) by (apply le_INR; lia).
  pose proof (pos_INR (10 * K + 16)) as H0.
  assert (Hy : (INR (10 * K + 16) * u + 2 * u <= INR (10 * K' + 16) * u + 2 * u)%R) by nra.
  split; [|lra]. unfold iacoth_rel.
  replace (1 - INR (10 * K + 16) * u - 2 * u)%R with (1 - (INR (10 * K + 16) * u + 2 * u))%R by ring.
  replace (1 - INR (10 * K' + 16) * u - 2 * u)%R with (1 - (INR (10 * K' + 16) * u + 2 * u))%R by ring.
  set (t := (INR (10 * K + 16) * u + 2 * u)%R) in *. set (t' := (INR (10 * K' + 16) * u + 2 * u)%R) in *.
  assert (0 <= t)%R by (unfold t; nra).
  apply (Rmult_le_reg_r (1 - t)); [lra|]. unfold Rdiv at 1. rewrite Rmult_assoc, Rinv_l by lra.
  apply (Rmult_le_reg_r (1 - t')); [lra|].
  replace (t' / (1 - t') * (1 - t) * (1 - t'))%R with (t' * (1 - t))%R by (field; lra). nra.
Qed.

Theorem ln_base2_asis_rel_fuel fuel p res : B = 2 -> 1 <= p -> ln_base B O W fuel p m = Ok res ->
  let u := uP (iacoth_wp p) in
  (INR (10 * fuel + 16) * u + 2 * u < 1)%R -> (rstep u (iacoth_rel u fuel) < 1)%R ->
  RD (rstep u (rstep u (iacoth_rel u fuel))) (ln (IZR B)) (fbv res) /\ iacoth_wp p <= fprec res.
Proof.
  intros E2 Hp E u C1 C2. destruct (ln_base2_asis_rel fuel p res E2 Hp E) as (Hprec & Ka & Kb & HKa & HKb & R).
  split; [|exact Hprec]. cbv zeta in R. fold u in R.
  pose proof (iacoth_wp_ge p Hp) as Hwp. pose proof (uP_pos B HB (iacoth_wp p) ltac:(lia)) as Hu. fold u in Hu.
  destruct (iacoth_rel_mono u Ka fuel ltac:(lra) ltac:(lia) C1) as (Ma & Ca).
  destruct (iacoth_rel_mono u Kb fuel ltac:(lra) ltac:(lia) C1) as (Mb & Cb).
  assert (Hmax : (Rmax (iacoth_rel u Ka) (iacoth_rel u Kb) <= iacoth_rel u fuel)%R) by (apply Rmax_lub; assumption).
  assert (H3 : (rstep u (Rmax (iacoth_rel u Ka) (iacoth_rel u Kb)) < 1)%R).
  { eapply Rle_lt_trans; [apply rstep_mono; [lra | exact Hmax] | exact C2]. }
  apply (RD_weaken (ln2_rel u Ka Kb)); [|exact (R Ca Cb H3)].
  unfold ln2_rel. apply rstep_mono; [lra|]. apply rstep_mono; [lra | exact Hmax].
Qed.

Definition ln10_rel (u : R) (Ka Kb Kc : nat) : R := rstep u (rstep u (Rmax (ln2_rel u Ka Kb) (iacoth_rel u Kc))).

(** log.rs Context::ln10 *)
Theorem ln10_asis_rel fuel p res : 1 <= p -> ln10 B O W fuel p m = Ok res ->
  iacoth_wp p <= fprec res /\
  exists Ka Kb Kc : nat, (Ka < fuel)%nat /\ (Kb < fuel)%nat /\ (Kc < fuel)%nat /\
    let u := uP (iacoth_wp p) in
    ((INR (10 * Ka + 16) * u + 2 * u < 1)%R -> (INR (10 * Kb + 16) * u + 2 * u < 1)%R ->
     (INR (10 * Kc + 16) * u + 2 * u < 1)%R ->
     (rstep u (Rmax (iacoth_rel u Ka) (iacoth_rel u Kb)) < 1)%R ->
     (rstep u (Rmax (ln2_rel u Ka Kb) (iacoth_rel u Kc)) < 1)%R ->
     RD (ln10_rel u Ka Kb Kc) (ln 10) (fbv res)).
Proof.
  intros Hp E. unfold ln10 in E.
  destruct (ln2 B O W fuel p m) as [a| | |] eqn:Ea; try discriminate. cbn [rbind] in E.
  destruct (iacoth B O W fuel p m 9) as [b| | |] eqn:Eb; try discriminate. cbn [rbind] in E. injection E as <-.
  destruct (ln2_asis_rel fuel p a Hp Ea) as (Pa & Ka & Kb & HKa & HKb & Ra).
  destruct (iacoth_asis_rel fuel p 9 b Hp ltac:(lia) Eb) as (Pb & _ & Kc & HKc & Rb).
  pose proof (iacoth_wp_ge p Hp) as Hwp. set (w := iacoth_wp p) in *.
  assert (A9 : (0 < atanhR (/ 9))%R).
  { pose proof (atanh_tail (/ 9) 0 ltac:(lra)) as [L _]. unfold An in L. cbn [sum_f_R0] in L. rewrite aterm_z0 in L. lra. }
  assert (L2 : (0 < ln 2)%R) by (rewrite <- ln_1; apply ln_increasing; lra).
  split.
  - assert (Hc : forall x y, w <= fprec x -> w <= ctx_max (fprec x) (fprec y)) by (intros x y H; unfold ctx_max; destruct (Z.gtb_spec (fprec x) (fprec y)); lia).
    assert (Hc' : forall x y, w <= fprec y -> w <= ctx_max (fprec x) (fprec y)) by (intros x y H; unfold ctx_max; destruct (Z.gtb_spec (fprec x) (fprec y)); lia).
    unfold fb_add_vv. rewrite fprec_fb_of. apply Hc. unfold prim_mul, fb_mul. rewrite fprec_fb_of. apply Hc'. lia.
  - exists Ka, Kb, Kc. split; [exact HKa|]. split; [exact HKb|]. split; [exact HKc|]. intros u H1 H2 H3 H4 H5.
    pose proof (uP_pos B HB w ltac:(lia)) as Hu. fold u in Hu.
    specialize (Ra H1 H2 H4). specialize (Rb H3).
    rewrite ln10_atanh. unfold ln10_rel. set (d := Rmax (ln2_rel u Ka Kb) (iacoth_rel u Kc)) in *.
    apply (comb2_rel 3 a 2 b w d (ln 2) (atanhR (/ 9))); try lia; try assumption.
    + unfold d. eapply Rle_trans; [apply (iacoth_rel_nonneg u Kc); lra | apply Rmax_r].
    + apply (RD_weaken (ln2_rel u Ka Kb)); [apply Rmax_l | exact Ra].
    + apply (RD_weaken (iacoth_rel u Kc)); [apply Rmax_r | exact Rb].
Qed.

Theorem ln_base10_asis_rel fuel p res : B = 10 -> 1 <= p -> ln_base B O W fuel p m = Ok res ->
  iacoth_wp p <= fprec res /\
  exists Ka Kb Kc : nat, (Ka < fuel)%nat /\ (Kb < fuel)%nat /\ (Kc < fuel)%nat /\
    let u := uP (iacoth_wp p) in
    ((INR (10 * Ka + 16) * u + 2 * u < 1)%R -> (INR (10 * Kb + 16) * u + 2 * u < 1)%R ->
     (INR (10 * Kc + 16) * u + 2 * u < 1)%R ->
     (rstep u (Rmax (iacoth_rel u Ka) (iacoth_rel u Kb)) < 1)%R ->
     (rstep u (Rmax (ln2_rel u Ka Kb) (iacoth_rel u Kc)) < 1)%R ->
     RD (ln10_rel u Ka Kb Kc) (ln (IZR B)) (fbv res)).
Proof.
  intros E10 Hp E. unfold ln_base in E. destruct (Z.eqb_spec B 2) as [E2|_]; [lia|].
  destruct (Z.eqb_spec B 10) as [_|N]; [|contradiction].
  assert (EB : IZR B = 10%R) by (rewrite E10; reflexivity). rewrite EB. apply (ln10_asis_rel fuel p res Hp E).
Qed.

(** the other powers of two: ln2 * log2(B), one more rounding *)
Theorem ln_base_pow2_asis_rel fuel p res : B <> 2 -> is_pow2 B = true -> 1 <= p -> ln_base B O W fuel p m = Ok res ->
  iacoth_wp p <= fprec res /\
  exists Ka Kb : nat, (Ka < fuel)%nat /\ (Kb < fuel)%nat /\
    let u := uP (iacoth_wp p) in
    ((INR (10 * Ka + 16) * u + 2 * u < 1)%R -> (INR (10 * Kb + 16) * u + 2 * u < 1)%R ->
     (rstep u (Rmax (iacoth_rel u Ka) (iacoth_rel u Kb)) < 1)%R ->
     RD (rstep u (ln2_rel u Ka Kb)) (ln (IZR B)) (fbv res)).
Proof.
  intros N2 Hpow Hp E. unfold ln_base in E. destruct (Z.eqb_spec B 2) as [E2|_]; [contradiction|].
  destruct (Z.eqb_spec B 10) as [E10|_]; [rewrite E10 in Hpow; vm_compute in Hpow; discriminate|].
  rewrite Hpow in E.
  destruct (ln2 B O W fuel p m) as [l| | |] eqn:El; try discriminate. cbn [rbind] in E. injection E as <-.
  destruct (ln2_asis_rel fuel p l Hp El) as (Pl & Ka & Kb & HKa & HKb & Rl).
  pose proof (iacoth_wp_ge p Hp) as Hwp. set (w := iacoth_wp p) in *.
  unfold mul_prim.
  assert (Hc : w <= ctx_max (fprec l) (fprec (fb_from_int B (Z.log2 B)))) by (unfold ctx_max; destruct (Z.gtb_spec (fprec l) (fprec (fb_from_int B (Z.log2 B)))); lia).
  split; [unfold fb_mul; rewrite fprec_fb_of; exact Hc|].
  exists Ka, Kb. split; [exact HKa|]. split; [exact HKb|]. intros H1 H2 H3. set (u := uP w) in *. specialize (Rl H1 H2 H3).
  destruct (fb_mul_rel B HB m l (fb_from_int B (Z.log2 B)) Hm ltac:(lia)) as (th & E & Hth).
  assert (Hth' : (Rabs (th - 1) <= u)%R) by (eapply Rle_trans; [exact Hth | apply (uP_antitone B HB); lia]).
  rewrite E, (fb_from_int_val B HB).
  assert (HlnB : ln (IZR B) = (ln 2 * IZR (Z.log2 B))%R).
  { unfold is_pow2 in Hpow. apply andb_prop in Hpow. destruct Hpow as [_ Hq]. apply Z.eqb_eq in Hq.
    rewrite Hq at 1. pose proof (Z.log2_nonneg B) as Hl.
    rewrite <- (Z2Nat.id (Z.log2 B)) at 1 by exact Hl. rewrite <- pow_IZR.
    rewrite <- (Z2Nat.id (Z.log2 B)) at 2 by exact Hl. rewrite <- INR_IZR_INZ.
    generalize (Z.to_nat (Z.log2 B)) as k. induction k as [|k IH]; [cbn [pow INR]; rewrite ln_1; ring|].
    rewrite S_INR. cbn [pow]. rewrite ln_mult; [rewrite IH; ring | lra | apply pow_lt; lra]. }
  rewrite HlnB.
  assert (Hd0 : (0 <= ln2_rel u Ka Kb)%R).
  { pose proof (uP_pos B HB w ltac:(lia)) as Hu. fold u in Hu. unfold ln2_rel, rstep.
    assert (0 <= Rmax (iacoth_rel u Ka) (iacoth_rel u Kb))%R by (eapply Rle_trans; [apply (iacoth_rel_nonneg u Ka); lra | apply Rmax_l]).
    nra. }
  destruct Rl as (a & Ea & Ha). rewrite Ea.
  replace (ln 2 * a * IZR (Z.log2 B) * th)%R with (ln 2 * IZR (Z.log2 B) * a * th)%R by ring.
  apply (RD_step (ln2_rel u Ka Kb) _ (ln 2 * IZR (Z.log2 B) * a) th u Hd0); [|exact Hth'].
  exists a. split; [ring | exact Ha].
Qed.

End F32.
End LnBase.

(** non-vacuity: the model of ln2 at 5 decimal digits with an f32 layer that estimates nothing *)
Example ln_base_example :
  exists res, ln_base 2 no_f32 64 40 4 MHalfEven = Ok res /\ (0 < fsig res) /\
  ln_base 10 no_f32 64 40 4 MHalfEven <> OutOfFuel.
Proof. eexists. split; [vm_compute; reflexivity|]. split; [reflexivity | vm_compute; discriminate]. Qed.
