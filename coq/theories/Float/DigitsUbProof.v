(** C05: the contract of Repr::digits_ub that the float comparison theorems take as a hypothesis
    (|significand| < B^(digits_ub + 1)) is a THEOREM for the f32 code of float/src/repr.rs, for EVERY sound log2
    estimator (the contract of C12: the reported upper bound is a finite f32 not below log2 |significand|, the
    reported lower bound of the base is not above log2 B) - not only for the library's own estimator, and for
    significands of any size below B^(2^24) digits... i.e. |s| < B^(2^24).

    The arms `match B { 2 => ub, 10 => ub * LOG10_2, _ => ub / base_lb }` and the final `log as usize + 1` are
    REGENERATED from the source (DashuGen.DigitsEstGen, tools/translate_c05_r3.py); f32 is Flocq's binary32
    (Cross/XLog2Model.v: f_mul, f_div = correctly rounded IEEE operations, f_to_usize = the saturating cast).
    The argument: the number k of digits minus one is an integer below 2^24, hence an f32; rounding to nearest is
    monotone and fixes k, so fl(ub * c) and fl(ub / base_lb) cannot fall below k although they may fall below the
    exact quotient; the cast truncates to at least k.  The result is the strong form |s| < B^digits_ub. *)
From Coq Require Import ZArith Reals Lia Lra Bool Psatz.
From Flocq Require Import Core IEEE754.BinarySingleNaN.
From Dashu Require Import Base.Prelude Cross.XLog2Model Cross.XLog2Flocq Float.Log10Const.
From Dashu Require Import Float.FloatOrdModel Float.FloatOrdProofs Float.FloatOrdDispatch Float.DigitsUbModel.
From DashuGen Require Import DigitsEstGen CmpGen.
Open Scope R_scope.

(** the as-is model of C14 (Cross/XLog2Model.v digits_ub32, the library's own estimators inside) is this function *)
Lemma digits_ub32_is_gen lg w B s : s <> 0%Z ->
  digits_ub32 lg 64 w B s =
  digits_ub_est B (fst (ibig_log2_bounds lg w s)) (snd (ibig_log2_bounds lg w s)) (fst (u_log2_bounds lg B)) (snd (u_log2_bounds lg B)).
Proof.
  intros Ns. unfold digits_ub32, digits_ub_est, digits_ub_log_gen, digits_ub_plus_gen.
  destruct (Z.eqb_spec s 0) as [E|_]; [contradiction|]. reflexivity.
Qed.

Definition big : Z := (2 ^ 24)%Z.
Lemma big_val : big = 16777216%Z. Proof. reflexivity. Qed.
Global Opaque big.

Theorem digits_ub_contract B s lb ub blb bub :
  (2 <= B)%Z -> s <> 0%Z -> (Z.abs s < B ^ big)%Z ->
  fin ub = true -> log2R (IZR (Z.abs s)) <= b2r ub -> b2r ub <= p2 100 ->
  (B <> 2%Z -> B <> 10%Z -> fin blb = true /\ / 2 <= b2r blb <= log2R (IZR B)) ->
  (Z.abs s < B ^ digits_ub_est B lb ub blb bub)%Z.
Proof.
  intros HB Ns Hs Fub Us Ub100 Hb.
  set (LS := log2R (IZR (Z.abs s))) in *. set (LB := log2R (IZR B)) in *.
  assert (LS0 : 0 <= LS) by (unfold LS; rewrite <- log2R_1; apply log2R_le; [lra | apply IZR_le; lia]).
  assert (Bsu : bd 100 ub) by (split; [exact Fub | rewrite Rabs_pos_eq by lra; exact Ub100]).
  unfold digits_ub_est. change digits_ub_plus_gen with 1%Z.
  set (log := digits_ub_log_gen B lb ub blb bub).
  assert (K : fin log = true /\ forall D, (0 <= D <= 16777216)%Z -> IZR D * LB <= LS -> IZR D <= b2r log).
  { unfold log, digits_ub_log_gen. destruct (Z.eqb_spec B 2) as [E2 | N2]; [ | destruct (Z.eqb_spec B 10) as [E10 | N10]].
    - split; [exact Fub | ]. intros D HD H. assert (LB = 1) as L1.
      { unfold LB. rewrite E2. change 2 with (p2 1). rewrite log2R_bpow. reflexivity. }
      rewrite L1 in H. lra.
    - destruct c_log10_2_R as [Vc Fc].
      assert (Bc : bd 0 c_log10_2) by (split; [exact Fc | rewrite Vc, Rabs_pos_eq by lra; simpl; lra]).
      destruct (mul_gen ub c_log10_2 100 0 Bsu Bc ltac:(lia)) as (Fm & Vm & _). split; [exact Fm | ].
      intros D HD H. rewrite Vm, Vc. rewrite <- (rnd32_id (IZR D)) by (apply F32_int; change (2 ^ 24)%Z with 16777216%Z; lia).
      apply rnd32_le.
      assert (LB = ln 10 / ln 2) as L10 by (unfold LB, log2R; rewrite E10; reflexivity).
      pose proof log10_2_f32_const as C. rewrite <- L10 in C. assert (0 <= IZR D) as D0 by (apply IZR_le; lia).
      assert (IZR D <= IZR D * LB * (10100891 / 33554432)) as H2.
      { replace (IZR D * LB * (10100891 / 33554432)) with (IZR D * (10100891 / 33554432 * LB)) by ring.
        rewrite <- (Rmult_1_r (IZR D)) at 1. apply Rmult_le_compat_l; assumption. }
      apply Rle_trans with (1 := H2). apply Rmult_le_compat_r; lra.
    - destruct (Hb N2 N10) as (Fbl & Hh & Lb).
      assert (Nz : b2r blb <> 0) by lra.
      assert (A : Rabs (b2r ub / b2r blb) <= p2 101).
      { unfold Rdiv. rewrite Rabs_mult.
        replace (p2 101) with (p2 100 * 2) by (change 101%Z with (100 + 1)%Z; rewrite bpow_plus; change (p2 1) with 2; reflexivity).
        destruct Bsu as [_ Bsu].
        apply Rmult_le_compat; try apply Rabs_pos; [exact Bsu | ]. rewrite Rabs_inv. rewrite Rabs_pos_eq by lra.
        replace 2 with (/ / 2) by field. apply Rinv_le_contravar; lra. }
      destruct (f_div_R ub blb Fub Nz) as [Vd Fd].
      { apply Rle_lt_trans with (p2 101); [apply bnd_rnd; [lia | exact A] | apply p2_lt_max; lia]. }
      split; [exact Fd | ]. intros D HD H. rewrite Vd.
      rewrite <- (rnd32_id (IZR D)) by (apply F32_int; change (2 ^ 24)%Z with 16777216%Z; lia). apply rnd32_le.
      assert (0 <= IZR D) as D0 by (apply IZR_le; lia).
      apply Rmult_le_reg_r with (b2r blb); [lra | ]. unfold Rdiv. rewrite Rmult_assoc, Rinv_l, Rmult_1_r by exact Nz.
      apply Rle_trans with (IZR D * LB); [apply Rmult_le_compat_l; lra | lra]. }
  destruct K as [Fl K]. set (D := (f_to_usize 64 log + 1)%Z).
  destruct (Z.lt_ge_cases (Z.abs s) (B ^ D)) as [ | C]; [assumption | exfalso].
  assert (D0 : (0 <= f_to_usize 64 log)%Z) by (unfold f_to_usize; destruct log as [ | [ | ] | | ]; lia).
  assert (Dbig : (D < big)%Z).
  { apply (Z.pow_lt_mono_r_iff B); [lia | rewrite big_val; lia | ]. lia. }
  rewrite big_val in Dbig.
  assert (H : IZR D * LB <= LS).
  { unfold LB, LS. rewrite <- log2R_Zpow by lia. apply log2R_le; [apply IZR_lt; apply Z.pow_pos_nonneg; lia | apply IZR_le; exact C]. }
  pose proof (K D ltac:(lia) H) as G.
  pose proof (to_usize_ge log D Fl ltac:(change (2 ^ 64)%Z with 18446744073709551616%Z; lia) G). lia.
Qed.

(** ... in the shape of the hypothesis of the comparison theorems *)
Corollary digits_ub_hypothesis B s lb ub blb bub :
  (2 <= B)%Z -> s <> 0%Z -> (Z.abs s < B ^ big)%Z ->
  fin ub = true -> log2R (IZR (Z.abs s)) <= b2r ub -> b2r ub <= p2 100 ->
  (B <> 2%Z -> B <> 10%Z -> fin blb = true /\ / 2 <= b2r blb <= log2R (IZR B)) ->
  (Z.abs s < B ^ (digits_ub_est B lb ub blb bub + 1))%Z.
Proof.
  intros HB Ns Hs Fub Us Ub Hb. pose proof (digits_ub_contract B s lb ub blb bub HB Ns Hs Fub Us Ub Hb) as H.
  assert (0 <= digits_ub_est B lb ub blb bub)%Z as D0.
  { unfold digits_ub_est. change digits_ub_plus_gen with 1%Z.
    assert (0 <= f_to_usize 64 (digits_ub_log_gen B lb ub blb bub))%Z; [|lia].
    unfold f_to_usize. destruct (digits_ub_log_gen B lb ub blb bub) as [ | [ | ] | | ]; lia. }
  eapply Z.lt_le_trans; [exact H|]. apply Z.pow_le_mono_r; lia.
Qed.

(* ---------------------------------------------------------------- the comparison with the f32 estimate inside *)

Section WithEstimate.
Variable B : Z.
Hypothesis HB : (2 <= B)%Z.
(** any log2 estimator of significands and any estimate of the base that satisfy the contract of C12 *)
Variable est : Z -> f32 * f32.
Variable best : f32 * f32.
Hypothesis est_ok : forall s, s <> 0%Z -> (Z.abs s < B ^ big)%Z ->
  fin (snd (est s)) = true /\ log2R (IZR (Z.abs s)) <= b2r (snd (est s)) /\ b2r (snd (est s)) <= p2 100.
Hypothesis best_ok : B <> 2%Z -> B <> 10%Z -> fin (fst best) = true /\ / 2 <= b2r (fst best) <= log2R (IZR B).

(** Repr::digits_ub as the code computes it; beyond the size covered here the exact digit count stands in *)
Definition du32 (s : Z) : Z :=
  if (Z.abs s <? B ^ big)%Z then digits_ub_est B (fst (est s)) (snd (est s)) (fst best) (snd best) else ndigits B s.

Lemma du32_ok s : s <> 0%Z -> (Z.abs s < B ^ (du32 s + 1))%Z.
Proof.
  intros Ns. unfold du32. destruct (Z.ltb_spec (Z.abs s) (B ^ big)) as [L|_].
  - destruct (est_ok s Ns L) as (F & U & U100). apply digits_ub_hypothesis; assumption.
  - apply ndigits_ok; assumption.
Qed.

(** repr_cmp_same_base (the body regenerated from cmp.rs) run with the f32 digit estimate (the arms regenerated
    from repr.rs) is the order of the values; every trait impl of FBig with it *)
Theorem float_cmp_with_f32_estimate l r : fwf l -> fwf r ->
  repr_cmp_same_base_gen B du32 false l r = fcmp_spec B l r /\
  repr_cmp_same_base_gen B du32 true l r = fabs_cmp_spec B l r.
Proof.
  intros Wl Wr. rewrite !repr_cmp_gen_is_model. split.
  - apply repr_cmp_same_base_correct; [exact HB | exact du32_ok | assumption | assumption].
  - apply repr_cmp_same_base_abs_correct; [exact HB | exact du32_ok | assumption | assumption].
Qed.
End WithEstimate.

(** non-vacuity of the section: in base 10 the constant estimate 2^100 meets the contract for every significand below
    10^(2^24), so the hypotheses are satisfiable (the library's own estimators are of course much tighter: C12, C14) *)
Example float_cmp_with_f32_estimate_inhabited :
  let est := fun _ : Z => (f_ninf, f_dyadic 1 100) in
  (forall s, s <> 0%Z -> (Z.abs s < 10 ^ big)%Z ->
     fin (snd (est s)) = true /\ log2R (IZR (Z.abs s)) <= b2r (snd (est s)) /\ b2r (snd (est s)) <= p2 100) /\
  (10 <> 2 -> 10 <> 10 -> fin (fst (f_ninf, f_pinf)) = true /\ (/ 2 <= b2r (fst (f_ninf, f_pinf)) <= log2R (IZR 10))%R)%Z.
Proof.
  cbv zeta. split; [|intros _ H; exfalso; apply H; reflexivity].
  intros s Ns Hs. cbn [snd].
  assert (V : b2r (f_dyadic 1 100) = p2 100 /\ fin (f_dyadic 1 100) = true).
  { assert (E : F2R (Float radix2 1 100) = p2 100) by (unfold F2R; cbn [Fnum Fexp]; lra).
    rewrite <- E. apply f_dyadic_R.
    - rewrite E. apply F32_bpow. lia.
    - rewrite E, Rabs_pos_eq by apply bpow_ge_0. apply p2_lt_max. lia. }
  destruct V as [V F]. split; [exact F|]. rewrite V. split; [|lra].
  apply Rle_trans with (log2R (IZR (10 ^ big))).
  - apply log2R_le; [apply IZR_lt; lia | apply IZR_le; lia].
  - rewrite log2R_Zpow by (rewrite ?big_val; lia).
    assert (log2R (IZR 10) <= 4) as L4.
    { replace 4 with (log2R (p2 4)) by (rewrite log2R_bpow; reflexivity). apply log2R_le; [lra | simpl; lra]. }
    assert (0 <= log2R (IZR 10)) as L0 by (rewrite <- log2R_1; apply log2R_le; lra).
    rewrite big_val. apply Rle_trans with (16777216 * 4); [apply Rmult_le_compat_l; lra|].
    apply Rle_trans with (p2 27); [simpl; lra | apply p2_mono; lia].
Qed.

(** non-vacuity of the contract: base 10, s = 999: the upper bound 10 (>= log2 999 = 9.96...) gives
    fl(10 * LOG10_2) = 3.0103.. -> 3 + 1 = 4 digits, and 999 < 10^4 *)
Example digits_ub_contract_example :
  digits_ub_est 10 (f_of_Z 9) (f_of_Z 10) (f_of_Z 3) (f_of_Z 4) = 4%Z /\ (999 < 10 ^ 4)%Z /\ fin (f_of_Z 10) = true.
Proof. vm_compute. repeat split. Qed.
