(** C03 round 3: float addition / subtraction (AddModel.v, transcribed from float/src/add.rs) for operands
    of ANY length - the operands need not fit the precision.

    [rounded_sum] (the documented contract, AddModelProof.rounded_sum_contract) holds for every pair of
    operands outside the class [add_short_class]: an effective subtraction whose aligned sum cancels so far
    that, after the single re-alignment step of repr_round_sum, fewer than p digits stand above the
    rounding position while a non-zero low part is still to be rounded off (finding
    add_overlong_cancellation, witness below).  An effective addition is never in the class. *)
From Dashu Require Import Base.Prelude Float.RoundSpec Float.RoundTablesProof Float.RoundSpecProof
  Float.Contract Float.Model Float.ModelProof Float.AddModel Float.AddModelProof Float.DivMulModel Float.LongModel.
From DashuGen Require Import RoundTables.
From Coq Require Import ZifyBool.
Open Scope Z_scope.

Section AddLong.
Variable B : Z.
Hypothesis B_ge_2 : 2 <= B.
Local Notation Bpos := (Bpow_pos B B_ge_2).

Lemma realign_l_eq rp sig e low lp : realign_l B rp sig e low lp = realign B rp sig e low lp.
Proof. reflexivity. Qed.

Lemma abs_lt_pow_dlen sig : Z.abs sig < B ^ dlen B sig.
Proof.
  destruct (Z.eq_dec sig 0) as [->|H]; [rewrite dlen_zero; cbn; lia|].
  destruct (dlen_spec B B_ge_2 sig H) as [[_ U] _]. exact U.
Qed.

(** the digit count of sig bounds the magnitude from above whatever the signs are *)
Lemma upper_window sig low lp : 0 <= lp -> Z.abs low < B ^ lp ->
  Z.abs (sig * B ^ lp + low) < B ^ (dlen B sig + lp).
Proof.
  intros Hlp Hlow. pose proof (abs_lt_pow_dlen sig) as U. pose proof (dlen_nonneg B B_ge_2 sig) as Hd.
  rewrite Z.pow_add_r by lia. pose proof (Bpos lp Hlp) as HP.
  set (P := B ^ lp) in *. set (Q := B ^ dlen B sig) in *.
  assert (Z.abs (sig * P + low) <= Z.abs sig * P + Z.abs low) by nia. nia.
Qed.

Lemma pow_mono_le a b : a <= b -> 0 <= b -> B ^ a <= B ^ b.
Proof.
  intros Hab Hb. destruct (Z.le_gt_cases 0 a).
  - apply pow_le_mono; [exact B_ge_2 | lia].
  - rewrite (Z.pow_neg_r B a) by lia. pose proof (Bpos b Hb). lia.
Qed.

(** * repr_round_sum, any significand, any low part, outside the class *)
Theorem rrs_general p m sig e low lp is_sub :
  1 <= p -> 0 <= lp -> Z.abs low < B ^ lp ->
  rrs_short B p sig low lp is_sub = false ->
  rounded_sum B p m (sig * B ^ lp + low) (e - lp) (repr_round_sum B p m sig e low lp is_sub).
Proof.
  intros Hp Hlp Hlow Hns. rewrite rrs_unfold.
  destruct (Z.eqb_spec p 0) as [|_]; [lia|].
  set (rp := p + b2z is_sub) in *. assert (Hrp : p <= rp <= p + 1) by (unfold rp, b2z; destruct is_sub; lia).
  pose proof (Bpos lp Hlp) as HPlp.
  pose proof (upper_window sig low lp Hlp Hlow) as HU.
  pose proof (dlen_nonneg B B_ge_2 sig) as Hd0.
  unfold rrs_short in Hns. rewrite realign_l_eq in Hns. fold rp in Hns.
  revert Hns. unfold realign. set (d := dlen B sig) in *.
  destruct (Z.compare_spec d rp) as [Heq|Hlt|Hgt].
  - (* exactly rp digits *)
    intros Hns. apply (tail_rounded B B_ge_2); try assumption; try reflexivity; try lia.
    intros Hnz. destruct (Z.eqb_spec low 0) as [|_]; [contradiction|]. cbn [negb andb] in Hns.
    apply Z.ltb_ge in Hns. split; [exact Hns|].
    eapply Z.lt_le_trans; [exact HU|]. apply pow_mono_le; lia.
  - (* fewer digits: pad from the low part *)
    destruct (Z.eqb_spec low 0) as [Hz|Hnz].
    + intros _. apply (tail_rounded B B_ge_2); try assumption; try reflexivity; try lia.
    + set (shift := Z.min lp (rp - d)).
      assert (Hsh : 0 <= shift <= lp) by (unfold shift; lia).
      pose proof (split_digits_spec B B_ge_2 low (lp - shift) ltac:(lia)) as SP.
      destruct (split_digits B low (lp - shift)) as [pad low'] eqn:Esp.
      destruct SP as (E1 & Hl' & _ & _).
      unfold shl_digits. intros Hns.
      assert (ES : sig * B ^ lp + low = (sig * B ^ shift + pad) * B ^ (lp - shift) + low').
      { rewrite E1. replace lp with (shift + (lp - shift)) at 1 by lia.
        rewrite Z.pow_add_r by lia. ring. }
      apply (tail_rounded B B_ge_2); try assumption; try lia.
      intros Hnz'. destruct (Z.eqb_spec low' 0) as [|_]; [contradiction|]. cbn [negb andb] in Hns.
      apply Z.ltb_ge in Hns. rewrite <- ES in Hns.
      assert (Hshift : shift = rp - d).
      { unfold shift. destruct (Z.le_gt_cases lp (rp - d)) as [Hle|Hgt]; [|lia].
        exfalso. assert (shift = lp) by (unfold shift; lia).
        replace (lp - shift) with 0 in Hl' by lia. rewrite Z.pow_0_r in Hl'. lia. }
      split; [exact Hns|].
      eapply Z.lt_le_trans; [exact HU|]. apply pow_mono_le; lia.
  - (* more digits: split the significand *)
    set (shift := d - rp). assert (Hsh : 1 <= shift) by (unfold shift; lia).
    pose proof (split_digits_spec B B_ge_2 sig shift ltac:(lia)) as SP.
    destruct (split_digits B sig shift) as [hi lo] eqn:Esp.
    destruct SP as (E1 & Hlo & _ & _).
    unfold shl_digits. intros Hns.
    pose proof (Bpos shift ltac:(lia)) as HPs.
    assert (Hl' : Z.abs (low + lo * B ^ lp) < B ^ (lp + shift)).
    { rewrite Z.pow_add_r by lia. apply abs_add_mul_lt; assumption. }
    assert (EW : sig * B ^ lp + low = hi * B ^ (lp + shift) + (low + lo * B ^ lp)).
    { rewrite E1. rewrite (Z.add_comm lp shift), Z.pow_add_r by lia. ring. }
    apply (tail_rounded B B_ge_2); try assumption; try lia.
    intros Hnz'. destruct (Z.eqb_spec (low + lo * B ^ lp) 0) as [|_]; [contradiction|]. cbn [negb andb] in Hns.
    apply Z.ltb_ge in Hns. rewrite <- EW in Hns.
    split; [exact Hns|].
    eapply Z.lt_le_trans; [exact HU|]. apply pow_mono_le; unfold shift; lia.
Qed.

(** an effective addition (low part on the side of the significand) is never in the class, and neither is
    a subtraction whose significand keeps at least p + 1 digits *)
Theorem rrs_short_false p sig low lp is_sub :
  1 <= p -> 0 <= lp -> Z.abs low < B ^ lp -> sig <> 0 ->
  (is_sub = false -> 0 <= sig * low) ->
  (is_sub = true -> p + 1 <= dlen B sig) ->
  rrs_short B p sig low lp is_sub = false.
Proof.
  intros Hp Hlp Hlow Hs Hsame Hlong.
  destruct (dlen_spec B B_ge_2 sig Hs) as [_ Hd1].
  assert (Hw : forall k, k = lp + dlen B sig - (p + b2z is_sub) -> B ^ (p - 1 + k) <= Z.abs (sig * B ^ lp + low)).
  { intros k ->. destruct is_sub; cbn [b2z].
    - pose proof (window_opp B B_ge_2 sig low lp Hs Hlp Hlow ltac:(left; specialize (Hlong eq_refl); lia)) as [L _].
      eapply Z.le_trans; [|exact L]. apply pow_mono_le; lia.
    - pose proof (window_same B B_ge_2 sig low lp Hs Hlp Hlow (Hsame eq_refl)) as [L _].
      eapply Z.le_trans; [|exact L]. apply pow_mono_le; lia. }
  unfold rrs_short. rewrite realign_l_eq. unfold realign.
  set (rp := p + b2z is_sub) in *. set (d := dlen B sig) in *.
  assert (Hrp : p <= rp <= p + 1) by (unfold rp, b2z; destruct is_sub; lia).
  destruct (Z.compare_spec d rp) as [Heq|Hlt|Hgt].
  - apply Bool.andb_false_iff. right. apply Z.ltb_ge. apply Hw. lia.
  - destruct (Z.eqb_spec low 0) as [Hz|Hnz].
    + rewrite Hz. reflexivity.
    + set (shift := Z.min lp (rp - d)).
      assert (Hsh : 0 <= shift <= lp) by (unfold shift; lia).
      pose proof (split_digits_spec B B_ge_2 low (lp - shift) ltac:(lia)) as SP.
      destruct (split_digits B low (lp - shift)) as [pad low'] eqn:Esp.
      destruct SP as (E1 & Hl' & _ & _). unfold shl_digits.
      destruct (Z.eqb_spec low' 0) as [|Hnz']; [reflexivity|]. cbn [negb andb].
      assert (ES : sig * B ^ lp + low = (sig * B ^ shift + pad) * B ^ (lp - shift) + low').
      { rewrite E1. replace lp with (shift + (lp - shift)) at 1 by lia.
        rewrite Z.pow_add_r by lia. ring. }
      assert (Hshift : shift = rp - d).
      { unfold shift. destruct (Z.le_gt_cases lp (rp - d)) as [Hle|Hgt]; [|lia].
        exfalso. assert (shift = lp) by (unfold shift; lia).
        replace (lp - shift) with 0 in Hl' by lia. rewrite Z.pow_0_r in Hl'. lia. }
      apply Z.ltb_ge. rewrite <- ES. apply Hw. lia.
  - set (shift := d - rp).
    pose proof (split_digits_spec B B_ge_2 sig shift ltac:(unfold shift; lia)) as SP.
    destruct (split_digits B sig shift) as [hi lo] eqn:Esp.
    destruct SP as (E1 & Hlo & _ & _). unfold shl_digits.
    apply Bool.andb_false_iff. right. apply Z.ltb_ge.
    assert (EW : sig * B ^ lp + low = hi * B ^ (lp + shift) + (low + lo * B ^ lp)).
    { rewrite E1. rewrite (Z.add_comm lp shift), Z.pow_add_r by (unfold shift; lia). ring. }
    rewrite <- EW. apply Hw. unfold shift. lia.
Qed.

(** the class is exact: whenever repr_round_sum returns the rounding of the exact value it is outside the class *)
Theorem rrs_short_of_rounded p m sig e low lp is_sub :
  1 <= p -> 0 <= lp -> Z.abs low < B ^ lp ->
  rounded_sum B p m (sig * B ^ lp + low) (e - lp) (repr_round_sum B p m sig e low lp is_sub) ->
  rrs_short B p sig low lp is_sub = false.
Proof.
  intros Hp Hlp Hlow. rewrite rrs_unfold.
  destruct (Z.eqb_spec p 0) as [|_]; [lia|].
  unfold rrs_short, realign_l.
  set (rp := p + b2z is_sub). pose proof (Bpos lp Hlp) as HPlp.
  (* the same three cases, the significand / low part / digit position after re-alignment do not depend on e *)
  assert (W : forall s e' l k, rounded_sum B p m (sig * B ^ lp + low) (e - lp) (rrs_tail B m s e' l k) ->
              e' - (e - lp) = k -> sig * B ^ lp + low = s * B ^ k + l ->
              negb (l =? 0) && (Z.abs (s * B ^ k + l) <? B ^ (p - 1 + k)) = false).
  { intros s e' l k H Ek ES. unfold rrs_tail in H. destruct (Z.eqb_spec l 0) as [|Hl]; [reflexivity|].
    cbn [negb andb]. cbv zeta in H. cbn [rounded_sum] in H. rewrite Ek in H.
    destruct H as (_ & _ & _ & _ & _ & HL & _). apply Z.ltb_ge. rewrite <- ES. exact HL. }
  unfold realign. set (d := dlen B sig).
  destruct (Z.compare_spec d rp) as [Heq|Hlt|Hgt].
  - intros H. apply (W sig e low lp H); [clear; lia | reflexivity].
  - destruct (Z.eqb_spec low 0) as [Hz|Hnz].
    + intros H. apply (W sig e low lp H); [clear; lia | reflexivity].
    + set (shift := Z.min lp (rp - d)).
      pose proof (dlen_nonneg B B_ge_2 sig) as Hd0. fold d in Hd0.
      assert (Hsh : 0 <= shift <= lp) by (unfold shift; lia).
      pose proof (split_digits_spec B B_ge_2 low (lp - shift) ltac:(lia)) as SP.
      destruct (split_digits B low (lp - shift)) as [pad low'] eqn:Esp.
      destruct SP as (E1 & _). unfold shl_digits. intros H.
      apply (W _ _ _ _ H); [clear; lia|].
      rewrite E1. replace lp with (shift + (lp - shift)) at 1 by lia. rewrite Z.pow_add_r by lia. ring.
  - set (shift := d - rp). assert (Hsh : 1 <= shift) by (unfold shift; lia).
    pose proof (split_digits_spec B B_ge_2 sig shift ltac:(lia)) as SP.
    destruct (split_digits B sig shift) as [hi lo] eqn:Esp.
    destruct SP as (E1 & _). unfold shl_digits. intros H.
    apply (W _ _ _ _ H); [clear; lia|].
    rewrite E1. rewrite (Z.add_comm lp shift), Z.pow_add_r by lia. ring.
Qed.

(** * the far-apart branch, any length of the small operand T: |T| <= B^(g-1) replaces |T| < B^p *)
Theorem rrs_far_long p m sig e sigma T g is_sub :
  1 <= p -> sig <> 0 -> (sigma = 1 \/ sigma = -1) -> 0 < sigma * T ->
  let rp := p + b2z is_sub in
  let d := dlen B sig in
  let flp := far_low_prec rp d in
  flp <= g ->
  (rp <= d -> 2 * Z.abs T < B ^ g) ->
  (d < rp -> 2 * Z.abs T < B ^ (g + d - rp)) ->
  (is_sub = false -> 0 < sig * T) -> (is_sub = true -> Z.abs T <= B ^ (g - 1)) ->
  rounded_sum B p m (sig * B ^ g + T) (e - g) (repr_round_sum B p m sig e sigma flp is_sub).
Proof.
  intros Hp Hs Hsg HsT rp d flp Hg HT1 HT2 Hsame HTs. rewrite rrs_unfold.
  destruct (Z.eqb_spec p 0) as [|_]; [lia|].
  fold rp. assert (Hrp : p <= rp <= p + 1) by (unfold rp, b2z; destruct is_sub; lia).
  assert (Hrp1 : is_sub = true -> rp = p + 1) by (intros ->; reflexivity).
  assert (Hrp0 : is_sub = false -> rp = p) by (intros ->; unfold rp; cbn [b2z]; lia).
  destruct (dlen_spec B B_ge_2 sig Hs) as [_ Hd1]. fold d in Hd1.
  assert (Hflp : flp = if d >=? rp then 2 else rp - d + 2) by reflexivity.
  assert (HB2 : 4 <= B ^ 2) by (rewrite Z.pow_2_r; nia).
  assert (Hsgn : sigma <> 0) by lia. assert (Hsga : Z.abs sigma = 1) by lia.
  assert (HTn : T <> 0) by nia.
  assert (Hg0 : 2 <= g) by (destruct (Z.geb_spec d rp); lia).
  assert (Hg1 : d < rp -> rp - d + 2 <= g) by (destruct (Z.geb_spec d rp); lia).
  pose proof (Bpos g ltac:(lia)) as HPg.
  assert (HTg : Z.abs T < B ^ g).
  { destruct (Z.le_gt_cases rp d) as [C|C]; [specialize (HT1 C); lia|].
    specialize (HT2 C). specialize (Hg1 C). pose proof (pow_le_mono B B_ge_2 (g + d - rp) g ltac:(lia)). lia. }
  (* the window, from the digit count of sig *)
  assert (Hwin : forall k, k = g + d - rp -> B ^ (p - 1 + k) <= Z.abs (sig * B ^ g + T) < B ^ (p + 1 + k)).
  { intros k ->. destruct is_sub.
    - specialize (Hrp1 eq_refl).
      pose proof (window_opp B B_ge_2 sig T g Hs ltac:(lia) HTg ltac:(right; split; [lia | apply HTs; reflexivity])) as [Lw Uw].
      fold d in Lw, Uw.
      split; [eapply Z.le_trans; [|exact Lw] | eapply Z.lt_le_trans; [exact Uw|]]; apply pow_mono_le; lia.
    - specialize (Hrp0 eq_refl).
      pose proof (window_same B B_ge_2 sig T g Hs ltac:(lia) HTg ltac:(specialize (Hsame eq_refl); lia)) as [Lw Uw].
      fold d in Lw, Uw.
      split; [eapply Z.le_trans; [|exact Lw] | eapply Z.lt_le_trans; [exact Uw|]]; apply pow_mono_le; lia. }
  unfold realign. fold d.
  destruct (Z.compare_spec d rp) as [Heq|Hlt|Hgt].
  - (* d = rp: round sig with the stand-in *)
    assert (Ef : flp = 2) by (rewrite Hflp; destruct (Z.geb_spec d rp); lia). rewrite Ef.
    apply (tail_far B B_ge_2 p m sig e sigma 2 (sig * B ^ g + T) (e - g) g T); try assumption; try lia.
    + pose proof (spec_round_standin m sig 1 (B ^ 2) sigma (B ^ g) T) as SS.
      rewrite !Z.mul_1_l in SS. apply SS; try lia; try (apply HT1; lia).
    + apply Hwin. lia.
  - (* d < rp: pad zeros *)
    assert (Ef : flp = rp - d + 2) by (rewrite Hflp; destruct (Z.geb_spec d rp); lia). rewrite Ef.
    destruct (Z.eqb_spec sigma 0) as [|_]; [contradiction|].
    replace (Z.min (rp - d + 2) (rp - d)) with (rp - d) by lia.
    replace (rp - d + 2 - (rp - d)) with 2 by lia.
    cbn [split_digits]. destruct (quot_rem_small sigma (B ^ 2) ltac:(lia)) as [Eq Er].
    rewrite Eq, Er. unfold shl_digits. rewrite Z.add_0_r.
    set (sh := rp - d). assert (Hsh : 1 <= sh) by (unfold sh; lia).
    assert (Hk : 2 <= g - sh) by (unfold sh; lia).
    pose proof (Bpos sh ltac:(lia)) as HPsh. pose proof (Bpos (g - sh) ltac:(lia)) as HPk.
    assert (HT2' : 2 * Z.abs T < B ^ (g - sh)).
    { replace (g - sh) with (g + d - rp) by (unfold sh; lia). apply HT2. lia. }
    apply (tail_far B B_ge_2 p m (sig * B ^ sh) (e - sh) sigma 2 (sig * B ^ g + T) (e - g) (g - sh) T); try assumption; try lia.
    + replace g with (sh + (g - sh)) at 1 by lia. rewrite Z.pow_add_r by lia. ring.
    + pose proof (spec_round_standin m (sig * B ^ sh) 1 (B ^ 2) sigma (B ^ (g - sh)) T) as SS.
      rewrite !Z.mul_1_l in SS.
      replace (sig * B ^ g + T) with (sig * B ^ sh * B ^ (g - sh) + T).
      2:{ replace g with (sh + (g - sh)) at 2 by lia. rewrite Z.pow_add_r by lia. ring. }
      apply SS; lia.
    + apply Hwin. unfold sh. lia.
  - (* d > rp: split the significand, the stand-in sits below its low part *)
    assert (Ef : flp = 2) by (rewrite Hflp; destruct (Z.geb_spec d rp); lia). rewrite Ef.
    set (sh := d - rp). assert (Hsh : 1 <= sh) by (unfold sh; lia).
    pose proof (split_digits_spec B B_ge_2 sig sh ltac:(lia)) as SP.
    destruct (split_digits B sig sh) as [hi lo] eqn:Esp.
    destruct SP as (E1 & Hlo & _ & _).
    unfold shl_digits.
    pose proof (Bpos sh ltac:(lia)) as HPsh.
    assert (HT1' : 2 * Z.abs T < B ^ g) by (apply HT1; lia).
    assert (Hls : Z.abs (sigma + lo * B ^ 2) < B ^ (2 + sh)).
    { rewrite Z.pow_add_r by lia. apply abs_add_mul_lt; [lia | assumption]. }
    assert (Hlsn : sigma + lo * B ^ 2 <> 0).
    { apply add_mul_nz; lia. }
    assert (HlT : Z.abs (lo * B ^ g + T) < B ^ (g + sh)).
    { rewrite Z.pow_add_r by lia. rewrite (Z.add_comm (lo * B ^ g) T). apply abs_add_mul_lt; assumption. }
    assert (HlTn : lo * B ^ g + T <> 0).
    { rewrite (Z.add_comm (lo * B ^ g) T). apply add_mul_nz; assumption. }
    apply (tail_far B B_ge_2 p m hi (e + sh) (sigma + lo * B ^ 2) (2 + sh) (sig * B ^ g + T) (e - g) (g + sh) (lo * B ^ g + T));
      [clear - Hsh; lia | exact Hls | exact Hlsn | clear - Hsh Hg0; lia | exact HlT | exact HlTn | | clear; lia | | ].
    + rewrite E1. rewrite Z.pow_add_r by lia. ring.
    + pose proof (spec_round_standin m sig (B ^ sh) (B ^ 2) sigma (B ^ g) T) as SS.
      replace (hi * B ^ (2 + sh) + (sigma + lo * B ^ 2)) with (sig * B ^ 2 + sigma).
      2:{ rewrite E1. rewrite (Z.add_comm 2 sh), Z.pow_add_r by lia. ring. }
      rewrite (Z.add_comm 2 sh), (Z.add_comm g sh), !Z.pow_add_r by lia.
      apply SS; [exact HPsh | clear - HB2; lia | exact HPg | exact HsT | clear - Hsga HB2; lia | exact HT1'].
    + apply Hwin. unfold sh. clear. lia.
Qed.

(** * the alignment branches, any operand lengths *)
Theorem add_core_long p m L R eL ediff is_sub rdu :
  1 <= p -> L <> 0 -> R <> 0 -> 1 <= ediff -> dlen B R <= rdu ->
  (is_sub = false -> 0 < L * R) -> (is_sub = true -> L * R < 0) ->
  add_core_short B p L R ediff is_sub = false ->
  rounded_sum B p m (L * B ^ ediff + R) (eL - ediff) (add_core B p m L R eL ediff is_sub rdu).
Proof.
  intros Hp HL HR He Hrdu Hsame Hopp Hns. unfold add_core.
  destruct (Z.eqb_spec p 0) as [|_]; [lia|]. cbn [negb andb].
  set (rp := p + b2z is_sub). assert (Hrp : p <= rp <= p + 1) by (unfold rp, b2z; destruct is_sub; lia).
  destruct (dlen_spec B B_ge_2 L HL) as [[LL LU] Ld1]. destruct (dlen_spec B B_ge_2 R HR) as [[RL RU] Rd1].
  set (ld := dlen B L) in *. set (rd := dlen B R) in *.
  assert (Hrest : rounded_sum B p m (L * B ^ ediff + R) (eL - ediff)
    (if ld >=? p
     then let '(hi, lo) := split_digits B R ediff in repr_round_sum B p m (L + hi) eL lo ediff is_sub
     else if ediff + ld >? p
       then let '(hi, lo) := split_digits B R (ediff - (p - ld)) in
            repr_round_sum B p m (L * B ^ (p - ld) + hi) (eL - (p - ld)) lo (ediff - (p - ld)) is_sub
       else repr_round_sum B p m (L * B ^ ediff + R) (eL - ediff) 0 0 is_sub)).
  { unfold add_core_short in Hns. fold ld in Hns. revert Hns.
    destruct (Z.geb_spec ld p) as [G|G].
    - pose proof (split_digits_spec B B_ge_2 R ediff ltac:(lia)) as SP.
      destruct (split_digits B R ediff) as [hi lo]. destruct SP as (E1 & Hlo & _ & _). intros Hns.
      replace (L * B ^ ediff + R) with ((L + hi) * B ^ ediff + lo) by (rewrite E1; ring).
      apply rrs_general; try assumption; lia.
    - destruct (Z.gtb_spec (ediff + ld) p) as [G2|G2].
      + set (lshift := p - ld). set (rshift := ediff - lshift).
        assert (Hls : 1 <= lshift) by (unfold lshift; lia). assert (Hrs : 1 <= rshift) by (unfold rshift, lshift; lia).
        pose proof (split_digits_spec B B_ge_2 R rshift ltac:(lia)) as SP.
        destruct (split_digits B R rshift) as [hi lo]. destruct SP as (E1 & Hlo & _ & _). intros Hns.
        replace (L * B ^ ediff + R) with ((L * B ^ lshift + hi) * B ^ rshift + lo).
        2:{ rewrite E1. replace ediff with (lshift + rshift) by (unfold rshift; lia).
            rewrite Z.pow_add_r by lia. ring. }
        replace (eL - ediff) with (eL - lshift - rshift) by (unfold rshift; lia).
        apply rrs_general; try assumption; lia.
      + intros Hns.
        replace (L * B ^ ediff + R) with ((L * B ^ ediff + R) * B ^ 0 + 0) at 1 by (rewrite Z.pow_0_r; ring).
        replace (eL - ediff) with (eL - ediff - 0) at 1 by lia.
        apply rrs_general; try assumption; try lia. }
  destruct (Z.ltb_spec (rdu + 1) ediff) as [F1|F1]; [destruct (Z.ltb_spec (rdu + 1 + rp) (ld + ediff)) as [F2|F2]|]; cbn [andb]; try exact Hrest.
  (* far apart *)
  assert (HRu : 2 * Z.abs R <= B ^ (rdu + 1)).
  { pose proof (pow_le_mono B B_ge_2 rd rdu ltac:(lia)). rewrite Z.pow_add_r, Z.pow_1_r by lia.
    pose proof (Bpos rdu ltac:(lia)). nia. }
  apply (rrs_far_long p m L eL (Z.sgn R) R ediff is_sub); try assumption; try lia.
  - fold rp. fold ld. unfold far_low_prec. destruct (Z.geb_spec ld rp); lia.
  - fold rp. fold ld. intros _.
    pose proof (Z.pow_lt_mono_r B (rdu + 1) ediff ltac:(lia) ltac:(lia) ltac:(lia)). lia.
  - fold rp. fold ld. intros Hlt.
    pose proof (Z.pow_lt_mono_r B (rdu + 1) (ediff + ld - rp) ltac:(lia) ltac:(lia) ltac:(lia)). lia.
  - intros _. pose proof (pow_le_mono B B_ge_2 rd (ediff - 1) ltac:(lia)). lia.
Qed.

(** an effective addition is outside the class, whatever the lengths *)
Theorem add_core_short_add p L R ediff :
  1 <= p -> L <> 0 -> R <> 0 -> 1 <= ediff -> 0 < L * R -> add_core_short B p L R ediff false = false.
Proof.
  intros Hp HL HR He Hsame. unfold add_core_short.
  destruct (Z.geb_spec (dlen B L) p) as [G|G].
  - pose proof (split_digits_spec B B_ge_2 R ediff ltac:(lia)) as SP.
    destruct (split_digits B R ediff) as [hi lo]. destruct SP as (E1 & Hlo & Hslo & Hshi).
    apply rrs_short_false; try assumption; try lia; try discriminate;
      intros; (destruct (Z.lt_trichotomy R 0) as [Hn|[Hz|Hpos]]; [|contradiction|];
        [assert (L < 0) by nia; assert (lo <= 0) by nia; assert (hi <= 0) by nia; nia
        |assert (0 < L) by nia; assert (0 <= lo) by nia; assert (0 <= hi) by nia; nia]).
  - destruct (Z.gtb_spec (ediff + dlen B L) p) as [G2|G2].
    + set (lshift := p - dlen B L). set (rshift := ediff - lshift).
      pose proof (dlen_nonneg B B_ge_2 L).
      assert (Hls : 1 <= lshift) by (unfold lshift; lia). assert (Hrs : 1 <= rshift) by (unfold rshift, lshift; lia).
      pose proof (split_digits_spec B B_ge_2 R rshift ltac:(lia)) as SP.
      destruct (split_digits B R rshift) as [hi lo]. destruct SP as (E1 & Hlo & Hslo & Hshi).
      pose proof (Bpos lshift ltac:(lia)) as HPl. set (P := B ^ lshift) in *.
      apply rrs_short_false; try assumption; try lia; try discriminate;
        intros; (destruct (Z.lt_trichotomy R 0) as [Hn|[Hz|Hpos]]; [|contradiction|];
          [assert (L < 0) by nia; assert (lo <= 0) by nia; assert (hi <= 0) by nia; assert (L * P < 0) by nia; nia
          |assert (0 < L) by nia; assert (0 <= lo) by nia; assert (0 <= hi) by nia; assert (0 < L * P) by nia; nia]).
    + assert (0 <= ediff) by lia. pose proof (Bpos ediff ltac:(lia)) as HPe. set (P := B ^ ediff) in *.
      apply rrs_short_false; try lia; try discriminate.
      all: try (rewrite Z.pow_0_r; cbn; lia).
Qed.

(** operands that fit the precision are never in the class: the theorems of this file contain the pinned ones *)
Theorem add_core_short_fits p L R ediff is_sub :
  1 <= p -> L <> 0 -> R <> 0 -> 1 <= ediff -> dlen B L <= p -> dlen B R <= p ->
  (is_sub = false -> 0 < L * R) -> (is_sub = true -> L * R < 0) ->
  add_core_short B p L R ediff is_sub = false.
Proof.
  intros Hp HL HR He HdL HdR Hsame Hopp. unfold add_core_short.
  destruct (dlen_spec B B_ge_2 L HL) as [[LL LU] Ld1]. destruct (dlen_spec B B_ge_2 R HR) as [[RL RU] Rd1].
  set (ld := dlen B L) in *. set (rd := dlen B R) in *.
  assert (HRp : Z.abs R < B ^ p) by (pose proof (pow_le_mono B B_ge_2 rd p ltac:(lia)); lia).
  pose proof (Bpos (p - 1) ltac:(lia)) as HPp.
  destruct (Z.geb_spec ld p) as [G|G].
  - assert (ld = p) by lia.
    pose proof (split_digits_spec B B_ge_2 R ediff ltac:(lia)) as SP.
    destruct (split_digits B R ediff) as [hi lo]. destruct SP as (E1 & Hlo & Hslo & Hshi).
    destruct (hi_small B B_ge_2 p R ediff hi lo Hp He HR E1 Hslo Hshi HRp) as [Hhi Hlo2].
    assert (HLp : B ^ (p - 1) <= Z.abs L) by (replace (p - 1) with (ld - 1) by lia; exact LL).
    apply (rrs_short_of_rounded p MZero (L + hi) 0 lo ediff is_sub); try assumption; try lia.
    apply (rrs_exact B B_ge_2); try assumption; try lia.
    intros Hs. specialize (Hsame Hs).
    destruct (Z.lt_trichotomy R 0) as [Hn|[Hz|Hpos]]; [|contradiction|].
    + assert (L < 0) by nia. assert (lo <= 0) by nia. assert (hi <= 0) by nia. nia.
    + assert (0 < L) by nia. assert (0 <= lo) by nia. assert (0 <= hi) by nia. nia.
  - destruct (Z.gtb_spec (ediff + ld) p) as [G2|G2].
    + set (lshift := p - ld). set (rshift := ediff - lshift).
      assert (Hls : 1 <= lshift) by (unfold lshift; lia). assert (Hrs : 1 <= rshift) by (unfold rshift, lshift; lia).
      pose proof (split_digits_spec B B_ge_2 R rshift ltac:(lia)) as SP.
      destruct (split_digits B R rshift) as [hi lo]. destruct SP as (E1 & Hlo & Hslo & Hshi).
      destruct (hi_small B B_ge_2 p R rshift hi lo Hp Hrs HR E1 Hslo Hshi HRp) as [Hhi Hlo2].
      pose proof (Bpos lshift ltac:(lia)) as HPl.
      assert (HLp : B ^ (p - 1) <= Z.abs (L * B ^ lshift)).
      { replace (p - 1) with ((ld - 1) + lshift) by (unfold lshift; lia).
        rewrite Z.pow_add_r by lia. rewrite Z.abs_mul, (Z.abs_eq (B ^ lshift)) by lia.
        apply Z.mul_le_mono_nonneg_r; [lia | exact LL]. }
      apply (rrs_short_of_rounded p MZero (L * B ^ lshift + hi) 0 lo rshift is_sub); try assumption; try lia.
      apply (rrs_exact B B_ge_2); try assumption; try lia.
      intros Hs. specialize (Hsame Hs).
      destruct (Z.lt_trichotomy R 0) as [Hn|[Hz|Hpos]]; [|contradiction|].
      * assert (L < 0) by nia. assert (lo <= 0) by nia. assert (hi <= 0) by nia. nia.
      * assert (0 < L) by nia. assert (0 <= lo) by nia. assert (0 <= hi) by nia. nia.
    + apply (rrs_short_of_rounded p MZero (L * B ^ ediff + R) 0 0 0 is_sub); try lia; try (rewrite Z.pow_0_r; cbn; lia).
      apply (rrs_exact B B_ge_2); try lia; try (rewrite Z.pow_0_r; cbn; lia).
Qed.

Theorem add_short_class_fits p s1 e1 s2 e2 sg :
  1 <= p -> dlen B s1 <= p -> dlen B s2 <= p -> add_short_class B p s1 e1 s2 e2 sg = false.
Proof.
  intros Hp Hd1 Hd2. unfold add_short_class.
  destruct (Z.eqb_spec p 0) as [|_]; [reflexivity|]. destruct (Z.eqb_spec s1 0) as [|H1]; [reflexivity|].
  destruct (Z.eqb_spec s2 0) as [|H2]; [reflexivity|]. cbn [orb].
  destruct (is_sub_spec B B_ge_2 s1 s2 sg H1 H2) as [Ha Hb].
  assert (H2' : sgnz sg * s2 <> 0) by (destruct sg; cbn [sgnz]; lia).
  destruct (Z.compare_spec e1 e2) as [Heq|Hlt|Hgt]; [reflexivity| |].
  - apply add_core_short_fits; try assumption; try lia; try (rewrite dlen_sgnz; exact Hd2);
      intros Hs; first [specialize (Ha Hs) | specialize (Hb Hs)]; lia.
  - apply add_core_short_fits; try assumption; try lia; try (rewrite dlen_sgnz; exact Hd2).
Qed.

(** * Context::add / Context::sub (as repaired), any operand lengths *)
Variable digits_ub : Z -> Z.
Hypothesis digits_ub_ok : forall s, dlen B s <= digits_ub s.

Theorem add_dispatch_long p m s1 e1 s2 e2 sg :
  1 <= p -> s1 <> 0 -> s2 <> 0 ->
  add_short_class B p s1 e1 s2 e2 sg = false ->
  rounded_sum B p m (exact_sum B s1 e1 s2 e2 sg) (Z.min e1 e2) (add_dispatch B digits_ub p m s1 e1 s2 e2 sg).
Proof.
  intros Hp H1 H2 Hns. unfold add_dispatch, exact_sum. cbv zeta.
  unfold add_short_class in Hns.
  destruct (Z.eqb_spec p 0) as [|_]; [lia|]. destruct (Z.eqb_spec s1 0) as [|_]; [contradiction|].
  destruct (Z.eqb_spec s2 0) as [|_]; [contradiction|]. cbn [orb] in Hns. revert Hns.
  destruct (is_sub_spec B B_ge_2 s1 s2 sg H1 H2) as [Ha Hb].
  assert (H2' : sgnz sg * s2 <> 0) by (destruct sg; cbn [sgnz]; lia).
  destruct (Z.compare_spec e1 e2) as [Heq|Hlt|Hgt]; intros Hns.
  - subst e2. rewrite Z.min_id, Z.sub_diag, Z.pow_0_r, !Z.mul_1_r.
    apply (equal_exp_rounded B B_ge_2). exact Hp.
  - replace (Z.min e1 e2) with e1 by lia. rewrite Z.sub_diag, Z.pow_0_r, Z.mul_1_r.
    rewrite Z.add_comm. rewrite small_large_core.
    replace e1 with (e2 - (e2 - e1)) at 2 by lia.
    apply add_core_long; try assumption; try lia; try apply digits_ub_ok;
      try (intros Hs; first [specialize (Ha Hs) | specialize (Hb Hs)]; lia).
  - replace (Z.min e1 e2) with e2 by lia. rewrite Z.sub_diag, Z.pow_0_r, Z.mul_1_r.
    rewrite large_small_core.
    replace e2 with (e1 - (e1 - e2)) at 2 by lia.
    apply add_core_long; try assumption; try lia.
    rewrite dlen_sgnz. apply digits_ub_ok.
Qed.

(** an operand handed to Context::add is a stored Repr: zero, or not divisible by the base; an operand
    that fits the precision may be anything *)
Definition operand_ok (p s : Z) : Prop := s mod B <> 0 \/ dlen B s <= p.

Lemma zero_shortcut_rounded p m s e e' : 1 <= p -> operand_ok p s -> e' <= e ->
  rounded_sum B p m (s * B ^ (e - e')) e' (repr_round B p m s e).
Proof.
  intros Hp Hok He.
  apply (rounded_sum_scale B B_ge_2 p m s e (s * B ^ (e - e')) e' (e - e')); try lia.
  apply (repr_round_rounded B B_ge_2); assumption.
Qed.

Theorem ctx_add_long p m s1 e1 s2 e2 :
  1 <= p -> operand_ok p s1 -> operand_ok p s2 ->
  add_short_class B p s1 e1 s2 e2 Positive = false ->
  rounded_sum B p m (exact_sum B s1 e1 s2 e2 Positive) (Z.min e1 e2) (ctx_add B digits_ub p m s1 e1 s2 e2).
Proof.
  intros Hp Hd1 Hd2 Hns. unfold ctx_add.
  destruct (Z.eqb_spec s1 0) as [Hz1|Hn1]; [|destruct (Z.eqb_spec s2 0) as [Hz2|Hn2]].
  - unfold exact_sum. cbn [sgnz]. subst s1. rewrite Z.mul_0_l, Z.add_0_l, Z.mul_1_l.
    apply zero_shortcut_rounded; try assumption; lia.
  - unfold exact_sum. cbn [sgnz]. subst s2. rewrite Z.mul_0_r, Z.mul_0_l, Z.add_0_r.
    apply zero_shortcut_rounded; try assumption; lia.
  - apply add_dispatch_long; assumption.
Qed.

Lemma operand_ok_opp p s : operand_ok p s -> operand_ok p (- s).
Proof.
  intros [H|H]; [left | right].
  - intros E. apply H. apply Z.mod_divide in E; [|lia]. apply Z.mod_divide; [lia|].
    destruct E as [k E]. exists (- k). lia.
  - rewrite dlen_opp. exact H.
Qed.

Theorem ctx_sub_long p m s1 e1 s2 e2 :
  1 <= p -> operand_ok p s1 -> operand_ok p s2 ->
  add_short_class B p s1 e1 s2 e2 Negative = false ->
  rounded_sum B p m (exact_sum B s1 e1 s2 e2 Negative) (Z.min e1 e2) (ctx_sub_fixed B digits_ub p m s1 e1 s2 e2).
Proof.
  intros Hp Hd1 Hd2 Hns. unfold ctx_sub_fixed.
  destruct (Z.eqb_spec s1 0) as [Hz1|Hn1]; [|destruct (Z.eqb_spec s2 0) as [Hz2|Hn2]].
  - unfold exact_sum. cbn [sgnz]. subst s1. rewrite Z.mul_0_l, Z.add_0_l.
    replace (-1 * s2) with (- s2) by ring.
    apply zero_shortcut_rounded; try assumption; try lia. apply operand_ok_opp. exact Hd2.
  - unfold exact_sum. cbn [sgnz]. subst s2. rewrite Z.mul_0_r, Z.mul_0_l, Z.add_0_r.
    apply zero_shortcut_rounded; try assumption; lia.
  - apply add_dispatch_long; assumption.
Qed.

(** the repaired Context::sub is the pinned model wherever the subtrahend fits *)
Theorem ctx_sub_fixed_fits p m s1 e1 s2 e2 : dlen B s2 <= p \/ s1 <> 0 ->
  ctx_sub_fixed B digits_ub p m s1 e1 s2 e2 = ctx_sub B digits_ub p m s1 e1 s2 e2.
Proof.
  intros H. unfold ctx_sub_fixed, ctx_sub. destruct (Z.eqb_spec s1 0) as [Hz|Hn]; [|reflexivity].
  destruct H as [H|H]; [|contradiction].
  rewrite !(repr_round_exact B) by (rewrite ?dlen_opp; exact H). reflexivity.
Qed.

(** an effective addition of operands of any length is outside the class: it meets the contract *)
Theorem add_short_class_same_sign p s1 e1 s2 e2 sg :
  1 <= p -> 0 < s1 * (sgnz sg * s2) -> add_short_class B p s1 e1 s2 e2 sg = false.
Proof.
  intros Hp Hs. unfold add_short_class.
  destruct (Z.eqb_spec p 0) as [|_]; [reflexivity|]. destruct (Z.eqb_spec s1 0) as [|H1]; [reflexivity|].
  destruct (Z.eqb_spec s2 0) as [|H2]; [reflexivity|]. cbn [orb].
  destruct (is_sub_spec B B_ge_2 s1 s2 sg H1 H2) as [Ha Hb].
  destruct (negb (sign_eqb (sign_of s1) (sign_mul sg (sign_of s2)))) eqn:Eis; [specialize (Hb eq_refl); lia|].
  assert (H2' : sgnz sg * s2 <> 0) by (destruct sg; cbn [sgnz]; lia).
  destruct (Z.compare_spec e1 e2) as [Heq|Hlt|Hgt]; [reflexivity| |];
    apply add_core_short_add; try assumption; lia.
Qed.

End AddLong.

(** finding add_overlong_cancellation: Context::<Zero>::new(2).sub(11e5, 1099999e0) = 0 flagged SubOne, the exact
    difference is 1 (the operand 1099999 has 7 digits: outside the premise of the property, inside the class) *)
Lemma add_overlong_refuted :
  add_short_class 10 2 11 5 1099999 0 Negative = true /\
  ctx_sub_fixed_x 10 2 MZero 11 5 1099999 0 = AInexact 0 3 SubOne /\
  exact_sum 10 11 5 1099999 0 Negative = 1 /\
  ~ rounded_sum 10 2 MZero 1 0 (AInexact 0 3 SubOne).
Proof.
  repeat split; try (vm_compute; reflexivity).
  cbn [rounded_sum]. intros (_ & _ & _ & _ & _ & H & _). revert H. vm_compute. intros H. apply H. reflexivity.
Qed.

(** non-vacuity: over-long operands outside the class (12345 + 67891e3 and 12345e3 - 67891 at two digits), the
    repaired zero shortcut of Context::sub *)
Example add_long_nonvacuous :
  add_short_class 10 2 12345 0 67891 3 Positive = false /\ ctx_add_x 10 2 MHalfEven 12345 0 67891 3 = AInexact 68 6 AddOne /\
  add_short_class 10 2 12345 3 (-67891) 0 Positive = false /\ ctx_add_x 10 2 MHalfEven 12345 3 (-67891) 0 = AInexact 123 5 AddOne /\
  ctx_sub_fixed_x 10 2 MUp 0 0 1235 0 = AInexact (-12) 2 NoOp /\ 12345 mod 10 <> 0 /\ 2 < dlen 10 12345.
Proof. vm_compute. repeat split; discriminate. Qed.
