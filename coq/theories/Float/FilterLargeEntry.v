(** C10 round 4: FBig::to_int and FBig::with_precision with the f32-filtered primitive AS WRITTEN (Flocq binary32,
    TypedReprRef::log2_bounds from any sound double-word bounds, any sound bounds of the base) at EVERY exponent and
    EVERY number of removed digits: the entry-point theorems of round 3 (any rf that agrees with the exact comparison below
    K digits) combined with FilterLargeProof.round_fract_flocq32_all (the filter agrees at every digit count for fractions
    of fewer than 2^34 bits).  The fraction handed to the primitive is never longer than the significand. *)
From Coq Require Import ZArith QArith Reals Qreals Lia Bool.
From Dashu Require Import Base.Prelude Float.RoundSpec Float.Contract Float.Model Float.RoundOpsModel Float.RoundOpsDeep
  Float.RoundOpsDeepProof Float.DivMulModel Float.FilterProof Float.F32Flocq Float.FilterLargeProof.
From DashuGen Require Import RoundTables.
Open Scope Z_scope.

Lemma rem_abs_le a b : Z.abs (Z.rem a b) <= Z.abs a.
Proof.
  destruct (Z.eq_dec b 0) as [->|Hb]; [rewrite Z.rem_0_r_ext by reflexivity; lia|].
  rewrite <- Z.rem_abs by exact Hb.
  destruct (Z.eq_dec a 0) as [->|Ha]; [rewrite Z.rem_0_l by lia; lia|].
  apply Z.rem_le; lia.
Qed.

Lemma log2_abs_mono a b : Z.abs a <= Z.abs b -> Z.log2 (Z.abs a) <= Z.log2 (Z.abs b).
Proof. apply Z.log2_le_mono. Qed.

Section Entry.
Variable lbs ubs : Z -> Q.
Hypothesis dword_sound : forall h, 0 < h < 2 ^ 128 -> (Q2R (lbs h) <= log2R (IZR h) <= Q2R (ubs h))%R.
Variable B : Z.
Hypothesis B_ge_2 : 2 <= B.
Variable b_lb b_ub : Q.
Hypothesis b_sound : (Q2R b_lb <= log2R (IZR B) <= Q2R b_ub)%R.

(** Round::round_fract as written *)
Definition rf32 : mode -> Z -> Z -> Z -> rounding :=
  round_fract_f32 fl32 cvt32 (ubig_lb32 lbs) (ubig_ub32 ubs) b_lb b_ub c999_32 c1001_32 B.

(** the same, guarded by the size bound of the filter theorem: agrees with the exact comparison EVERYWHERE *)
Definition rf_guard (m : mode) (i f k : Z) : rounding :=
  if Z.log2 (Z.abs f) <? 2 ^ 34 then rf32 m i f k else round_fract B m i f k.

Lemma rf_guard_ok m i f k : 0 <= k -> rf_guard m i f k = round_fract B m i f k.
Proof.
  intros Hk. unfold rf_guard. destruct (Z.ltb_spec (Z.log2 (Z.abs f)) (2 ^ 34)) as [H|H]; [|reflexivity].
  apply (round_fract_flocq32_all lbs ubs dword_sound B B_ge_2 b_lb b_ub b_sound); assumption.
Qed.

Lemma rf_guard_small m i f k s : Z.abs f <= Z.abs s -> Z.log2 (Z.abs s) < 2 ^ 34 -> rf_guard m i f k = rf32 m i f k.
Proof.
  intros Hf Hs. unfold rf_guard. pose proof (log2_abs_mono f s Hf).
  destruct (Z.ltb_spec (Z.log2 (Z.abs f)) (2 ^ 34)); [reflexivity | lia].
Qed.

Lemma split_internal_lo dub p s e :
  let '(hi, lo, k) := split_internal B dub false p s e in Z.abs lo <= Z.abs s.
Proof.
  unfold split_internal. destruct (smaller_than_one dub s e); [lia|].
  unfold split_digits. apply rem_abs_le.
Qed.

(** FBig::to_int: any exponent, significands of fewer than 2^34 bits *)
Theorem to_int_f32_any_exponent dub : (forall s, dlen B s <= dub s) ->
  forall m p s e, is_inf s e = false -> (e < 0 -> s mod B <> 0) -> Z.log2 (Z.abs s) < 2 ^ 34 ->
  to_int_full B dub rf32 m p s e = Ok (to_int_spec B m s e).
Proof.
  intros Hd m p s e Hf Hn Hs.
  assert (E : to_int_full B dub rf32 m p s e = to_int_full B dub rf_guard m p s e).
  { unfold to_int_full, to_int_rf. f_equal. destruct (0 <=? e); [reflexivity|].
    pose proof (split_internal_lo dub p s e) as L. destruct (split_internal B dub false p s e) as [[hi lo] k].
    unfold round_fract_chk_rf. rewrite (rf_guard_small m hi lo k s L Hs). reflexivity. }
  rewrite E.
  pose proof (entry_points_spec B B_ge_2 dub Hd rf_guard (- e + 1)
                (fun m i f k H => rf_guard_ok m i f k (proj1 H)) p s e Hf ltac:(lia) Hn) as S.
  exact (proj1 (proj2 (proj2 (proj2 (proj2 S)))) m).
Qed.

(** FBig::with_precision: any number of removed digits, significands of fewer than 2^34 bits *)
Theorem with_precision_f32_any m p s e np : is_inf s e = false -> 0 <= p -> 0 <= np -> (p = 0 \/ dlen B s <= p) ->
  Z.log2 (Z.abs s) < 2 ^ 34 ->
  with_precision_full B rf32 m p s e np = Ok (norm_approx B (with_precision_spec B m s e np)).
Proof.
  intros Hf Hp Hnp Hl Hs.
  assert (E : with_precision_full B rf32 m p s e np = with_precision_full B rf_guard m p s e np).
  { unfold with_precision_full. destruct ((p =? 0) || (p >? np)); [|reflexivity]. f_equal. f_equal.
    unfold repr_round_rf. destruct (np =? 0); [reflexivity|]. cbv zeta.
    destruct (dlen B s >? np); [|reflexivity].
    pose proof (rem_abs_le s (B ^ (dlen B s - np))) as L. unfold split_digits.
    unfold round_fract_chk_rf. rewrite (rf_guard_small m _ _ (dlen B s - np) s L Hs). reflexivity. }
  rewrite E.
  apply (with_precision_full_spec B B_ge_2 rf_guard (dlen B s - np + 1)
           (fun m i f k H => rf_guard_ok m i f k (proj1 H))); try assumption. lia.
Qed.
End Entry.

(** non-vacuity of the size bound and of the guard *)
Example filter_entry_example : Z.log2 (Z.abs (-12345)) < 2 ^ 34 /\ Z.abs (Z.rem (-12345) 100) <= Z.abs (-12345).
Proof. split; [vm_compute; reflexivity | vm_compute; discriminate]. Qed.
