(** C08 proofs, part 4: scientific notation.  The as-is model of Repr::fmt_round_scientific (LowerExp /
    UpperExp, after the repair of finding F03) prints the specified text: one digit, the point, exactly
    the requested number of fractional digits of the significand rounded by spec_round, the marker and
    the decimal exponent of the leading digit. *)
From Dashu Require Import Base.Prelude Float.RoundSpec Float.RoundSpecProof Float.Contract Float.Model Float.ModelProof
  Int.IoSpec Int.IoDigits Float.TextIoSpec Float.TextIoModel Float.BaseConvProof Float.TextIoProof.
From DashuGen Require Import RoundTables.
Open Scope Z_scope.

Section Sci.
Variable B : Z.
Hypothesis B_ge_2 : 2 <= B.
Local Notation pw := (Bpow_pos B B_ge_2).

Lemma map_char_zeros_u u n : map (digit_char u) (repeat 0 n) = repeat 48 n.
Proof. induction n as [|n IH]; [reflexivity|]. cbn [repeat map]. rewrite IH. destruct u; reflexivity. Qed.

Lemma dtext_mul_pow_u u a k : 0 < a -> 0 <= k -> dtext u B (a * B ^ k) = dtext u B a ++ zeros k.
Proof.
  intros Ha Hk. unfold dtext, digit_text. rewrite <- (Z2Nat.id k Hk) at 1. rewrite (digits_mul_pow B B_ge_2) by lia.
  rewrite map_app, map_char_zeros_u. reflexivity.
Qed.

(** the number of printed digits is the digit count *)
Lemma dtext_len u a : 0 < a -> len (dtext u B a) = dlen B a.
Proof.
  intros Ha. unfold dtext, digit_text. rewrite len_map. symmetry.
  pose proof (canonical_len_value B B_ge_2 _ (digits_spec_canonical B B_ge_2 a ltac:(lia))) as C.
  rewrite digits_spec_value in C by lia. specialize (C ltac:(lia)).
  assert (1 <= len (digits_spec B a)).
  { pose proof (digits_spec_nonempty B B_ge_2 a). destruct (digits_spec B a); [contradiction | rewrite len_cons; pose proof (len_nonneg l); lia]. }
  apply (dlen_unique B B_ge_2); [exact H | rewrite Z.abs_eq by lia; exact C].
Qed.

Lemma tl_skipn {A} (l : list A) : skipn 1 l = tl l.
Proof. destruct l; reflexivity. Qed.

Lemma zeros_len n : 0 <= n -> len (zeros n) = n.
Proof. intros. unfold zeros, len. rewrite repeat_length. lia. Qed.

Lemma zeros_0 : zeros 0 = [].
Proof. reflexivity. Qed.

(** the rounded significand of the scientific form, and when it carries *)
Lemma sci_rounded_spec m s e p : 0 <= p -> s <> 0 ->
  sci_rounded B m s e (Some p) = (let '(a, x) := sci_round B m s e p in
                                  if dlen B s <=? p + 1 then (s, e) else ((if s <? 0 then - a else a), x)) /\
  (p + 1 < dlen B s -> let '(a, x) := sci_round B m s e p in B ^ p <= a < B ^ (p + 1)).
Proof.
  intros Hp Hs. unfold sci_rounded, sci_round. cbv zeta.
  destruct (Z.ltb_spec (p + 1 - dlen B s) 0) as [Hd|Hd]; destruct (Z.leb_spec (dlen B s) (p + 1)); try lia.
  2:{ split; [reflexivity | lia]. }
  cbn [split_digits]. set (k := - (p + 1 - dlen B s)). replace (dlen B s - (p + 1)) with k by (unfold k; lia).
  pose proof (pw k ltac:(unfold k; lia)) as Hk.
  assert (Hrem : Z.abs (Z.rem s (B ^ k)) < B ^ k).
  { pose proof (Z.rem_bound_abs s (B ^ k) ltac:(lia)) as Hb. rewrite (Z.abs_eq (B ^ k)) in Hb by lia. exact Hb. }
  rewrite (round_fract_spec B B_ge_2 m _ _ k ltac:(unfold k; lia) Hrem).
  replace (Z.quot s (B ^ k) * B ^ k + Z.rem s (B ^ k)) with s by (pose proof (Z.quot_rem' s (B ^ k)); lia).
  set (r := spec_round m s (B ^ k)).
  (* B^p <= |r| <= B^(p+1), and r has the sign of s *)
  pose proof (repr_round_digits B B_ge_2 (p + 1) m s e ltac:(lia) ltac:(lia)) as D. cbv zeta in D.
  rewrite (repr_round_inexact B B_ge_2 (p + 1) m s e ltac:(lia) ltac:(lia)) in D. cbn [approx_sig] in D.
  replace (dlen B s - (p + 1)) with k in D by (unfold k; lia). fold r in D.
  replace (p + 1 - 1) with p in D by lia.
  pose proof (pw p Hp) as Hpp. pose proof (pw (p + 1) ltac:(lia)) as Hpp1.
  assert (Sr : (s < 0 -> r < 0) /\ (0 < s -> 0 < r)).
  { pose proof (spec_round_error m s (B ^ k) Hk) as [E _]. cbv zeta in E. fold r in E. split; intros; nia. }
  assert (Epow : B ^ (p + 1) = B * B ^ p) by (rewrite Z.pow_add_r, Z.pow_1_r by lia; ring).
  destruct (Z.eqb_spec (Z.abs r) (B ^ (p + 1))) as [Ec|Ec].
  - (* carry *)
    assert (Hdl : dlen B r = p + 2).
    { apply (dlen_unique B B_ge_2); [lia|]. rewrite Ec. replace (p + 2 - 1) with (p + 1) by lia.
      replace (p + 2) with (p + 1 + 1) by lia. rewrite (Z.pow_add_r B (p + 1) 1), Z.pow_1_r by lia. nia. }
    rewrite Hdl. destruct (Z.ltb_spec (p + 1) (p + 2)); [|lia]. split.
    + f_equal; try (unfold k; lia). destruct (Z.ltb_spec s 0).
      * assert (Er : r = - (B ^ p * B)) by lia. rewrite Er. rewrite Z.quot_opp_l, Z.quot_mul by lia. reflexivity.
      * assert (Er : r = B ^ p * B) by lia. rewrite Er. rewrite Z.quot_mul by lia. reflexivity.
    + intros _. rewrite Epow. nia.
  - assert (Hdl : dlen B r = p + 1).
    { apply (dlen_unique B B_ge_2); [lia|]. replace (p + 1 - 1) with p by lia. lia. }
    rewrite Hdl, Z.ltb_irrefl. split.
    + f_equal; try (unfold k; lia). destruct (Z.ltb_spec s 0); lia.
    + intros _. lia.
Qed.

(** LowerExp / UpperExp without padding: the as-is text = the specification, for every normalised
    float, every mode, every precision option *)
Theorem sci_body_asis_spec m upper s e prec : (s = 0 -> e = 0) -> (forall p, prec = Some p -> 0 <= p) ->
  sci_body_asis B m upper s e prec = sci_body_spec B m upper s e prec.
Proof.
  intros Hz Hp. unfold sci_body_asis, sci_body_spec.
  assert (Hd1 : forall a, 0 < a -> exists c t, dtext upper B a = c :: t /\ len t = dlen B a - 1).
  { intros a Ha. pose proof (dtext_len upper a Ha) as L. destruct (dtext upper B a) as [|c t] eqn:E.
    - cbn in L. destruct (dlen_spec B B_ge_2 a ltac:(lia)) as [_ G]. lia.
    - exists c, t. split; [reflexivity|]. rewrite len_cons in L. lia. }
  destruct prec as [p|].
  - specialize (Hp p eq_refl). destruct (Z.eqb_spec s 0) as [->|Hs].
    + (* zero *)
      specialize (Hz eq_refl). subst e.
      unfold sci_rounded. rewrite dlen_zero by exact B_ge_2. destruct (Z.ltb_spec (p + 1 - 0) 0); [lia|].
      unfold sci_layout. cbn [Z.ltb Z.compare andb Z.abs]. replace (dtext upper B 0) with [48] by (unfold dtext, digit_text; cbn; destruct upper; reflexivity).
      cbn [firstn skipn len length Z.of_nat Z.eqb app Z.add Z.sub Z.opp].
      rewrite Z.sub_0_r. destruct (Z.ltb_spec 0 p).
      * rewrite zeros_len by lia. destruct (Z.eqb_spec p 0); [lia|]. reflexivity.
      * assert (p = 0) by lia. subst p. reflexivity.
    + destruct (sci_rounded_spec m s e p Hp Hs) as [R Bd]. rewrite R. clear R.
      destruct (sci_round B m s e p) as [a x] eqn:ER.
      destruct (Z.leb_spec (dlen B s) (p + 1)) as [Hd|Hd].
      * (* enough room: the digits of s, then zeros *)
        unfold sci_round in ER. destruct (Z.leb_spec (dlen B s) (p + 1)); [|lia]. inversion ER; subst a x. clear ER.
        destruct (dlen_spec B B_ge_2 s Hs) as [_ G]. set (d := dlen B s) in *.
        unfold sci_layout.
        assert (Es : (s <? 0) && (s =? 0) = false) by (destruct (Z.eqb_spec s 0); [contradiction | apply andb_false_r]).
        rewrite Es. destruct (Hd1 (Z.abs s) ltac:(lia)) as (c & t & ED & Lt).
        rewrite dtext_mul_pow_u by lia. rewrite ED.
        replace (dlen B (Z.abs s)) with d in Lt by (unfold d, dlen; rewrite Z.abs_involutive; reflexivity).
        cbn [firstn skipn app tl]. rewrite !len_cons, len_app, zeros_len, Lt by lia.
        pose proof (pw (p + 1 - d) ltac:(lia)).
        destruct (Z.eqb_spec (Z.abs s * B ^ (p + 1 - d)) 0); [nia|].
        replace (e - (p + 1 - d) + (d - 1 + (p + 1 - d) + 1) - 1) with (e + (d - 1 + 1) - 1) by lia.
        f_equal. destruct (Z.eqb_spec (d - 1) 0) as [E0|E0].
        -- assert (t = []) by (destruct t; [reflexivity | rewrite len_cons in Lt; pose proof (len_nonneg t); lia]). subst t.
           replace (p - (d - 1)) with p by lia. replace (p + 1 - d) with p by lia. replace (d - 1 + p) with p by lia.
           cbn [app]. destruct (Z.ltb_spec 0 p), (Z.eqb_spec p 0); try lia; reflexivity.
        -- destruct (Z.eqb_spec (d - 1 + (p + 1 - d)) 0); [lia|]. destruct (Z.ltb_spec 0 p); [|lia].
           cbn [app]. replace (p - (d - 1)) with (p + 1 - d) by lia. rewrite <- !app_assoc. reflexivity.
      * (* rounded to p + 1 digits *)
        specialize (Bd Hd). cbv iota beta in Bd.
        unfold sci_layout.
        assert (Ea : Z.abs (if s <? 0 then - a else a) = a) by (destruct (s <? 0); lia).
        assert (En : ((if s <? 0 then - a else a) =? 0) = false) by (apply Z.eqb_neq; pose proof (pw p Hp); destruct (s <? 0); lia).
        rewrite En, andb_false_r, Ea.
        assert (Hdl : dlen B a = p + 1).
        { apply (dlen_unique B B_ge_2); [lia|]. replace (p + 1 - 1) with p by lia. pose proof (pw p Hp). lia. }
        pose proof (pw p Hp). destruct (Hd1 a ltac:(lia)) as (c & t & ED & Lt). rewrite Hdl in Lt. rewrite ED.
        cbn [firstn skipn tl]. rewrite !len_cons, Lt. replace (p + 1 - 1) with p by lia.
        destruct (Z.eqb_spec a 0); [lia|]. f_equal.
        destruct (Z.eqb_spec p 0) as [->|]; cbn [Z.ltb Z.compare].
        -- reflexivity.
        -- destruct (Z.ltb_spec 0 p); [|lia]. rewrite Z.sub_diag, zeros_0. reflexivity.
  - (* no precision option *)
    unfold sci_rounded, sci_layout.
    assert (Es : (s <? 0) && (s =? 0) = false) by (destruct (Z.ltb_spec s 0); [destruct (Z.eqb_spec s 0); [lia | reflexivity] | reflexivity]).
    rewrite Es. cbn [Z.ltb Z.compare]. rewrite tl_skipn. cbn [app].
    destruct (Z.eqb_spec (Z.abs s) 0) as [E0|E0]; [|reflexivity].
    assert (s = 0) by lia. subst s. rewrite (Hz eq_refl). cbn [Z.abs].
    assert (L1 : len (dtext upper B 0) = 1) by reflexivity. rewrite L1. reflexivity.
Qed.

End Sci.
