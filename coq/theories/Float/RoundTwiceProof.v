(** C10 round 3: rounding twice versus rounding once.

    x.with_precision(p1).with_precision(p2), with_precision after an arithmetic operation, a conversion followed by
    with_precision ... round an already rounded value.  For the four DIRECTED modes (Zero, Down, Up, Away) the
    composition is the single rounding of the original value (for every pair of positions); for the two NEAREST modes
    it is not (witnesses), so only the single steps are roundings in the sense of the contract.  Which API
    compositions are single roundings is stated in RoundOpsDeepProof.v (with_rounding + with_precision,
    same-base conversion). *)
From Dashu Require Import Base.Prelude Float.RoundSpec Float.RoundSpecProof Float.Contract Float.Model
  Float.RoundOpsModel Float.RoundOpsDeep.
From DashuGen Require Import RoundTables.
Open Scope Z_scope.

Definition is_directed (m : mode) : bool := negb (is_half_mode m).

Lemma abs_mul_ge r d : 0 < d -> r <> 0 -> d <= Z.abs (r * d).
Proof.
  intros Hd Hr. rewrite Z.abs_mul, (Z.abs_eq d) by lia.
  assert (1 * d <= Z.abs r * d) by (apply Z.mul_le_mono_nonneg_r; lia). lia.
Qed.

(** away from zero is "up" for non-negative and "down" for non-positive values *)
Lemma away_nonneg N d : 0 < d -> 0 <= N -> spec_round MAway N d = spec_round MUp N d.
Proof.
  intros Hd HN. apply ceil_unique; [exact Hd|].
  pose proof (spec_round_error MAway N d Hd) as [E _]. pose proof (spec_round_side MAway N d Hd) as S.
  cbv zeta in E. cbn [side_ok] in S. set (r := spec_round MAway N d) in *. clearbody r.
  destruct (Z.eq_dec r 0) as [->|Hr]; [rewrite Z.mul_0_l in *; lia|].
  pose proof (abs_mul_ge r d Hd Hr). lia.
Qed.

Lemma away_nonpos N d : 0 < d -> N <= 0 -> spec_round MAway N d = spec_round MDown N d.
Proof.
  intros Hd HN. apply floor_unique; [exact Hd|].
  pose proof (spec_round_error MAway N d Hd) as [E _]. pose proof (spec_round_side MAway N d Hd) as S.
  cbv zeta in E. cbn [side_ok] in S. set (r := spec_round MAway N d) in *. clearbody r.
  destruct (Z.eq_dec r 0) as [->|Hr]; [rewrite Z.mul_0_l in *; lia|].
  pose proof (abs_mul_ge r d Hd Hr). lia.
Qed.

Lemma up_nonneg N d : 0 < d -> 0 <= N -> 0 <= spec_round MUp N d.
Proof.
  intros Hd HN. pose proof (spec_round_side MUp N d Hd) as S. cbn [side_ok] in S.
  destruct (Z.le_gt_cases 0 (spec_round MUp N d)) as [|G]; [assumption|exfalso].
  assert (spec_round MUp N d * d <= (-1) * d) by (apply Z.mul_le_mono_nonneg_r; lia). lia.
Qed.

Lemma down_nonpos N d : 0 < d -> N <= 0 -> spec_round MDown N d <= 0.
Proof.
  intros Hd HN. pose proof (spec_round_side MDown N d Hd) as S. cbn [side_ok] in S.
  destruct (Z.le_gt_cases (spec_round MDown N d) 0) as [|G]; [assumption|exfalso].
  assert (1 * d <= spec_round MDown N d * d) by (apply Z.mul_le_mono_nonneg_r; lia). lia.
Qed.

Lemma down_twice N d1 d2 : 0 < d1 -> 0 < d2 -> spec_round MDown (spec_round MDown N d1) d2 = spec_round MDown N (d1 * d2).
Proof. intros H1 H2. cbn [spec_round]. apply Z.div_div; lia. Qed.

Lemma up_twice N d1 d2 : 0 < d1 -> 0 < d2 -> spec_round MUp (spec_round MUp N d1) d2 = spec_round MUp N (d1 * d2).
Proof. intros H1 H2. cbn [spec_round]. rewrite Z.opp_involutive. f_equal. apply Z.div_div; lia. Qed.

(** the four directed modes: rounding the rounded value is rounding the original - at ANY two positions *)
Theorem directed_rounding_twice m N d1 d2 : is_directed m = true -> 0 < d1 -> 0 < d2 ->
  spec_round m (spec_round m N d1) d2 = spec_round m N (d1 * d2).
Proof.
  intros Hm H1 H2. assert (H12 : 0 < d1 * d2) by (apply Z.mul_pos_pos; assumption).
  destruct m; try discriminate Hm.
  - cbn [spec_round]. apply Z.quot_quot; lia.
  - destruct (Z.le_gt_cases 0 N) as [HN|HN].
    + rewrite (away_nonneg N d1 H1 HN), (away_nonneg N (d1 * d2) H12 HN).
      rewrite (away_nonneg _ d2 H2 (up_nonneg N d1 H1 HN)). apply up_twice; assumption.
    + rewrite (away_nonpos N d1 H1 ltac:(lia)), (away_nonpos N (d1 * d2) H12 ltac:(lia)).
      rewrite (away_nonpos _ d2 H2 (down_nonpos N d1 H1 ltac:(lia))). apply down_twice; assumption.
  - apply up_twice; assumption.
  - apply down_twice; assumption.
Qed.

(** in digit positions: dropping k1 digits and then k2 more = dropping k1 + k2 at once *)
Corollary directed_digits_twice B m s k1 k2 : 2 <= B -> is_directed m = true -> 0 <= k1 -> 0 <= k2 ->
  spec_round m (spec_round m s (B ^ k1)) (B ^ k2) = spec_round m s (B ^ (k1 + k2)).
Proof.
  intros HB Hm H1 H2. rewrite Z.pow_add_r by assumption.
  apply directed_rounding_twice; try assumption; apply Z.pow_pos_nonneg; lia.
Qed.

(** the nearest modes: NOT the contract.  2.449 -> 2.45 -> 2.5 but 2.449 -> 2.4 (HalfAway);
    2.549 -> 2.55 -> 2.6 but 2.549 -> 2.5 (HalfEven); and through the as-is model of FBig::with_precision *)
Theorem nearest_rounding_twice_refuted :
  spec_round MHalfAway (spec_round MHalfAway 2449 10) 10 = 25 /\ spec_round MHalfAway 2449 (10 * 10) = 24 /\
  spec_round MHalfEven (spec_round MHalfEven 2549 10) 10 = 26 /\ spec_round MHalfEven 2549 (10 * 10) = 25 /\
  with_precision_twice 10 (round_fract 10) MHalfAway 4 2449 (-3) 3 2
    = Ok (AInexact 245 (-2) AddOne, AInexact 25 (-1) AddOne) /\
  with_precision_full 10 (round_fract 10) MHalfAway 4 2449 (-3) 2 = Ok (AInexact 24 (-1) NoOp).
Proof. repeat split; vm_compute; reflexivity. Qed.

Example directed_twice_example :
  spec_round MAway (spec_round MAway (-2401) 10) 10 = -25 /\ spec_round MAway (-2401) 100 = -25 /\
  with_precision_twice 10 (round_fract 10) MUp 4 2401 (-3) 3 2
    = Ok (AInexact 241 (-2) AddOne, AInexact 25 (-1) AddOne) /\
  with_precision_full 10 (round_fract 10) MUp 4 2401 (-3) 2 = Ok (AInexact 25 (-1) AddOne).
Proof. repeat split; vm_compute; reflexivity. Qed.
