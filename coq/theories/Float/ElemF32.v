(** C11: the f32 estimate layer the elementary functions read (as-is, definitions only).

    exp.rs / log.rs / fbig.rs decide working precisions, the scaling branch and the series stop
    criterion through [EstimatedLog2] values computed in f32 (base/src/math/log.rs [std] variant,
    integer/src/log.rs, float/src/log.rs, float/src/repr.rs digits_lb).  The arithmetic of f32 is
    NOT modelled: the models below are written over an abstract carrier [F] with the operations the
    code uses ([f32ops]); theorems quantify over EVERY [f32ops] (so they cannot depend on how f32
    rounds or on libm's log2f), the oracle instantiates it with IEEE single arithmetic.

    [W] is the word size in bits (UBig keeps values below 2^(2W) inline as a DoubleWord). *)
From Dashu Require Import Base.Prelude.
Open Scope Z_scope.

Record f32ops (F : Type) := mk_f32ops {
  f_of_Z : Z -> F;              (* integer `as f32` (round to nearest even); also integer-valued literals *)
  f_log2 : F -> F;              (* f32::log2 *)
  f_add : F -> F -> F;
  f_sub : F -> F -> F;
  f_mul : F -> F -> F;
  f_div : F -> F -> F;
  f_neg : F -> F;
  f_ltb : F -> F -> bool;       (* < *)
  f_to_usize : F -> Z;          (* `as usize`: truncation, saturating (negative and NaN -> 0) *)
  f_to_isize : F -> Z;          (* `as isize`: truncation, saturating *)
  f_next_up : F -> F;           (* dashu_base::utils::next_up *)
  f_next_down : F -> F;
  f_log10_2 : F;                (* core::f32::consts::LOG10_2 *)
  f_epsilon : F;                (* f32::EPSILON *)
  f_neg_inf : F                 (* f32::NEG_INFINITY *)
}.
Arguments f_of_Z {F} _ _. Arguments f_log2 {F} _ _. Arguments f_add {F} _ _ _. Arguments f_sub {F} _ _ _.
Arguments f_mul {F} _ _ _. Arguments f_div {F} _ _ _. Arguments f_neg {F} _ _. Arguments f_ltb {F} _ _ _.
Arguments f_to_usize {F} _ _. Arguments f_to_isize {F} _ _. Arguments f_next_up {F} _ _.
Arguments f_next_down {F} _ _. Arguments f_log10_2 {F} _. Arguments f_epsilon {F} _. Arguments f_neg_inf {F} _.

(** BitTest::bit_len of a primitive / UBig / IBig (magnitude) *)
Definition bit_len (x : Z) : Z := if x =? 0 then 0 else Z.log2 (Z.abs x) + 1.
Definition is_pow2 (x : Z) : bool := (0 <? x) && (x =? 2 ^ Z.log2 x).

Section Est.
Context {F : Type} (O : f32ops F).
Variable W : Z.

(** base/src/math/log.rs, impl_log2_bounds_for_uint ([std]): u8 .. u128, usize *)
Definition uint_log2_bounds (x : Z) : F * F :=
  if x =? 0 then (f_neg_inf O, f_neg_inf O)
  else if is_pow2 x then let l := f_of_Z O (Z.log2 x) in (l, l)
  else
    let nbits := Z.log2 x + 1 in
    if nbits <=? 24 then
      let l := f_log2 O (f_of_Z O x) in (f_next_down O l, f_next_up O l)
    else
      let shifted := f_of_Z O (Z.shiftr x (nbits - 24)) in
      let est_lb := f_log2 O shifted in
      let est_ub := f_log2 O (f_add O shifted (f_of_Z O 1)) in
      let shift := f_of_Z O (nbits - 24) in
      (f_next_down O (f_add O est_lb shift), f_next_up O (f_add O est_ub shift)).

(** the override of log2_est for the unsigned primitives: `self as f32` then f32::log2 *)
Definition uint_log2_est (x : Z) : F := f_log2 O (f_of_Z O x).

(** integer/src/log.rs repr::log2_bounds: RefSmall(dword) | RefLarge(words) -> log2_bounds_large *)
Definition ubig_log2_bounds (x : Z) : F * F :=
  if x <? 2 ^ (2 * W) then uint_log2_bounds x
  else
    let len := (bit_len x + W - 1) / W in
    let rem_bits := (len - 2) * W in
    let hi := Z.shiftr x rem_bits in
    let '(hi_lb, hi_ub) := uint_log2_bounds hi in
    let adjust := f_mul O (f_of_Z O 2) (f_epsilon O) in
    (f_mul O (f_add O hi_lb (f_of_Z O rem_bits)) (f_sub O (f_of_Z O 1) adjust),
     f_mul O (f_add O hi_ub (f_of_Z O rem_bits)) (f_add O (f_of_Z O 1) adjust)).

(** EstimatedLog2::log2_est default body: (lb + ub) / 2. - what IBig / UBig use *)
Definition ubig_log2_est (x : Z) : F :=
  let '(lb, ub) := ubig_log2_bounds x in f_div O (f_add O lb ub) (f_of_Z O 2).

(** float/src/log.rs, impl EstimatedLog2 for Repr<B> (significand s <> 0, exponent e) *)
Definition base_log2_est (B : Z) : F :=
  if is_pow2 B then f_of_Z O (Z.log2 B) else uint_log2_est B.

Definition repr_log2_est (B s e : Z) : F :=
  if s =? 0 then f_neg_inf O       (* log2_bounds of zero: (-inf, -inf); never reached by exp / ln *)
  else f_add O (ubig_log2_est (Z.abs s)) (f_mul O (f_of_Z O e) (base_log2_est B)).

Definition repr_log2_bounds (B s e : Z) : F * F :=
  if s =? 0 then (f_neg_inf O, f_neg_inf O)
  else
    let '(logs_lb, logs_ub) := ubig_log2_bounds (Z.abs s) in
    let '(logb_lb, logb_ub) :=
      if is_pow2 B then let l := f_of_Z O (Z.log2 B) in (l, l) else uint_log2_bounds B in
    let ef := f_of_Z O e in
    let '(lb, ub) :=
      if 0 <=? e then (f_add O logs_lb (f_mul O ef logb_lb), f_add O logs_ub (f_mul O ef logb_ub))
      else (f_add O logs_lb (f_mul O ef logb_ub), f_add O logs_ub (f_mul O ef logb_lb)) in
    (f_next_down O lb, f_next_up O ub).

(** float/src/repr.rs Repr::digits_lb *)
Definition digits_lb (B s : Z) : Z :=
  if s =? 0 then 0
  else
    let lb := fst (ubig_log2_bounds (Z.abs s)) in
    let log :=
      if B =? 2 then lb
      else if B =? 10 then f_mul O lb (f_log10_2 O)
      else f_div O lb (snd (ubig_log2_bounds B)) in
    f_to_usize O log.

End Est.
