(** Soundness of the executable contract checker Contract.check_contract for rational exact values:
    if it answers [true] then the Prop-level clauses of the documented rounding contract hold for the
    real numbers  r = s * B^e  and  x = N / D.

    Reals are used for the statement only (powerRZ for B^j with j of either sign); every step is an
    integer cross-multiplication. *)
From Coq Require Import ZArith Reals Lra Lia Bool.
From Dashu Require Import Base.Prelude Float.RoundSpec Float.Contract Float.ModelProof.
From DashuGen Require Import RoundTables.
Open Scope Z_scope.

Section ContractSound.
Variable B : Z.
Hypothesis B_ge_2 : 2 <= B.

Definition bpow (j : Z) : R := powerRZ (IZR B) j.
Definition fval (a j : Z) : R := (IZR a * bpow j)%R.        (* the float a * B^j *)
Definition xrat (N D : Z) : R := (IZR N / IZR D)%R.          (* the exact value N / D *)

Lemma IZR_B_pos : (0 < IZR B)%R.
Proof. apply IZR_lt. lia. Qed.

Lemma IZR_B_neq : IZR B <> 0%R.
Proof. pose proof IZR_B_pos. lra. Qed.

Lemma bpow_pos j : (0 < bpow j)%R.
Proof. apply powerRZ_lt. exact IZR_B_pos. Qed.

Lemma bpow_add i j : bpow (i + j) = (bpow i * bpow j)%R.
Proof. apply powerRZ_add. exact IZR_B_neq. Qed.

Lemma bpow_neg j : bpow (- j) = (/ bpow j)%R.
Proof. apply powerRZ_neg'. Qed.

Lemma bpow_Z j : 0 <= j -> bpow j = IZR (B ^ j).
Proof.
  intros Hj. unfold bpow. rewrite <- (Z2Nat.id j Hj) at 1. rewrite <- pow_powerRZ, pow_IZR, Z2Nat.id by exact Hj. reflexivity.
Qed.

Lemma bpow_0 : bpow 0 = 1%R.
Proof. reflexivity. Qed.

Lemma bpow_le i j : i <= j -> (bpow i <= bpow j)%R.
Proof.
  intros H. replace j with (i + (j - i)) by lia. rewrite bpow_add, (bpow_Z (j - i)) by lia.
  pose proof (bpow_pos i). assert (1 <= IZR (B ^ (j - i)))%R.
  { apply IZR_le. pose proof (Z.pow_pos_nonneg B (j - i) ltac:(lia) ltac:(lia)). lia. }
  nra.
Qed.

(** comparing after multiplication by a positive factor *)
Lemma cmp_scale (u v c : R) (a b : Z) : (0 < c)%R -> IZR a = (u * c)%R -> IZR b = (v * c)%R ->
  match a ?= b with Eq => u = v | Lt => (u < v)%R | Gt => (u > v)%R end.
Proof.
  intros Hc Ea Eb. destruct (Z.compare_spec a b) as [H|H|H].
  - subst b. apply (Rmult_eq_reg_r c); [lra | lra].
  - apply IZR_lt in H. apply (Rmult_lt_reg_r c); [exact Hc | lra].
  - apply IZR_lt in H. apply (Rmult_lt_reg_r c); [exact Hc | lra].
Qed.

(** [cmp_kx] decides the order of the float a * B^j and k * (N / D) *)
Lemma cmp_kx_spec k N D a j : 0 < D ->
  match cmp_kx B k (XRat N D) a j with
  | Eq => fval a j = (IZR k * xrat N D)%R
  | Lt => (fval a j < IZR k * xrat N D)%R
  | Gt => (fval a j > IZR k * xrat N D)%R
  end.
Proof.
  intros HD. assert (HDr : (0 < IZR D)%R) by (apply IZR_lt; exact HD).
  unfold cmp_kx, fval, xrat. destruct (Z.leb_spec 0 j) as [Hj|Hj].
  - apply (cmp_scale _ _ (IZR D)); [exact HDr| |].
    + rewrite !mult_IZR, bpow_Z by exact Hj. ring.
    + rewrite mult_IZR. field. lra.
  - pose proof (bpow_pos (- j)) as Hw.
    apply (cmp_scale _ _ (IZR D * bpow (- j))%R); [nra| |].
    + rewrite mult_IZR. rewrite (bpow_neg j). replace j with (- - j) at 1 by lia. rewrite (bpow_neg (- j)).
      rewrite bpow_neg. field. pose proof (bpow_pos j). lra.
    + rewrite !mult_IZR, <- bpow_Z by lia. field. lra.
Qed.

Lemma div_lt_cross (a b c d : R) : (0 < b)%R -> (0 < d)%R -> (a * d < c * b)%R -> (a / b < c / d)%R.
Proof.
  intros Hb Hd H. apply (Rmult_lt_reg_r (b * d)); [nra|].
  replace (a / b * (b * d))%R with (a * d)%R by (field; lra).
  replace (c / d * (b * d))%R with (c * b)%R by (field; lra). exact H.
Qed.

(** digit brackets in R *)
Lemma dlen_bracket a : a <> 0 -> (bpow (dlen B a - 1) <= IZR (Z.abs a) < bpow (dlen B a))%R.
Proof.
  intros Ha. destruct (dlen_spec B B_ge_2 a Ha) as [[L U] G].
  rewrite !bpow_Z by lia. split; [apply IZR_le | apply IZR_lt]; assumption.
Qed.

(** [rat_exp] is the exponent of x = N / D:  B^e <= |x| < B^(e+1) *)
Theorem rat_exp_spec N D : N <> 0 -> 0 < D ->
  let ex := rat_exp B N D in (bpow ex <= Rabs (xrat N D) < bpow (ex + 1))%R.
Proof.
  intros HN HD. cbv zeta. assert (HDr : (0 < IZR D)%R) by (apply IZR_lt; exact HD).
  assert (Habs : Rabs (xrat N D) = xrat (Z.abs N) D).
  { unfold xrat, Rdiv. rewrite Rabs_mult, (Rabs_right (/ IZR D)), abs_IZR; [reflexivity|].
    apply Rle_ge. left. apply Rinv_0_lt_compat. exact HDr. }
  rewrite Habs. unfold rat_exp. set (e0 := dlen B N - dlen B D).
  pose proof (cmp_kx_spec 1 (Z.abs N) D 1 e0 HD) as C.
  destruct (dlen_bracket N HN) as [NL NU]. destruct (dlen_bracket D ltac:(lia)) as [DL DU].
  rewrite (Z.abs_eq D) in DL, DU by lia.
  assert (Hlo : (bpow (e0 - 1) < xrat (Z.abs N) D)%R).
  { unfold xrat. replace (e0 - 1) with ((dlen B N - 1) + - dlen B D) by (unfold e0; lia).
    rewrite bpow_add, bpow_neg. pose proof (bpow_pos (dlen B D)). pose proof (bpow_pos (dlen B N - 1)).
    apply div_lt_cross; [assumption | exact HDr | nra]. }
  assert (Hhi : (xrat (Z.abs N) D < bpow (e0 + 1))%R).
  { unfold xrat. replace (e0 + 1) with (dlen B N + - (dlen B D - 1)) by (unfold e0; lia).
    rewrite bpow_add, bpow_neg. pose proof (bpow_pos (dlen B D - 1)). pose proof (bpow_pos (dlen B N)).
    assert (0 <= IZR (Z.abs N))%R by (apply IZR_le; lia).
    apply div_lt_cross; [exact HDr | assumption | nra]. }
  unfold fval in C. rewrite !Rmult_1_l in C.
  destruct (cmp_kx B 1 (XRat (Z.abs N) D) 1 e0).
  - split; [lra | exact Hhi].
  - split; [lra | exact Hhi].
  - replace (e0 - 1 + 1) with e0 by lia. split; lra.
Qed.

(** the value of  (s, e) +- B^u  as computed by [f_add_ulp] *)
Lemma f_add_ulp_val s e u sg : let '(a, j) := f_add_ulp B s e u sg in fval a j = (fval s e + IZR sg * bpow u)%R.
Proof.
  unfold f_add_ulp, fval. set (m := Z.min e u).
  rewrite plus_IZR, !mult_IZR, <- !bpow_Z by (unfold m; lia).
  replace (bpow e) with (bpow ((e - m) + m)) by (f_equal; lia).
  replace (bpow u) with (bpow ((u - m) + m)) by (f_equal; lia).
  rewrite !bpow_add. ring.
Qed.

(** x is not an integer multiple of B^u *)
Lemma x_multiple_spec N D u : 0 < D -> x_multiple_of_pow B (XRat N D) u = false ->
  ~ exists t, xrat N D = (IZR t * bpow u)%R.
Proof.
  intros HD H [t Et]. assert (HDr : (0 < IZR D)%R) by (apply IZR_lt; exact HD).
  unfold x_multiple_of_pow in H. unfold xrat in Et. destruct (Z.leb_spec 0 u) as [Hu|Hu].
  - apply Z.eqb_neq in H. apply H. rewrite bpow_Z in Et by exact Hu.
    assert (E : N = t * (D * B ^ u)).
    { apply eq_IZR. rewrite !mult_IZR. apply (Rmult_eq_reg_r (/ IZR D)); [|apply Rinv_neq_0_compat; lra].
      unfold Rdiv in Et. rewrite Et. field. lra. }
    rewrite E. apply Z.mod_mul. pose proof (Z.pow_pos_nonneg B u ltac:(lia) Hu). nia.
  - apply Z.eqb_neq in H. apply H.
    assert (E : N * B ^ (- u) = t * D).
    { apply eq_IZR. rewrite !mult_IZR, <- bpow_Z by lia. rewrite bpow_neg.
      pose proof (bpow_pos u). apply (Rmult_eq_reg_r (/ IZR D)); [|apply Rinv_neq_0_compat; lra].
      replace (IZR N * / bpow u * / IZR D)%R with (IZR N / IZR D * / bpow u)%R by (field; lra).
      rewrite Et. field. lra. }
    rewrite E. apply Z.mod_mul. lia.
Qed.

(** the side of x a directed mode must land on *)
Definition side_R (m : mode) (r x : R) : Prop :=
  match m with
  | MDown => (r < x)%R
  | MUp => (x < r)%R
  | MZero => (0 < x -> r < x)%R /\ (x < 0 -> x < r)%R
  | MAway => (0 < x -> x < r)%R /\ (x < 0 -> r < x)%R
  | MHalfEven | MHalfAway => True
  end.

(** the documented contract over the reals.  [ex] is the exponent of x, [u] one ulp at precision p *)
Definition contract_R (p : Z) (m : mode) (x : R) (ex : Z) (s e : Z) (f : flag) : Prop :=
  let r := fval s e in
  dlen B s <= p + 1 /\
  ((r = x /\ (f = FExact \/ f = FUnknown)) \/
   (r <> x /\ x <> 0%R /\ f <> FExact /\
    let u := bpow (ex - p + 1) in
    (Rabs (r - x) < u)%R /\
    (is_half_mode m = true -> 2 * Rabs (r - x) <= u)%R /\
    side_R m r x /\
    (f = FInexact AddOne -> x < r)%R /\ (f = FInexact SubOne -> r < x)%R /\
    ~ (exists t, x = (IZR t * u)%R))).

Lemma x_sign_spec N D : 0 < D -> ((0 <? Z.sgn N) = true -> (0 < xrat N D)%R) /\ ((0 <? Z.sgn N) = false -> N <> 0 -> (xrat N D < 0)%R).
Proof.
  intros HD. assert (HDr : (0 < IZR D)%R) by (apply IZR_lt; exact HD).
  assert (Hi : (0 < / IZR D)%R) by (apply Rinv_0_lt_compat; exact HDr).
  unfold xrat, Rdiv. split.
  - intros H. apply Z.ltb_lt in H. assert (0 < N) by lia. apply IZR_lt in H0. nra.
  - intros H HN. apply Z.ltb_ge in H. assert (N < 0) by lia. apply IZR_lt in H0. nra.
Qed.

Theorem check_contract_sound p m N D s e f : 1 <= p -> 0 < D ->
  check_contract B p m (XRat N D) s e f = true ->
  contract_R p m (xrat N D) (x_exp B (XRat N D)) s e f.
Proof.
  intros Hp HD H. assert (HDr : (0 < IZR D)%R) by (apply IZR_lt; exact HD).
  unfold check_contract in H. apply andb_true_iff in H. destruct H as [Hd H]. apply Z.leb_le in Hd.
  unfold contract_R. cbv zeta. split; [exact Hd|].
  pose proof (cmp_kx_spec 1 N D s e HD) as C. rewrite Rmult_1_l in C.
  set (x := xrat N D) in *. set (r := fval s e) in *.
  destruct (cmp_kx B 1 (XRat N D) s e) eqn:Ec.
  - left. split; [exact C|]. destruct f as [|rr|]; [left; reflexivity | discriminate | right; reflexivity].
  - (* r < x *)
    right. cbn [x_is_zero] in H. destruct (Z.eqb_spec N 0) as [|HN]; [discriminate|].
    cbn [x_exp] in *. set (u := rat_exp B N D - p + 1) in *.
    pose proof (f_add_ulp_val s e u (-1)) as Vlo. pose proof (f_add_ulp_val s e u 1) as Vhi.
    pose proof (f_add_ulp_val (2 * s) e u (-1)) as Vl2. pose proof (f_add_ulp_val (2 * s) e u 1) as Vh2.
    destruct (f_add_ulp B s e u (-1)) as [lo_s lo_e]. destruct (f_add_ulp B s e u 1) as [hi_s hi_e].
    destruct (f_add_ulp B (2 * s) e u (-1)) as [l2 le2]. destruct (f_add_ulp B (2 * s) e u 1) as [h2 he2].
    repeat (apply andb_true_iff in H; destruct H as [H ?]).
    rename H into Hflag, H0 into Hnm, H1 into Hside, H2 into Hhalf, H3 into Herr.
    pose proof (cmp_kx_spec 1 N D lo_s lo_e HD) as Clo. pose proof (cmp_kx_spec 1 N D hi_s hi_e HD) as Chi.
    pose proof (cmp_kx_spec 2 N D l2 le2 HD) as Cl2. pose proof (cmp_kx_spec 2 N D h2 he2 HD) as Ch2.
    rewrite Rmult_1_l in Clo, Chi. fold x in Clo, Chi, Cl2, Ch2.
    rewrite Vlo in Clo. rewrite Vhi in Chi. rewrite Vl2 in Cl2. rewrite Vh2 in Ch2. fold r in Clo, Chi.
    assert (E2 : fval (2 * s) e = (2 * r)%R) by (unfold r, fval; rewrite mult_IZR; ring).
    rewrite E2 in Cl2, Ch2.
    pose proof (x_sign_spec N D HD) as [Sp Sn]. fold x in Sp, Sn. cbn [x_sign] in Hside.
    split; [lra|]. split.
    { unfold x, xrat. intros Hz. apply HN. apply eq_IZR. apply (Rmult_eq_reg_r (/ IZR D)); [|apply Rinv_neq_0_compat; lra].
      unfold Rdiv in Hz. lra. }
    split. { intros ->. discriminate. }
    assert (Herr' : (Rabs (r - x) < bpow u)%R).
    { destruct (cmp_kx B 1 (XRat N D) lo_s lo_e); try discriminate.
      destruct (cmp_kx B 1 (XRat N D) hi_s hi_e); try discriminate.
      apply Rabs_def1; lra. }
    split; [exact Herr'|]. split.
    { intros Hm. rewrite Hm in Hhalf.
      assert (Rabs (r - x) = (x - r)%R) as -> by (rewrite Rabs_left; lra).
      destruct (cmp_kx B 2 (XRat N D) l2 le2); destruct (cmp_kx B 2 (XRat N D) h2 he2); try discriminate; lra. }
    split.
    { destruct m; cbn [side_R]; try exact I; try discriminate; try lra.
      - destruct (0 <? Z.sgn N) eqn:Sg; [|discriminate]. split; intros; [lra | specialize (Sp eq_refl); lra].
      - destruct (0 <? Z.sgn N) eqn:Sg; [discriminate|]. split; intros; [specialize (Sn eq_refl HN); lra | lra]. }
    split. { intros ->. discriminate. }
    split. { intros _. lra. }
    apply x_multiple_spec; [exact HD|]. apply negb_true_iff. exact Hnm.
  - (* r > x *)
    right. cbn [x_is_zero] in H. destruct (Z.eqb_spec N 0) as [|HN]; [discriminate|].
    cbn [x_exp] in *. set (u := rat_exp B N D - p + 1) in *.
    pose proof (f_add_ulp_val s e u (-1)) as Vlo. pose proof (f_add_ulp_val s e u 1) as Vhi.
    pose proof (f_add_ulp_val (2 * s) e u (-1)) as Vl2. pose proof (f_add_ulp_val (2 * s) e u 1) as Vh2.
    destruct (f_add_ulp B s e u (-1)) as [lo_s lo_e]. destruct (f_add_ulp B s e u 1) as [hi_s hi_e].
    destruct (f_add_ulp B (2 * s) e u (-1)) as [l2 le2]. destruct (f_add_ulp B (2 * s) e u 1) as [h2 he2].
    repeat (apply andb_true_iff in H; destruct H as [H ?]).
    rename H into Hflag, H0 into Hnm, H1 into Hside, H2 into Hhalf, H3 into Herr.
    pose proof (cmp_kx_spec 1 N D lo_s lo_e HD) as Clo. pose proof (cmp_kx_spec 1 N D hi_s hi_e HD) as Chi.
    pose proof (cmp_kx_spec 2 N D l2 le2 HD) as Cl2. pose proof (cmp_kx_spec 2 N D h2 he2 HD) as Ch2.
    rewrite Rmult_1_l in Clo, Chi. fold x in Clo, Chi, Cl2, Ch2.
    rewrite Vlo in Clo. rewrite Vhi in Chi. rewrite Vl2 in Cl2. rewrite Vh2 in Ch2. fold r in Clo, Chi.
    assert (E2 : fval (2 * s) e = (2 * r)%R) by (unfold r, fval; rewrite mult_IZR; ring).
    rewrite E2 in Cl2, Ch2.
    pose proof (x_sign_spec N D HD) as [Sp Sn]. fold x in Sp, Sn. cbn [x_sign] in Hside.
    split; [lra|]. split.
    { unfold x, xrat. intros Hz. apply HN. apply eq_IZR. apply (Rmult_eq_reg_r (/ IZR D)); [|apply Rinv_neq_0_compat; lra].
      unfold Rdiv in Hz. lra. }
    split. { intros ->. discriminate. }
    assert (Herr' : (Rabs (r - x) < bpow u)%R).
    { destruct (cmp_kx B 1 (XRat N D) lo_s lo_e); try discriminate.
      destruct (cmp_kx B 1 (XRat N D) hi_s hi_e); try discriminate.
      apply Rabs_def1; lra. }
    split; [exact Herr'|]. split.
    { intros Hm. rewrite Hm in Hhalf.
      assert (Rabs (r - x) = (r - x)%R) as -> by (rewrite Rabs_right; lra).
      destruct (cmp_kx B 2 (XRat N D) l2 le2); destruct (cmp_kx B 2 (XRat N D) h2 he2); try discriminate; lra. }
    split.
    { destruct m; cbn [side_R]; try exact I; try discriminate; try lra.
      - destruct (0 <? Z.sgn N) eqn:Sg; [discriminate|]. split; intros; [specialize (Sn eq_refl HN); lra | lra].
      - destruct (0 <? Z.sgn N) eqn:Sg; [|discriminate]. split; intros; [lra | specialize (Sp eq_refl); lra]. }
    split. { intros _. lra. }
    split. { intros ->. discriminate. }
    apply x_multiple_spec; [exact HD|]. apply negb_true_iff. exact Hnm.
Qed.

(** Zero / Away in the usual wording: the result is not larger / not smaller in magnitude than x *)
Corollary check_contract_magnitude p m N D s e f : 1 <= p -> 0 < D ->
  check_contract B p m (XRat N D) s e f = true ->
  (m = MZero -> Rabs (fval s e) <= Rabs (xrat N D))%R /\ (m = MAway -> Rabs (xrat N D) <= Rabs (fval s e))%R.
Proof.
  intros Hp HD H. pose proof (check_contract_sound p m N D s e f Hp HD H) as [_ C].
  destruct C as [[E _]|(Hne & Hx & _ & Herr & _ & Hside & _)]; [rewrite E; split; intros; lra|].
  cbv zeta in Herr. cbn [x_exp] in Herr.
  assert (HN : N <> 0).
  { intros ->. apply Hx. unfold xrat, Rdiv. rewrite Rmult_0_l. reflexivity. }
  pose proof (rat_exp_spec N D HN HD) as [EL EU]. cbv zeta in EL, EU.
  pose proof (bpow_le (rat_exp B N D - p + 1) (rat_exp B N D) ltac:(lia)) as Hu.
  set (x := xrat N D) in *. set (r := fval s e) in *.
  split; intros ->; cbn [side_R] in Hside; destruct Hside as [S1 S2].
  - destruct (Rtotal_order x 0) as [Hn|[Hz|Hpz]]; [|contradiction|].
    + specialize (S2 Hn). rewrite (Rabs_left x) in * by lra. rewrite (Rabs_right (r - x)) in Herr by lra.
      rewrite Rabs_left1 by lra. lra.
    + specialize (S1 Hpz). rewrite (Rabs_right x) in * by lra. rewrite (Rabs_left (r - x)) in Herr by lra.
      rewrite Rabs_right by lra. lra.
  - destruct (Rtotal_order x 0) as [Hn|[Hz|Hpz]]; [|contradiction|].
    + specialize (S2 Hn). rewrite (Rabs_left x), (Rabs_left r) by lra. lra.
    + specialize (S1 Hpz). rewrite (Rabs_right x), (Rabs_right r) by lra. lra.
Qed.

End ContractSound.
