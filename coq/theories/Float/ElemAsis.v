(** C11: as-is models (value level) of the elementary functions of dashu-float, definitions only:
      float/src/exp.rs  Context::{powi, powf, exp, exp_m1, exp_internal}
      float/src/log.rs  Context::{iacoth, ln2, ln10, ln_base, ln, ln_1p, ln_internal}
      float/src/fbig.rs FBig::sub_ulp, float/src/convert.rs {with_precision, convert_int},
      float/src/div.rs  div_rem_euclid / align_as_int, float/src/shift.rs.
    Every intermediate operation is the as-is model of the float layer proved for C03
    (Model.repr_round / ctx_mul / ctx_sqr / repr_div, AddModel.add_*_*, DivMulModel.fbig_mul / fbig_div /
    prim_repr), followed by the trailing-zero stripping of Repr::new (Model.normalize), because the
    digit count of every intermediate value is observable here (it decides the next rounding and
    the stop criterion).  An FBig is (significand, exponent, precision of its context); IBig is Z.

    The f32 estimates enter through Float/ElemF32.v (abstract [f32ops]); the guard-digit and
    working-precision formulas are those regenerated from the sources (DashuGen.ElemParams).
    Comparisons of floats (`<`, abs_cmp, `>=`) are comparisons of values (C05: repr_cmp_same_base is
    the order of the values).  Series loops take explicit fuel (OutOfFuel when it runs out; fuel
    bounds: ElemSeriesFuel.v). *)
From Dashu Require Import Base.Prelude Float.RoundSpec Float.Contract Float.Model Float.AddModel
  Float.DivMulModel Float.ElemF32.
From DashuGen Require Import RoundTables ElemParams.
Open Scope Z_scope.

Record fbig := FB { fsig : Z; fexp : Z; fprec : Z }.

(** an [f32ops] for the formulas that do not read any f32 value (powi) *)
Definition no_f32 : f32ops unit :=
  mk_f32ops unit (fun _ => tt) (fun _ => tt) (fun _ _ => tt) (fun _ _ => tt) (fun _ _ => tt) (fun _ _ => tt)
    (fun _ => tt) (fun _ _ => false) (fun _ => 0) (fun _ => 0) (fun _ => tt) (fun _ => tt) tt tt tt.

Definition approx_and_then_r (a : approx) (f : Z -> Z -> result approx) : result approx :=
  match a with
  | AExact s e => f s e
  | AInexact s e r =>
      rbind (f s e) (fun b => Ok (match b with AExact s' e' => AInexact s' e' r | b => b end))
  end.

(** Approximation::map on the value, the flag is kept *)
Definition approx_map (a : approx) (f : Z -> Z -> Z * Z) : approx :=
  match a with
  | AExact s e => let '(s', e') := f s e in AExact s' e'
  | AInexact s e r => let '(s', e') := f s e in AInexact s' e' r
  end.

(** exp.rs never_exact *)
Definition never_exact (a : approx) : approx :=
  match a with AExact s e => AInexact s e NoOp | b => b end.

Section Asis.
Variable B : Z.

(* ------------------------------------------------------------------ the float layer, normalised *)
Definition nrm (a : approx) : approx :=
  match a with
  | AExact s e => let '(s', e') := normalize B s e in AExact s' e'
  | AInexact s e r => let '(s', e') := normalize B s e in AInexact s' e' r
  end.
Definition fb_of (v : Z * Z) (p : Z) : fbig := let '(s, e) := normalize B (fst v) (snd v) in FB s e p.

Definition c_repr_round (p : Z) (m : mode) (s e : Z) : approx := nrm (repr_round B p m s e).
Definition c_mul (p : Z) (m : mode) (s1 e1 s2 e2 : Z) : approx := nrm (ctx_mul B p m s1 e1 s2 e2).
Definition c_sqr (p : Z) (m : mode) (s e : Z) : approx := nrm (ctx_sqr B p m s e).
Definition c_repr_div (p : Z) (m : mode) (s1 e1 s2 e2 : Z) : result approx :=
  rbind (repr_div B p m s1 e1 s2 e2) (fun a => Ok (nrm a)).

(** FBig::with_precision of a value whose context has precision [src] *)
Definition with_precision (src p : Z) (m : mode) (s e : Z) : approx :=
  if (src =? 0) || (src >? p) then c_repr_round p m s e else AExact s e.

Definition ONE : fbig := FB 1 0 0.
Definition fb_val (x : fbig) : Z * Z := (fsig x, fexp x).

Definition fb_mul (m : mode) (x y : fbig) : fbig :=
  fb_of (fbig_mul B (fprec x) (fprec y) m (fsig x) (fexp x) (fsig y) (fexp y)) (ctx_max (fprec x) (fprec y)).
Definition fb_div (m : mode) (x y : fbig) : result fbig :=
  rbind (fbig_div B (fprec x) (fprec y) m (fsig x) (fexp x) (fsig y) (fexp y))
        (fun v => Ok (fb_of v (ctx_max (fprec x) (fprec y)))).
Definition fb_add_vv (m : mode) (x y : fbig) (sg : sign) : fbig :=
  fb_of (add_val_val_x B (fprec x) (fprec y) m (fsig x) (fexp x) (fsig y) (fexp y) sg) (ctx_max (fprec x) (fprec y)).
Definition fb_add_vr (m : mode) (x y : fbig) (sg : sign) : fbig :=
  fb_of (add_val_ref_x B (fprec x) (fprec y) m (fsig x) (fexp x) (fsig y) (fexp y) sg) (ctx_max (fprec x) (fprec y)).
Definition fb_add_rv (m : mode) (x y : fbig) (sg : sign) : fbig :=
  fb_of (add_ref_val_x B (fprec x) (fprec y) m (fsig x) (fexp x) (fsig y) (fexp y) sg) (ctx_max (fprec x) (fprec y)).
(** FBig::sqr = self.context.sqr(&self.repr).value() *)
Definition fb_sqr (m : mode) (x : fbig) : fbig :=
  fb_of (approx_val (ctx_sqr B (fprec x) m (fsig x) (fexp x))) (fprec x).
(** FBig::from(n) for a primitive / IBig, Context::convert_int *)
Definition fb_from_int (n : Z) : fbig := let '(s, e) := prim_repr B n in FB s e (prim_prec B n).
Definition convert_int (p : Z) (m : mode) (n : Z) : fbig :=
  let '(s, e) := normalize B n 0 in fb_of (approx_val (repr_round B p m s e)) p.
(** shift.rs: Shr / Shl by an isize *)
Definition fb_shr (x : fbig) (n : Z) : fbig := if fsig x =? 0 then x else FB (fsig x) (fexp x - n) (fprec x).
Definition shl_val (s e n : Z) : Z * Z := if s =? 0 then (s, e) else (s, e + n).

(** order of the values s1 * B^e1 and s2 * B^e2 *)
Definition fval_cmp (s1 e1 s2 e2 : Z) : comparison :=
  if e1 <=? e2 then (s1 ?= s2 * B ^ (e2 - e1)) else (s1 * B ^ (e1 - e2) ?= s2).
Definition fval_abs_le (s1 e1 s2 e2 : Z) : bool :=
  match fval_cmp (Z.abs s1) e1 (Z.abs s2) e2 with Gt => false | _ => true end.
Definition fval_lt (s1 e1 s2 e2 : Z) : bool :=
  match fval_cmp s1 e1 s2 e2 with Lt => true | _ => false end.

(* ------------------------------------------------------------------ powi *)
(** binary exponentiation from left to right: bit k of the exponent, then bits k-1 .. 0 *)
Fixpoint powi_loop (wp : Z) (m : mode) (s e n : Z) (k : nat) (res : approx) : approx :=
  let res := if Z.testbit n (Z.of_nat k)
             then approx_and_then res (fun s' e' => c_mul wp m s' e' s e) else res in
  match k with
  | O => res
  | S k' => powi_loop wp m s e n k' (approx_and_then res (fun s' e' => c_sqr wp m s' e'))
  end.

Definition powi_work_precision (p n : Z) : Z :=
  if p =? 0 then 0 else powi_work_precision_gen no_f32 p (powi_guard_digits_gen no_f32 n p).

(** the part of Context::powi after the sign test: 0 <= n *)
Definition powi_pos (p : Z) (m : mode) (s e n : Z) : approx :=
  if n =? 0 then AExact 1 0
  else if n =? 1 then c_repr_round p m s e
  else
    let wp := powi_work_precision p n in
    let res := powi_loop wp m s e n (Z.to_nat (bit_len n - 2)) (c_sqr wp m s e) in
    approx_and_then res (fun s' e' => with_precision wp p m s' e').

Definition powi_asis (p : Z) (m : mode) (s e n : Z) : result approx :=
  if n <? 0 then
    if p =? 0 then Panic UnlimitedPrecision else
    let rp := powi_neg_precision_gen no_f32 p (powi_neg_guard_bits_gen no_f32 p) in
    let rm := reverse_mode_gen m in
    let pow := powi_pos rp rm s e (- n) in
    rbind (approx_and_then_r pow (fun s' e' => c_repr_div rp rm 1 0 s' e'))
      (fun inv => Ok (approx_and_then inv (fun s' e' => c_repr_round p m s' e')))
  else Ok (powi_pos p m s e n).

(** the class of the open finding F07 (powi_overlong_operand): the operand is longer than twice the working
    precision of the powering that Context::powi runs (for a negative exponent: the powering at the
    enlarged precision): Context::sqr / mul round it first and drop the flag of that rounding *)
Definition powi_overlong (p s n : Z) : bool :=
  if p =? 0 then false
  else if n <? 0 then
    let rp := powi_neg_precision_gen no_f32 p (powi_neg_guard_bits_gen no_f32 p) in
    (Z.abs n >? 1) && (dlen B s >? 2 * powi_work_precision rp (- n))
  else (n >? 1) && (dlen B s >? 2 * powi_work_precision p n).

(* ------------------------------------------------------------------ series code *)
Section F32.
Context {F : Type} (O : f32ops F).
Variable W : Z.

(** FBig::sub_ulp: 1 * B^(exponent + digits_lb - precision - 1) *)
Definition sub_ulp_exp (x : fbig) : Z := fexp x + digits_lb O W B (fsig x) - fprec x - 1.

(** log.rs Context::iacoth; [p] is the precision of the calling context *)
Fixpoint iacoth_loop (fuel : nat) (wp : Z) (m : mode) (inv2 sum pow : fbig) (k : Z) : result fbig :=
  match fuel with
  | 0%nat => OutOfFuel
  | S f =>
      let pow := fb_mul m pow inv2 in
      rbind (fb_div m pow (convert_int wp m k)) (fun increase =>
      if fval_lt (fsig increase) (fexp increase) 1 (sub_ulp_exp sum) then Ok sum
      else iacoth_loop f wp m inv2 (fb_add_vv m sum increase Positive) pow (k + 2))
  end.

Definition iacoth (fuel : nat) (p : Z) (m : mode) (n : Z) : result fbig :=
  let guard_digits := iacoth_guard_digits_gen O p B in
  let wp := iacoth_work_precision_gen O p guard_digits in
  let nf := convert_int wp m n in
  rbind (fb_div m ONE nf) (fun inv =>
  let inv2 := fb_sqr m inv in
  iacoth_loop fuel wp m inv2 inv inv 3).

(** n * f for a primitive n (impl Mul<FBig> for $t: FBig::from(n).mul(f)) and f * n *)
Definition prim_mul (m : mode) (n : Z) (x : fbig) : fbig := fb_mul m (fb_from_int n) x.
Definition mul_prim (m : mode) (x : fbig) (n : Z) : fbig := fb_mul m x (fb_from_int n).

Definition ln2 (fuel : nat) (p : Z) (m : mode) : result fbig :=
  rbind (iacoth fuel p m 6) (fun a =>
  rbind (iacoth fuel p m 99) (fun b =>
  Ok (fb_add_vv m (prim_mul m 4 a) (prim_mul m 2 b) Positive))).

Definition ln10 (fuel : nat) (p : Z) (m : mode) : result fbig :=
  rbind (ln2 fuel p m) (fun a =>
  rbind (iacoth fuel p m 9) (fun b =>
  Ok (fb_add_vv m (prim_mul m 3 a) (prim_mul m 2 b) Positive))).

(** the atanh series of ln_internal *)
Fixpoint ln_series_loop (fuel : nat) (wp : Z) (m : mode) (z2 sum pow : fbig) (k : Z) : result fbig :=
  match fuel with
  | 0%nat => OutOfFuel
  | S f =>
      let pow := fb_mul m pow z2 in
      rbind (fb_div m pow (convert_int wp m k)) (fun increase =>
      if fval_abs_le (fsig increase) (fexp increase) 1 (sub_ulp_exp sum) then Ok sum
      else ln_series_loop f wp m z2 (fb_add_vv m sum increase Positive) pow (k + 2))
  end.

Definition ln_internal (fuel : nat) (p : Z) (m : mode) (s e : Z) (one_plus : bool) : result approx :=
  if p =? 0 then Panic UnlimitedPrecision
  else if (one_plus && (s =? 0)) || (negb one_plus && (s =? 1) && (e =? 0)) then Ok (AExact 0 0)
  else if (if one_plus then negb (fval_lt (-1) 0 s e) else s <=? 0) then Panic LogOperand
  else
    let guard_digits := ln_guard_digits_gen O p B in
    let wp0 := ln_work_precision_max_gen O (ln_work_precision_gen O p guard_digits one_plus)
                 (dlen B s) guard_digits one_plus in
    let x := fb_of (approx_val (repr_round B wp0 m s e)) wp0 in
    let no_scaling := one_plus && f_ltb O (repr_log2_est O W B (fsig x) (fexp x)) (f_neg O (uint_log2_est O B)) in
    rbind
      (if no_scaling then Ok (0, x)
       else
         let x := if one_plus then fb_add_vv m x ONE Positive else x in
         let log2 := fst (repr_log2_bounds O W B (fsig x) (fexp x)) in
         let s2 := f_to_isize O log2 - (if f_ltb O log2 (f_of_Z O 0) then 1 else 0) in
         rbind
           (if B =? 2 then Ok (fb_shr x s2)
            else if 0 <? s2 then fb_div m x (fb_from_int (2 ^ s2))
            else Ok (fb_mul m x (fb_from_int (2 ^ (- s2)))))
           (fun x_scaled =>
              (* debug_assert!(x_scaled >= FBig::ONE) - checked builds *)
              if fval_lt (fsig x_scaled) (fexp x_scaled) 1 0 then Panic Undocumented else Ok (s2, x_scaled)))
      (fun sx =>
       let '(s2, x_scaled) := sx in
       let widen := (s2 <? 0) || (fsig x_scaled <? 0) in
       let wp := if widen then wp0 + p else wp0 in
       let x_scaled := if widen then FB (fsig x_scaled) (fexp x_scaled) wp else x_scaled in
       rbind
         (if no_scaling
          then fb_div m x_scaled (fb_add_rv m x_scaled (fb_add_vv m ONE ONE Positive) Positive)
          else fb_div m (fb_add_rv m x_scaled ONE Negative) (fb_add_vv m x_scaled ONE Positive))
         (fun z =>
          let z2 := fb_sqr m z in
          rbind (ln_series_loop fuel wp m z2 z z 3) (fun sum =>
          rbind
            (if no_scaling then Ok (prim_mul m 2 sum)
             else rbind (ln2 fuel wp m) (fun l2 =>
                  Ok (fb_add_vv m (prim_mul m 2 sum) (prim_mul m s2 l2) Positive)))
            (fun result =>
             Ok (never_exact (with_precision (fprec result) p m (fsig result) (fexp result)))))))
  .

(** log.rs Context::ln_base *)
Definition ln_base (fuel : nat) (p : Z) (m : mode) : result fbig :=
  if B =? 2 then ln2 fuel p m
  else if B =? 10 then ln10 fuel p m
  else if is_pow2 B then rbind (ln2 fuel p m) (fun l => Ok (mul_prim m l (Z.log2 B)))
  else
    let '(s, e) := normalize B B 0 in
    rbind (ln_internal fuel p m s e false) (fun a => Ok (FB (approx_sig a) (approx_exp a) p)).

(** div.rs DivRemEuclid for FBig (align_as_int, IBig::div_rem_euclid, convert_int) *)
Definition fb_div_rem_euclid (m : mode) (x y : fbig) : result (Z * fbig) :=
  if fsig y =? 0 then Panic DivideBy0 else
  let r_exponent := Z.min (fexp x) (fexp y) in
  let p := ctx_max (fprec x) (fprec y) in
  let ediff := fexp x - fexp y in
  let '(num, den) := if 0 <=? ediff then (fsig x * B ^ ediff, fsig y) else (fsig x, fsig y * B ^ (- ediff)) in
  let r := num mod (Z.abs den) in
  let q := (num - r) / den in
  let rf := convert_int p m r in
  Ok (q, if fsig rf =? 0 then rf else FB (fsig rf) (fexp rf + r_exponent) (fprec rf)).

(** the Maclaurin series of exp_internal *)
Fixpoint exp_series_loop (fuel : nat) (m : mode) (r sum pow : fbig) (factorial k : Z) : result fbig :=
  match fuel with
  | 0%nat => OutOfFuel
  | S f =>
      let factorial := factorial * k in
      let pow := fb_mul m pow r in
      rbind (fb_div m pow (fb_from_int factorial)) (fun increase =>
      if fval_abs_le (fsig increase) (fexp increase) 1 (sub_ulp_exp sum) then Ok sum
      else exp_series_loop f m r (fb_add_vv m sum increase Positive) pow factorial (k + 1))
  end.

Definition isize_max : Z := 2 ^ 63 - 1.

Definition exp_internal (fuel : nat) (p : Z) (m : mode) (s e : Z) (minus_one : bool) : result approx :=
  if p =? 0 then Panic UnlimitedPrecision
  else if s =? 0 then Ok (if minus_one then AExact 0 0 else AExact 1 0)
  else
    let sgd := exp_series_guard_digits_gen O p B in
    let pgd := exp_pow_guard_digits_gen O p B in
    let no_scaling := minus_one && f_ltb O (repr_log2_est O W B s e) (f_neg O (uint_log2_est O B)) in
    rbind
      (if no_scaling then
         let wp := if s <? 0 then exp_work_precision_neg_gen O p sgd else exp_work_precision_pos_gen O p sgd in
         Ok (0, 0, fb_of (approx_val (repr_round B wp m s e)) wp)
       else
         let magnitude := repr_log2_est O W B s e in
         let md := if f_ltb O (f_of_Z O 0) magnitude then exp_magnitude_digits_pos_gen O magnitude B else 0 in
         let wp := exp_work_precision_scaled_gen O p sgd pgd md in
         let x := fb_of (approx_val (repr_round B wp m s e)) wp in
         rbind (ln_base fuel wp m) (fun logb =>
         rbind (fb_div_rem_euclid m x logb) (fun qr =>
         let '(q, r) := qr in
         (* s.try_into().expect("exponent is too large") *)
         if (q <? - isize_max - 1) || (isize_max <? q) then Panic Undocumented
         else Ok (q, exp_n_gen O p, r))))
      (fun snr =>
       let '(s2, n, r) := snr in
       let r := fb_shr r n in
       let sum0 := if no_scaling then r else fb_add_vr m ONE r Positive in
       rbind (exp_series_loop fuel m r sum0 r 1 2) (fun sum =>
       if no_scaling then
         Ok (never_exact (with_precision (fprec sum) p m (fsig sum) (fexp sum)))
       else if minus_one then
         let p1 := exp_m1_pow_precision_gen O p in
         rbind (powi_asis p1 m (fsig sum) (fexp sum) (B ^ n)) (fun pw =>
         let shifted := approx_map pw (fun s' e' =>
            let '(s'', e'') := shl_val s' e' s2 in
            fb_val (fb_add_vv m (FB s'' e'' p1) ONE Negative)) in
         Ok (never_exact (approx_and_then shifted (fun s' e' => with_precision p1 p m s' e'))))
       else
         rbind (powi_asis p m (fsig sum) (fexp sum) (B ^ n)) (fun pw =>
         Ok (never_exact (approx_map pw (fun s' e' => shl_val s' e' s2)))))).

(** exp.rs Context::powf *)
Definition powf_asis (fuel : nat) (p : Z) (m : mode) (s e ys ye : Z) : result approx :=
  if p =? 0 then Panic UnlimitedPrecision
  else if ys =? 0 then Ok (AExact 1 0)
  else if (ys =? 1) && (ye =? 0) then Ok (c_repr_round p m s e)
  else if s =? 0 then Ok (AExact 0 0)
  else if s <? 0 then Panic PowerNegativeBase
  else
    let wp := powf_work_precision_gen O p (powf_guard_digits_gen O p) in
    rbind (ln_internal fuel wp m s e false) (fun l =>
    rbind (approx_and_then_r l (fun s' e' => Ok (c_mul wp m s' e' ys ye))) (fun t =>
    rbind (approx_and_then_r t (fun s' e' => exp_internal fuel wp m s' e' false)) (fun r =>
    Ok (approx_and_then r (fun s' e' => with_precision wp p m s' e'))))).

End F32.
End Asis.
