(** C10 round 3: values far below one (at least one leading zero digit after the radix point).  The six roundings
    then depend on the sign of the value only - no power of the base is needed.  The oracle uses these forms for
    exponents so negative that B^(-e) cannot be formed (down to isize::MIN). *)
From Dashu Require Import Base.Prelude Float.RoundSpec Float.Contract Float.Model Float.ModelProof
  Float.RoundOpsModel Float.RoundOpsProof Float.RoundOpsDeep.
From DashuGen Require Import RoundTables.
Open Scope Z_scope.

Section Tiny.
Variable B : Z.
Hypothesis B_ge_2 : 2 <= B.

(** one leading zero after the point is enough: dlen s + 1 <= -e gives 2|s| < B^(-e) *)
Lemma tiny_bound s e : dlen B s + 1 <= - e -> 0 < B ^ (- e) /\ 2 * Z.abs s < B ^ (- e).
Proof.
  intros H. pose proof (dlen_nonneg B B_ge_2 s) as Hd.
  pose proof (Bpow_pos B B_ge_2 (- e) ltac:(lia)) as Hp. split; [exact Hp|].
  pose proof (abs_lt_pow_dlen B B_ge_2 s) as Hs.
  replace (- e) with (dlen B s + 1 + (- e - dlen B s - 1)) by lia.
  rewrite !Z.pow_add_r, Z.pow_1_r by lia.
  pose proof (Bpow_pos B B_ge_2 (dlen B s) Hd) as H1.
  pose proof (Bpow_pos B B_ge_2 (- e - dlen B s - 1) ltac:(lia)) as H2.
  set (x := B ^ dlen B s) in *. set (y := B ^ (- e - dlen B s - 1)) in *. clearbody x y.
  assert (x * 2 <= x * B) by (apply Z.mul_le_mono_nonneg_l; lia).
  assert (x * B * 1 <= x * B * y) by (apply Z.mul_le_mono_nonneg_l; nia). lia.
Qed.

Theorem int_spec_tiny m s e : dlen B s + 1 <= - e -> int_spec B m s e = int_tiny m s.
Proof.
  intros H. destruct (tiny_bound s e H) as [Hp H2]. pose proof (dlen_nonneg B B_ge_2 s).
  unfold int_spec. destruct (Z.leb_spec 0 e); [lia|]. set (d := B ^ (- e)) in *. clearbody d.
  assert (Hdown : s / d = if s <? 0 then -1 else 0).
  { destruct (Z.ltb_spec s 0).
    - symmetry. apply (Z.div_unique s d (-1) (s + d)); lia.
    - apply Z.div_small; lia. }
  assert (Hup : - ((- s) / d) = if 0 <? s then 1 else 0).
  { destruct (Z.ltb_spec 0 s).
    - rewrite <- (Z.div_unique (- s) d (-1) (- s + d)) by lia. reflexivity.
    - rewrite Z.div_small by lia. reflexivity. }
  assert (Hmod : s mod d = if s <? 0 then s + d else s).
  { destruct (Z.ltb_spec s 0).
    - symmetry. apply (Z.mod_unique s d (-1)); lia.
    - apply Z.mod_small; lia. }
  destruct m; cbn [spec_round int_tiny].
  - apply quot_small_abs. lia.
  - rewrite Hmod, Hdown. rewrite (quot_small_abs s d) by lia.
    destruct (Z.ltb_spec s 0).
    + destruct (Z.eqb_spec (s + d) 0); [lia|]. rewrite Z.sgn_neg by lia. reflexivity.
    + destruct (Z.eqb_spec s 0) as [->|]; [reflexivity|]. lia.
  - exact Hup.
  - exact Hdown.
  - rewrite Hmod, Hdown. destruct (Z.ltb_spec s 0).
    + assert (E : (2 * (s + d) ?= d) = Gt) by (apply Z.compare_gt_iff; lia). rewrite E. reflexivity.
    + destruct (Z.eq_dec s 0) as [->|].
      * assert (E : (2 * 0 ?= d) = Lt) by (apply Z.compare_lt_iff; lia). rewrite E. reflexivity.
      * assert (E : (2 * s ?= d) = Lt) by (apply Z.compare_lt_iff; lia). rewrite E. reflexivity.
  - rewrite (Z.div_small (2 * Z.abs s + d) (2 * d)) by lia. lia.
Qed.

Theorem fract_sig_tiny s e : dlen B s + 1 <= - e -> fract_sig_spec B s e = s.
Proof.
  intros H. unfold fract_sig_spec. pose proof (dlen_nonneg B B_ge_2 s). destruct (Z.leb_spec 0 e); [lia|].
  rewrite (int_spec_tiny MZero s e H). cbn [int_tiny]. lia.
Qed.

Theorem to_int_spec_tiny m s e : dlen B s + 1 <= - e -> to_int_spec B m s e = to_int_tiny m s.
Proof.
  intros H. destruct (tiny_bound s e H) as [Hp H2]. pose proof (dlen_nonneg B B_ge_2 s).
  unfold to_int_spec, to_int_tiny, is_int. destruct (Z.leb_spec 0 e); [lia|]. cbn [orb].
  rewrite !(int_spec_tiny _ s e H). cbn [int_tiny].
  destruct (Z.eqb_spec s 0) as [->|Hs].
  - rewrite Z.mod_0_l by lia. reflexivity.
  - assert (Hm : s mod B ^ (- e) <> 0).
    { destruct (Z.lt_trichotomy s 0) as [L|[L|L]]; [|lia|].
      - rewrite <- (Z.mod_unique s (B ^ (- e)) (-1) (s + B ^ (- e))) by lia. lia.
      - rewrite Z.mod_small by lia. lia. }
    destruct (Z.eqb_spec (s mod B ^ (- e)) 0); [contradiction|]. rewrite Z.sub_0_r. reflexivity.
Qed.
End Tiny.

Example tiny_example :
  int_spec 10 MAway (-3) (-2) = int_tiny MAway (-3) /\ to_int_tiny MUp 7 = IInexact 1 AddOne /\
  to_int_tiny MDown 7 = IInexact 0 NoOp /\ to_int_tiny MHalfEven (-7) = IInexact 0 NoOp.
Proof. repeat split; vm_compute; reflexivity. Qed.
