(** C10: the neighbour that each mode names is unique, so "spec_round m N d" IS the integer described by
    the documentation of trunc / round (nearest, ties away) / the nearest modes off a tie.
    (floor and ceil: RoundSpecProof.floor_unique / ceil_unique.) *)
From Dashu Require Import Base.Prelude Float.RoundSpec Float.RoundTablesProof Float.RoundSpecProof.
Open Scope Z_scope.

(** two integers whose multiples of d lie in a common half-open window of length d are equal *)
Lemma window_unique d a b lo : 0 < d -> lo < a * d <= lo + d -> lo < b * d <= lo + d -> a = b.
Proof. intros Hd Ha Hb. nia. Qed.

Lemma window_unique' d a b lo : 0 < d -> lo <= a * d < lo + d -> lo <= b * d < lo + d -> a = b.
Proof. intros Hd Ha Hb. nia. Qed.

(** truncation: the multiple of d nearest to N among those not farther from zero than N *)
Theorem trunc_unique N d r : 0 < d -> Z.abs (r * d) <= Z.abs N -> Z.abs (r * d - N) < d ->
  r = spec_round MZero N d.
Proof.
  intros Hd H1 H2.
  pose proof (spec_round_error MZero N d Hd) as [E _]. pose proof (spec_round_side MZero N d Hd) as S.
  cbv zeta in E. cbn [side_ok] in S. set (t := spec_round MZero N d) in *. clearbody t.
  destruct (Z.le_gt_cases 0 N).
  - apply (window_unique d r t (N - d)); lia.
  - apply (window_unique' d r t N); lia.
Qed.

(** off a tie, the nearest integer is unique: both nearest modes return it *)
Theorem nearest_unique m N d r : 0 < d -> is_half_mode m = true -> 2 * Z.abs (r * d - N) < d ->
  r = spec_round m N d.
Proof.
  intros Hd Hm H.
  pose proof (spec_round_error m N d Hd) as [_ E]. specialize (E Hm). cbv zeta in E.
  set (t := spec_round m N d) in *. clearbody t.
  assert (Z.abs ((r - t) * d) < d + d) by lia.
  assert (-2 < r - t < 2) by nia. assert (r - t <> 1) by nia. assert (r - t <> -1) by nia. lia.
Qed.

(** on a tie, round() (ties away from zero) returns the neighbour of larger magnitude *)
Theorem half_away_tie_unique N d r : 0 < d -> 2 * (N mod d) = d ->
  2 * Z.abs (r * d - N) = d -> Z.abs N < Z.abs (r * d) -> r = spec_round MHalfAway N d.
Proof.
  intros Hd Ht H1 H2.
  pose proof (spec_round_error MHalfAway N d Hd) as [_ E]. specialize (E eq_refl). cbv zeta in E.
  pose proof (spec_round_tie_away N d Hd Ht) as A.
  set (t := spec_round MHalfAway N d) in *. clearbody t.
  (* a tie has magnitude at least d/2 *)
  pose proof (Z.div_mod N d ltac:(lia)) as Ed.
  assert (Hn : d <= 2 * Z.abs N).
  { destruct (Z.le_gt_cases 0 N).
    - assert (0 <= N / d) by (apply Z.div_pos; lia). nia.
    - assert (N / d < 0) by (apply Z.div_lt_upper_bound; lia). nia. }
  destruct (Z.le_gt_cases 0 N).
  - apply (window_unique d r t N); lia.
  - apply (window_unique' d r t (N - d)); lia.
Qed.

(** on a tie, HalfEven returns the even neighbour *)
Theorem half_even_tie_unique N d r : 0 < d -> 2 * (N mod d) = d ->
  2 * Z.abs (r * d - N) = d -> Z.even r = true -> r = spec_round MHalfEven N d.
Proof.
  intros Hd Ht H1 H2.
  pose proof (spec_round_error MHalfEven N d Hd) as [_ E]. specialize (E eq_refl). cbv zeta in E.
  pose proof (spec_round_tie_even N d Hd Ht) as A.
  set (t := spec_round MHalfEven N d) in *. clearbody t.
  assert (Z.abs ((r - t) * d) <= d) by lia.
  assert (-2 < r - t < 2) by nia.
  destruct (Z.eq_dec (r - t) 0); [lia|]. exfalso.
  assert (Hc : r = t + 1 \/ r = t - 1) by lia.
  destruct Hc as [-> | ->].
  - rewrite Z.even_add, A in H2. discriminate.
  - rewrite Z.even_sub, A in H2. discriminate.
Qed.

Example unique_examples :
  spec_round MZero (-7) 2 = -3 /\ spec_round MHalfAway (-5) 2 = -3 /\ spec_round MHalfEven 5 2 = 2.
Proof. repeat split. Qed.
