(** C08 (round 3): FBig::from_parts_const (float/src/fbig.rs) - the constructor the literal macros fbig! / dbig!
    expand to for a significand that fits in a u32 (longer ones expand to Repr::new + Context::new + from_repr,
    i.e. normalize and the digit count of the parser) - as it is after the repair F09, and its specification.
    Definitions only (proofs: PartsConstProof.v).  W = word size in bits; the significand is a DoubleWord. *)
From Dashu Require Import Base.Prelude Float.RoundSpec Float.Contract Float.Model Float.ElemF32 Int.IoSpec Float.TextIoSpec Float.TextIoModel.
From DashuGen Require Import ConvBaseGen.
Open Scope Z_scope.

(** the loop that counts the digits (non-power-of-two base), after the repair:
      digits = 1; while let Some(next) = pow.checked_mul(B) { if next > significand { break } digits += 1; pow = next } *)
Fixpoint digits_loop (fuel : nat) (dw B s pow digits : Z) : Z :=
  match fuel with
  | O => digits
  | S f =>
      let next := pow * B in
      if dw <=? next then digits            (* checked_mul overflows the DoubleWord: the loop ends *)
      else if s <? next then digits          (* next > significand: break *)
      else digits_loop f dw B s next (digits + 1)
  end.

(** ... and before it: digits += 1 came first and an overflow of checked_mul ended the loop one short *)
Fixpoint digits_loop_old (fuel : nat) (dw B s pow digits : Z) : Z :=
  match fuel with
  | O => digits
  | S f =>
      let next := pow * B in
      if dw <=? next then digits
      else if s <? next then digits + 1
      else digits_loop_old f dw B s next (digits + 1)
  end.

(** u128::trailing_zeros of a positive value *)
Definition tz (x : Z) : Z := Z.log2 (Z.land x (- x)).

Definition from_parts_const_asis (W B : Z) (neg : bool) (sig e : Z) (minp : option Z) : Z * Z * Z :=
  if sig =? 0 then (0, 0, 0)
  else
    let dw := 2 ^ (2 * W) in
    let '(s1, e1, digits) :=
      if is_pow2 B then
        let bb := Z.log2 B in
        let shift := tz sig / bb in
        let s1 := Z.shiftr sig (shift * bb) in
        (s1, e + shift, (bit_len s1 + bb - 1) / bb)
      else
        let '(s1, e1) := normalize B sig e in         (* while significand % B == 0 { significand /= B; exponent += 1 } *)
        (s1, e1, digits_loop (Z.to_nat (2 * W + 1)) dw B s1 1 1) in
    let prec := match minp with Some p => if digits <? p then p else digits | None => digits end in
    ((if neg then - s1 else s1), e1, prec).

(** the value sign * sig * B^e, normalised; precision = the larger of the digit count and the requested minimum *)
Definition from_parts_const_spec (B : Z) (neg : bool) (sig e : Z) (minp : option Z) : Z * Z * Z :=
  if sig =? 0 then (0, 0, 0)
  else
    let '(s1, e1) := normalize B sig e in
    ((if neg then - s1 else s1), e1, Z.max (dlen B s1) (match minp with Some p => p | None => 0 end)).

(** FBig::from_str (FromStr) = FBig::from_str_native: Repr::from_str_native, then the context gets the precision
    regenerated from the source (the number of written digits); there is no other difference between the two *)
Definition fbig_from_str_asis (B : Z) (text : list Z) : result (Z * Z * Z) :=
  match parse_asis B text with
  | Ok (s, e, nd) => Ok (s, e, fbig_parse_precision_gen nd)
  | Panic r => Panic r
  | Err k => Err k
  | OutOfFuel => OutOfFuel
  end.
