(** C08 specifications: the documented text grammar of floats and its meaning, the text a float must
    print as (plain and scientific layout, formatter precision, padding), precision / base changes,
    import of IEEE binary floats.  Definitions only (proofs: TextIoProof.v, BaseConvProof.v).
    Text = list of byte values (Z).  A float is (s, e) = s * B^e. *)
From Dashu Require Import Base.Prelude Float.RoundSpec Float.Contract Float.Model Int.IoSpec.
From DashuGen Require Import RoundTables.
Open Scope Z_scope.

(** exponents are isize; the correspondence run is made on a 64-bit target *)
Definition isize_min : Z := - 2 ^ 63.
Definition isize_max : Z := 2 ^ 63 - 1.
Definition in_isize (v : Z) : bool := (isize_min <=? v) && (v <=? isize_max).

(* ------------------------------------------------------------------------------------------ *)
(** * grammar (left-to-right reading of the forms listed in the docs of FBig::from_str) *)

(** longest run of digits and '_' : (digit values, characters consumed, rest) *)
Fixpoint span_run (r : Z) (s : list Z) : list Z * Z * list Z :=
  match s with
  | [] => ([], 0, [])
  | c :: t =>
    if c =? 95 then let '(ds, n, rest) := span_run r t in (ds, n + 1, rest)
    else match digit_from_ascii r c with
         | Some d => let '(ds, n, rest) := span_run r t in (d :: ds, n + 1, rest)
         | None => ([], 0, s)
         end
  end.

(** all characters decimal digits *)
Fixpoint dec_digits (s : list Z) : option (list Z) :=
  match s with
  | [] => Some []
  | c :: t => if (48 <=? c) && (c <=? 57)
              then match dec_digits t with Some ds => Some (c - 48 :: ds) | None => None end
              else None
  end.

(** the scale: optional sign, at least one decimal digit, no separators, must fit isize *)
Definition parse_scale (s : list Z) : option Z :=
  let '(sg, b) := match s with 45 :: t => (-1, t) | 43 :: t => (1, t) | _ => (1, s) end in
  match dec_digits b with
  | Some (d :: ds) => let v := sg * digits_value 10 (d :: ds) in if in_isize v then Some v else None
  | _ => None
  end.

(** scale markers per base; [hex] = the text has the 0x prefix (base 2 only) *)
Definition is_marker (B : Z) (hex : bool) (c : Z) : bool :=
  (c =? 64) ||
  (if B =? 10 then (c =? 101) || (c =? 69)
   else if B =? 2 then (if hex then (c =? 112) || (c =? 80) else (c =? 98) || (c =? 66))
   else if B =? 8 then (c =? 111) || (c =? 79)
   else if B =? 16 then (c =? 104) || (c =? 72)
   else false).

Definition strip_float_sign (s : list Z) : Z * list Z :=
  match s with 45 :: t => (-1, t) | 43 :: t => (1, t) | _ => (1, s) end.

Definition strip_hex_prefix (B : Z) (s : list Z) : bool * list Z :=
  if B =? 2 then
    match s with
    | c :: x :: t => if (c =? 48) && ((x =? 120) || (x =? 88)) then (true, t) else (false, s)
    | _ => (false, s)
    end
  else (false, s).

(** [Some (significand, exponent, precision)] for a text of the grammar whose value fits the
    representation, [None] for everything else *)
Definition parse_spec (B : Z) (s : list Z) : option (Z * Z * Z) :=
  let '(sg, s1) := strip_float_sign s in
  let '(hex, s2) := strip_hex_prefix B s1 in
  let r := if hex then 16 else B in
  let per := if hex then 4 else 1 in
  let '(ids, ni, s3) := span_run r s2 in
  let '(fds, nf, s4) := match s3 with
                        | c :: t => if c =? 46 then span_run r t else ([], 0, s3)
                        | [] => ([], 0, s3)
                        end in
  let runs_ok := ((ni =? 0) || negb (len ids =? 0)) && ((nf =? 0) || negb (len fds =? 0))
                 && negb (len ids + len fds =? 0) in
  let scale := match s4 with
               | [] => Some 0
               | c :: t => if is_marker B hex c then parse_scale t else None
               end in
  match scale with
  | None => None
  | Some sc =>
    if runs_ok then
      let v := digits_value r (ids ++ fds) in
      let '(s', e') := normalize B (sg * v) (sc - per * len fds) in
      if in_isize e' then Some (s', e', per * (len ids + len fds)) else None
    else None
  end.

(* ------------------------------------------------------------------------------------------ *)
(** * printing *)

Definition dtext (upper : bool) (B n : Z) : list Z := digit_text upper B n.
Definition zeros (n : Z) : list Z := repeat 48 (Z.to_nat n).

(** a * B^-k (a >= 0, k >= 0) with exactly k fractional digits; the point only if k > 0 *)
Definition fixed_text (B a k : Z) : list Z :=
  dtext false B (a / B ^ k) ++
  (if k =? 0 then [] else 46 :: map (digit_char false) (digits_pad (Z.to_nat k) B (a mod B ^ k))).

(** s * B^e rounded to an integer multiple of B^-p *)
Definition round_to_frac (B : Z) (m : mode) (s e p : Z) : Z :=
  if 0 <=? p + e then s * B ^ (p + e) else spec_round m s (B ^ (- (p + e))).

(** Display: the digits after the sign *)
Definition display_body_spec (B : Z) (m : mode) (s e : Z) (prec : option Z) : list Z :=
  match prec with
  | None => if 0 <=? e then dtext false B (Z.abs s * B ^ e) else fixed_text B (Z.abs s) (- e)
  | Some p => fixed_text B (Z.abs (round_to_frac B m s e p)) p
  end.

Definition itoa (v : Z) : list Z := (if v <? 0 then [45] else []) ++ dtext false 10 (Z.abs v).

(** LowerExp / UpperExp: one digit, point, the rest, marker, decimal exponent.  With a precision p
    exactly p digits follow the point. *)
Definition sci_round (B : Z) (m : mode) (s e p : Z) : Z * Z :=
  let d := dlen B s in
  if d <=? p + 1 then (Z.abs s * B ^ (p + 1 - d), e - (p + 1 - d))
  else
    let k := d - (p + 1) in
    let r := Z.abs (spec_round m s (B ^ k)) in
    if r =? B ^ (p + 1) then (B ^ p, e + k + 1) else (r, e + k).

Definition sci_marker (B : Z) (upper : bool) : Z :=
  if B =? 10 then (if upper then 69 else 101) else 64.

Definition sci_body_spec (B : Z) (m : mode) (upper : bool) (s e : Z) (prec : option Z) : list Z :=
  let '(a, x) := match prec with
                 | None => (Z.abs s, e)
                 | Some p => if s =? 0 then (0, 0) else sci_round B m s e p
                 end in
  let D := dtext upper B a in
  let frac := match prec with
              | Some p => if s =? 0 then zeros p else tl D
              | None => tl D
              end in
  firstn 1 D ++ (if len frac =? 0 then [] else 46 :: frac) ++ [sci_marker B upper] ++
  itoa (if a =? 0 then 0 else x + len D - 1).

(** the formatter's padding for a signed number: sign, then zeros (sign-aware zero padding), or
    fill characters placed according to the alignment (right by default) *)
Definition pad_spec (f : fmtflags) (negative : bool) (body : list Z) : list Z :=
  let sg := if negative then [45] else if f_plus f then [43] else [] in
  let width := len sg + len body in
  match f_width f with
  | None => sg ++ body
  | Some min =>
    if min <=? width then sg ++ body
    else if f_zero f then sg ++ zeros (min - width) ++ body
    else
      let p := min - width in
      let '(l, r) := match f_align f with
                     | Some ALeft => (0, p)
                     | Some ARight | None => (p, 0)
                     | Some ACenter => (p / 2, p - p / 2)
                     end in
      rep l (f_fill f) ++ sg ++ body ++ rep r (f_fill f)
  end.

(** Padding is outside the property: a printed text is acceptable when it is the specified sign and
    body, possibly preceded / followed by fill bytes (only when a width was requested) and with
    zeros between sign and body (only with the zero flag and a width). *)
Fixpoint drop_while_eq (c : Z) (l : list Z) : list Z :=
  match l with x :: t => if x =? c then drop_while_eq c t else l | [] => [] end.
Fixpoint list_eqb (a b : list Z) : bool :=
  match a, b with
  | [], [] => true
  | x :: a', y :: b' => (x =? y) && list_eqb a' b'
  | _, _ => false
  end.
Fixpoint strip_prefix (p l : list Z) : option (list Z) :=
  match p, l with
  | [], _ => Some l
  | x :: p', y :: l' => if x =? y then strip_prefix p' l' else None
  | _, [] => None
  end.
(** [l] = zeros ++ body *)
Fixpoint zeros_then (body l : list Z) : bool :=
  list_eqb l body || match l with 48 :: t => zeros_then body t | _ => false end.

Definition layout_ok (f : fmtflags) (negative : bool) (body got : list Z) : bool :=
  let sg := if negative then [45] else if f_plus f then [43] else [] in
  match f_width f with
  | None => list_eqb got (sg ++ body)
  | Some _ =>
    let fillc := match f_fill f with c :: _ => c | [] => 32 end in
    let g1 := drop_while_eq fillc got in
    let g2 := rev (drop_while_eq fillc (rev g1)) in
    match strip_prefix sg g2 with
    | Some g3 => if f_zero f then zeros_then body g3 else list_eqb g3 body
    | None => false
    end
  end.

Definition display_spec (B : Z) (m : mode) (f : fmtflags) (s e : Z) (prec : option Z) : list Z :=
  pad_spec f (s <? 0) (display_body_spec B m s e prec).

Definition sci_spec (B : Z) (m : mode) (upper : bool) (f : fmtflags) (s e : Z) (prec : option Z) : list Z :=
  pad_spec f (s <? 0) (sci_body_spec B m upper s e prec).

(* ------------------------------------------------------------------------------------------ *)
(** * precision and base changes *)

(** dashu's [Rounding] names the adjustment that was applied to the truncated quotient:
    NoOp = truncated, AddOne / SubOne = one unit added / subtracted *)
Definition adj_flag (N d r : Z) : rounding :=
  match r ?= Z.quot N d with Eq => NoOp | Gt => AddOne | Lt => SubOne end.

(** with_precision: p = 0 is "unlimited" *)
Definition with_precision_spec (B p : Z) (m : mode) (s e : Z) : Z * Z * flag :=
  if (p =? 0) || (dlen B s <=? p) then (s, e, FExact)
  else
    let k := dlen B s - p in
    let r := spec_round m s (B ^ k) in
    let '(s', e') := normalize B r (e + k) in
    (s', e', FInexact (adj_flag s (B ^ k) r)).

(** the value s * B^e as a fraction *)
Definition float_rat (B s e : Z) : xval :=
  if 0 <=? e then XRat (s * B ^ e) 1 else XRat s (B ^ (- e)).

(** largest p' with NB^p' <= B^p  (p >= 0) *)
Definition base_prec_spec (B NB p : Z) : Z :=
  let t := B ^ p in
  let d := dlen NB t in      (* NB^(d-1) <= t < NB^d *)
  d - 1.

(** |r - x| < ulp_p(x) only (used where the implementation goes through ln/exp) *)
Definition check_within_ulp (B p : Z) (x : xval) (s e : Z) : bool :=
  match cmp_kx B 1 x s e with
  | Eq => true
  | _ =>
    if x_is_zero x then false else
    let u := x_exp B x - p + 1 in
    let '(lo_s, lo_e) := f_add_ulp B s e u (-1) in
    let '(hi_s, hi_e) := f_add_ulp B s e u 1 in
    match cmp_kx B 1 x lo_s lo_e, cmp_kx B 1 x hi_s hi_e with Lt, Gt => true | _, _ => false end
  end.

(** |r - x| <= ulp_p(x): the measured envelope of the ln/exp route for p >= 16 (open finding F05) *)
Definition check_within_ulp_incl (B p : Z) (x : xval) (s e : Z) : bool :=
  match cmp_kx B 1 x s e with
  | Eq => true
  | _ =>
    if x_is_zero x then false else
    let u := x_exp B x - p + 1 in
    let '(lo_s, lo_e) := f_add_ulp B s e u (-1) in
    let '(hi_s, hi_e) := f_add_ulp B s e u 1 in
    match cmp_kx B 1 x lo_s lo_e, cmp_kx B 1 x hi_s hi_e with (Lt | Eq), (Gt | Eq) => true | _, _ => false end
  end.

(** are the two bases powers of one another?  [ilog_exact n b] = k if n = b^k (k >= 1) else 0 *)
Fixpoint ilog_exact_fuel (fuel : nat) (n b pow k : Z) : Z :=
  match fuel with
  | O => 0
  | S f => if pow <? n then ilog_exact_fuel f n b (pow * b) (k + 1) else if pow =? n then k else 0
  end.
Definition ilog_exact (n b : Z) : Z := if n <? b then 0 else ilog_exact_fuel 64 n b b 1.
Definition power_related (B NB : Z) : bool :=
  (B =? NB) || (1 <? ilog_exact NB B) || (1 <? ilog_exact B NB).

(* ------------------------------------------------------------------------------------------ *)
(** * IEEE binary interchange formats: (mantissa, exponent) of a finite bit pattern *)

Inductive ieee := IFinite (m e : Z) | IInf (neg : bool) | INan.

(** [mw] = stored mantissa bits (23 / 52), [ew] = exponent bits (8 / 11) *)
Definition ieee_decode (mw ew bits : Z) : ieee :=
  let frac := bits mod 2 ^ mw in
  let ex := (bits / 2 ^ mw) mod 2 ^ ew in
  let neg := 0 <? (bits / 2 ^ (mw + ew)) mod 2 in
  let bias := 2 ^ (ew - 1) - 1 in
  if ex =? 2 ^ ew - 1 then (if frac =? 0 then IInf neg else INan)
  else
    let '(m, e) := if ex =? 0 then (frac, 1 - bias - mw) else (frac + 2 ^ mw, ex - bias - mw) in
    IFinite (if neg then - m else m) e.

Definition bit_len (v : Z) : Z := if v =? 0 then 0 else Z.log2 (Z.abs v) + 1.

(** FBig::try_from(f32/f64): exact value, precision = bit length of the mantissa *)
Definition from_ieee_spec (mw ew bits : Z) : option (Z * Z * Z) :=
  match ieee_decode mw ew bits with
  | IFinite m e => let '(s', e') := normalize 2 m e in Some (s', e', bit_len m)
  | _ => None
  end.
