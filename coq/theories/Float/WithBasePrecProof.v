(** C08: the precision chosen by FBig::with_base.
    (1) From SOUND log2 bounds (lb <= log2 (B^p), log2 NB <= ub - the contract C12 checks) every integer n <= lb / ub
        satisfies NB^n <= B^p.
    (2) The f32 division (round to nearest even) is monotone and keeps integers below 2^24, therefore the code's
        choice floor (fl (lb / ub)) is floor (lb / ub), or floor (lb / ub) + 1 exactly when the division rounded a
        non-integer quotient up to that integer.  In the first case the rule NB^p' <= B^p follows from (1); in the
        second case it holds for p' - 1 (and for p' itself iff NB^p' <= B^p, which the correspondence run decides on
        every instance).
    (3) The as-is model of the division [f32_div_rne] has the two properties used in (2). *)
From Coq Require Import ZArith Bool Lia Psatz.
From Dashu Require Import Float.WithBasePrec.
Open Scope Z_scope.

Lemma pow_le_from_pow x y k : 0 <= x -> 0 <= y -> 0 < k -> x ^ k <= y ^ k -> x <= y.
Proof.
  intros Hx Hy Hk H. destruct (Z.le_gt_cases x y) as [L|G]; [exact L|].
  pose proof (Z.pow_lt_mono_l y x k Hk ltac:(lia)). lia.
Qed.

(** the computed quotient q = qn / qd of lb = ln / ld by ub = un / ud under the contract of a correctly rounded
    division: integers below 2^24 stay on their side of the exact quotient *)
Section Quot.
Variables ln ld un ud : Z.
Hypothesis ln_nonneg : 0 <= ln.
Hypothesis ld_pos : 0 < ld.
Hypothesis un_pos : 0 < un.
Hypothesis ud_pos : 0 < ud.
Variables qn qd : Z.
Hypothesis qd_pos : 0 < qd.
Hypothesis qn_nonneg : 0 <= qn.
Hypothesis div_keeps_integers : forall n, 0 <= n < 2 ^ 24 ->
  (n * (un * ld) <= ln * ud -> n * qd <= qn) /\ (ln * ud <= n * (un * ld) -> qn <= n * qd).
Hypothesis in_range : (ln * ud) / (un * ld) + 1 < 2 ^ 24.

Theorem code_prec_cases :
  let x := (ln * ud) / (un * ld) in
  let p' := qn / qd in
  p' = x \/ (p' = x + 1 /\ qn = p' * qd /\ (ln * ud) mod (un * ld) <> 0).
Proof.
  intros x p'. set (N := ln * ud) in *. set (Dn := un * ld) in *.
  assert (PD : 0 < Dn) by (unfold Dn; nia).
  assert (N0 : 0 <= N) by (unfold N; nia).
  pose proof (Z.div_mod N Dn ltac:(lia)) as DM. pose proof (Z.mod_pos_bound N Dn PD) as MB. fold x in DM.
  assert (X0 : 0 <= x) by (apply Z.div_pos; lia).
  destruct (div_keeps_integers x ltac:(lia)) as [L1 _].
  destruct (div_keeps_integers (x + 1) ltac:(lia)) as [_ U1].
  specialize (L1 ltac:(nia)). specialize (U1 ltac:(nia)).
  pose proof (Z.div_mod qn qd ltac:(lia)) as QM. pose proof (Z.mod_pos_bound qn qd qd_pos) as QB. fold p' in QM.
  assert (x <= p') by (apply Z.div_le_lower_bound; lia).
  assert (p' <= x + 1) by (apply Z.div_le_upper_bound; lia || nia).
  destruct (Z.eq_dec p' x) as [E|E]; [left; exact E | right].
  assert (Ep : p' = x + 1) by lia. split; [exact Ep|]. split; [nia|].
  intros M0. destruct (div_keeps_integers x ltac:(lia)) as [_ U0]. specialize (U0 ltac:(nia)). nia.
Qed.
End Quot.

Section Rule.
Variables B NB p : Z.
Hypothesis B_ge_2 : 2 <= B.
Hypothesis NB_ge_2 : 2 <= NB.
Hypothesis p_nonneg : 0 <= p.
(** lb = ln / ld,  ub = un / ud *)
Variables ln ld un ud : Z.
Hypothesis ln_nonneg : 0 <= ln.
Hypothesis ld_pos : 0 < ld.
Hypothesis un_pos : 0 < un.
Hypothesis ud_pos : 0 < ud.
(** soundness of the two bounds, in integers: 2^lb <= B^p and NB <= 2^ub *)
Hypothesis lb_sound : 2 ^ ln <= (B ^ p) ^ ld.
Hypothesis ub_sound : NB ^ ud <= 2 ^ un.

Theorem prec_rule_of_quotient n : 0 <= n -> n * (un * ld) <= ln * ud -> NB ^ n <= B ^ p.
Proof.
  intros Hn Hq.
  assert (PB : 0 < B ^ p) by (apply Z.pow_pos_nonneg; lia).
  assert (PN : 0 < NB ^ n) by (apply Z.pow_pos_nonneg; lia).
  apply (pow_le_from_pow _ _ (ud * ld)); try lia.
  rewrite <- Z.pow_mul_r by lia. replace (n * (ud * ld)) with (ud * (n * ld)) by ring. rewrite Z.pow_mul_r by lia.
  eapply Z.le_trans; [apply Z.pow_le_mono_l; split; [apply Z.pow_nonneg; lia | exact ub_sound]|].
  rewrite <- Z.pow_mul_r by lia.
  eapply Z.le_trans; [apply (Z.pow_le_mono_r 2 _ (ln * ud)); lia|].
  rewrite Z.pow_mul_r by lia.
  eapply Z.le_trans; [apply Z.pow_le_mono_l; split; [apply Z.pow_nonneg; lia | exact lb_sound]|].
  rewrite <- Z.pow_mul_r by lia. replace (ld * ud) with (ud * ld) by ring. lia.
Qed.

Variables qn qd : Z.
Hypothesis qd_pos : 0 < qd.
Hypothesis qn_nonneg : 0 <= qn.
Hypothesis div_keeps_integers : forall n, 0 <= n < 2 ^ 24 ->
  (n * (un * ld) <= ln * ud -> n * qd <= qn) /\ (ln * ud <= n * (un * ld) -> qn <= n * qd).
Hypothesis in_range : (ln * ud) / (un * ld) + 1 < 2 ^ 24.

Theorem code_prec_rule :
  let p' := qn / qd in
  (p' = (ln * ud) / (un * ld) -> NB ^ p' <= B ^ p) /\ (1 <= p' -> NB ^ (p' - 1) <= B ^ p).
Proof.
  intros p'.
  assert (C : qn / qd = (ln * ud) / (un * ld) \/
              (qn / qd = (ln * ud) / (un * ld) + 1 /\ qn = qn / qd * qd /\ (ln * ud) mod (un * ld) <> 0))
    by (apply code_prec_cases; assumption).
  fold p' in C.
  set (N := ln * ud) in *. set (Dn := un * ld) in *.
  assert (PD : 0 < Dn) by (unfold Dn; nia). assert (N0 : 0 <= N) by (unfold N; nia).
  pose proof (Z.div_mod N Dn ltac:(lia)) as DM. pose proof (Z.mod_pos_bound N Dn PD) as MB.
  assert (X0 : 0 <= N / Dn) by (apply Z.div_pos; lia).
  split.
  - intros E. apply prec_rule_of_quotient; [lia|]. fold Dn. fold N. rewrite E. nia.
  - intros H1. apply prec_rule_of_quotient; [lia|]. fold Dn. fold N. destruct C as [E|[E _]]; rewrite E; nia.
Qed.

End Rule.

(* ------------------------------------------------------------------------------------------ *)
(** * the as-is division keeps integers below 2^24 on their side of the exact quotient *)

Lemma log2_bounds_pos a : 0 < a -> 2 ^ Z.log2 a <= a < 2 ^ (Z.log2 a + 1).
Proof. intros H. pose proof (Z.log2_spec a H). replace (Z.log2 a + 1) with (Z.succ (Z.log2 a)) by lia. lia. Qed.

(** rounding a quotient Q + Rm/m2 (in units of the last of d dropped bits) to nearest even keeps every integer M of
    the kept positions on its side of the exact quotient A / m2 *)
Lemma rne_core A m2 d M : 0 < A -> 0 < m2 -> 1 <= d ->
  let Q := A / m2 in let Rm := A mod m2 in
  let hi := Q / 2 ^ d in let lo := Q mod 2 ^ d in let half := 2 ^ (d - 1) in
  let up := (half <? lo) || ((lo =? half) && (negb (Rm =? 0) || Z.odd hi)) in
  let r := if up then hi + 1 else hi in
  (M * 2 ^ d * m2 <= A -> M <= r) /\ (A <= M * 2 ^ d * m2 -> r <= M).
Proof.
  intros HA Hm Hd Q Rm hi lo half up r.
  assert (P2 : 0 < 2 ^ d) by (apply Z.pow_pos_nonneg; lia).
  pose proof (Z.div_mod A m2 ltac:(lia)) as DA. pose proof (Z.mod_pos_bound A m2 Hm) as BA. fold Q in DA. fold Rm in DA, BA.
  pose proof (Z.div_mod Q (2 ^ d) ltac:(lia)) as DQ. pose proof (Z.mod_pos_bound Q (2 ^ d) P2) as BQ. fold hi in DQ. fold lo in DQ, BQ.
  assert (Hr : hi <= r <= hi + 1) by (unfold r; destruct up; lia).
  clearbody Q Rm hi lo.
  split.
  - intros H. assert (M * 2 ^ d <= Q) by nia. nia.
  - intros H. destruct (Z.lt_ge_cases hi M) as [L|G]; [lia|].
    (* M <= hi: then M * 2^d <= Q <= A / m2 <= M * 2^d, so the quotient is exactly M * 2^d: nothing is dropped *)
    assert (Hq : Q * m2 <= A) by (clear - DA BA; nia).
    assert (Hq2 : Q <= M * 2 ^ d) by (clear - H Hq Hm DA BA; nia).
    assert (E1 : hi = M) by (clear - Hq2 DQ BQ G P2; nia).
    assert (E2 : lo = 0) by (clear - Hq2 DQ BQ E1 P2; nia).
    assert (E3 : Rm = 0) by (clear - H DA BA DQ E1 E2 Hm; nia).
    assert (Hu : up = false).
    { unfold up. rewrite E2, E3.
      assert (0 < half) by (unfold half; apply Z.pow_pos_nonneg; lia).
      destruct (Z.ltb_spec half 0); [lia|]. destruct (Z.eqb_spec 0 half); [lia|]. reflexivity. }
    unfold r. rewrite Hu. lia.
Qed.

(** a <= b * 2^k for an integer k of either sign *)
Definition le2 (a b k : Z) : Prop := if 0 <=? k then a <= b * 2 ^ k else a * 2 ^ (- k) <= b.
Definition ge2 (a b k : Z) : Prop := if 0 <=? k then b * 2 ^ k <= a else b <= a * 2 ^ (- k).

Lemma le2_scale a b k j : 0 <= j -> 0 <= k + j -> le2 a b k -> a * 2 ^ j <= b * 2 ^ (k + j).
Proof.
  intros Hj Hkj H. unfold le2 in H. assert (P : 0 < 2 ^ j) by (apply Z.pow_pos_nonneg; lia).
  destruct (Z.leb_spec 0 k).
  - rewrite Z.pow_add_r by lia. nia.
  - replace j with ((k + j) + (- k)) at 1 by lia. rewrite (Z.pow_add_r 2 (k + j) (- k)) by lia.
    assert (0 < 2 ^ (k + j)) by (apply Z.pow_pos_nonneg; lia). nia.
Qed.

Lemma ge2_scale a b k j : 0 <= j -> 0 <= k + j -> ge2 a b k -> b * 2 ^ (k + j) <= a * 2 ^ j.
Proof.
  intros Hj Hkj H. unfold ge2 in H. assert (P : 0 < 2 ^ j) by (apply Z.pow_pos_nonneg; lia).
  destruct (Z.leb_spec 0 k).
  - rewrite Z.pow_add_r by lia. nia.
  - replace j with ((k + j) + (- k)) at 2 by lia. rewrite (Z.pow_add_r 2 (k + j) (- k)) by lia.
    assert (0 < 2 ^ (k + j)) by (apply Z.pow_pos_nonneg; lia). nia.
Qed.

(** the as-is division: an integer n that is at most (at least) the exact quotient m1 * 2^e1 / (m2 * 2^e2) is at most
    (at least) the computed one, whenever the unit of the computed quotient is at most 1 (quotient below 2^24) *)
Theorem f32_div_rne_keeps_integers m1 e1 m2 e2 n : 0 < m1 -> 0 < m2 -> 0 <= n ->
  let '(qm, qe) := f32_div_rne m1 e1 m2 e2 in
  qe <= 0 ->
  (le2 (n * m2) m1 (e1 - e2) -> n * 2 ^ (- qe) <= qm) /\ (ge2 (n * m2) m1 (e1 - e2) -> qm <= n * 2 ^ (- qe)).
Proof.
  intros H1 H2 Hn. unfold f32_div_rne.
  set (t := Z.max 0 (26 + Z.log2 m2 - Z.log2 m1)). set (A := m1 * 2 ^ t).
  set (Q := A / m2). set (d := Z.log2 Q + 1 - 24). intros Hqe.
  assert (Ht : 0 <= t) by (unfold t; lia).
  assert (PA : 0 < A) by (unfold A; pose proof (Z.pow_pos_nonneg 2 t ltac:(lia) Ht); nia).
  (* Q has at least 26 bits *)
  assert (HQ : 2 ^ 25 <= Q).
  { unfold Q. apply Z.div_le_lower_bound; [lia|].
    pose proof (log2_bounds_pos m1 H1) as [L1 _]. pose proof (log2_bounds_pos m2 H2) as [_ U2].
    pose proof (Z.log2_nonneg m1). pose proof (Z.log2_nonneg m2).
    assert (2 ^ 25 * 2 ^ (Z.log2 m2 + 1) <= 2 ^ Z.log2 m1 * 2 ^ t).
    { rewrite <- !Z.pow_add_r by lia. apply Z.pow_le_mono_r; unfold t; lia. }
    unfold A. pose proof (Z.pow_pos_nonneg 2 t ltac:(lia) Ht). nia. }
  assert (Hd : 2 <= d).
  { unfold d. assert (25 <= Z.log2 Q) by (apply Z.log2_le_pow2; lia). lia. }
  set (qe := e1 - e2 - t + d) in *.
  pose proof (rne_core A m2 d (n * 2 ^ (- qe)) PA H2 ltac:(lia)) as C. cbv zeta in C. fold Q in C.
  destruct C as [C1 C2]. split.
  - intros L. apply C1. pose proof (le2_scale (n * m2) m1 (e1 - e2) (d - qe) ltac:(lia) ltac:(unfold qe; lia) L) as S.
    replace (e1 - e2 + (d - qe)) with t in S by (unfold qe; lia). fold A in S.
    replace (d - qe) with (- qe + d) in S by lia. rewrite Z.pow_add_r in S by lia. nia.
  - intros G. apply C2. pose proof (ge2_scale (n * m2) m1 (e1 - e2) (d - qe) ltac:(lia) ltac:(unfold qe; lia) G) as S.
    replace (e1 - e2 + (d - qe)) with t in S by (unfold qe; lia). fold A in S.
    replace (d - qe) with (- qe + d) in S by lia. rewrite Z.pow_add_r in S by lia. nia.
Qed.

(** non-vacuity and the observed patterns: 10^3 to base 2 (9), 2^53 to base 10 (15), 2^24727 to base 3 (15600: the
    convergent 24727/15601 of log2 3 lies within the rounding error of the quotient, the bounds keep it safe),
    3^4 to base 9 (1: one less than the exact 2, because the bounds of a power-related pair are not tight) *)
Example with_base_prec_code_ex :
  with_base_prec_code 0x411f73d9 0x3f800000 = Some (10449881, -20, 9) /\
  with_base_prec_code 0x42540000 0x40549a79 = Some (16729599, -20, 15) /\
  with_base_prec_code 0x46c12dfd 0x3fcae00e = Some (15975419, -10, 15600) /\
  with_base_prec_code 0x40cae00c 0x404ae00e = Some (16777213, -23, 1).
Proof. vm_compute. repeat split. Qed.
