(** C03 round 4, definitions only (proofs: FixAddProof.v, FixMulDivProof.v, FixBodiesProof.v).

    As-is models of float/src/{add,mul,div}.rs AFTER the repairs of the two findings about operands longer
    than the precision:
    - add_overlong_cancellation: Context::repr_round_sum repeats its expansion step until `precision` digits
      stand in front of the rounding position (a loop: fuel + OutOfFuel, FixAddProof.expand_loop_fuel);
    - overlong_operand_double_rounding: Context::mul / sqr / cubic round the exact product once (no
      pre-shrinking), Context::repr_div divides an over-long dividend by rhs * B^shift instead of rounding the
      dividend first (Context::div / inv and FBig / FBig go through it).
    Operands that fit the precision take the same paths as before (FixAddProof.ctx_add_fix_eq_old ...).
    A float is (s, e) = s * B^e; IBig arithmetic is Z arithmetic. *)
From Dashu Require Import Base.Prelude Float.RoundSpec Float.Contract Float.Model Float.AddModel Float.DivMulModel
  Float.LongModel.
From DashuGen Require Import RoundTables.
Open Scope Z_scope.

Definition bind_approx (r : result approx) (f : approx -> approx) : result approx :=
  match r with Ok a => Ok (f a) | Panic c => Panic c | Err c => Err c | OutOfFuel => OutOfFuel end.

Section FixModel.
Variable B : Z.
Variable digits_ub : Z -> Z.

(* ------------------------------------------------------------------ addition *)
(** one expansion step of repr_round_sum (the body of the `while` loop up to the break test):
    the significand has d < rp digits, shift = min(low_prec, rp - d) digits move up from the low part *)
Definition expand_step (rp sig e low lp d : Z) : Z * Z * Z * Z :=
  let shift := Z.min lp (rp - d) in
  let '(pad, low') := split_digits B low (lp - shift) in
  (shl_digits B sig shift + pad, e - shift, low', lp - shift).

(** the break test: `precision` digits in front of the rounding position, also after a low part of the
    other sign took one unit away *)
Definition head_ok (p sig low : Z) : bool := (dlen B sig >=? p) && (dlen B (sig + Z.sgn low) >=? p).

(** `while digits < rnd_precision && !low.0.is_zero() { step; if head_ok { break } }` *)
Fixpoint expand_loop (fuel : nat) (p rp sig e low lp d : Z) : option (Z * Z * Z * Z) :=
  if (d <? rp) && negb (low =? 0) then
    match fuel with
    | O => None
    | S f =>
        let '(sig', e', low', lp') := expand_step rp sig e low lp d in
        if head_ok p sig' low' then Some (sig', e', low', lp')
        else expand_loop f p rp sig' e' low' lp' (dlen B sig')
    end
  else Some (sig, e, low, lp).

(** the `match digits.cmp(&rnd_precision)` of repr_round_sum; the low-part precision decreases in every
    round of the loop, so lp + 1 rounds always suffice *)
Definition realign_fix (p rp sig e low lp : Z) : option (Z * Z * Z * Z) :=
  let d := dlen B sig in
  match d ?= rp with
  | Eq => Some (sig, e, low, lp)
  | Gt =>
      let shift := d - rp in
      let '(hi, lo) := split_digits B sig shift in
      Some (hi, e + shift, low + shl_digits B lo lp, lp + shift)
  | Lt => expand_loop (Z.to_nat lp + 1) p rp sig e low lp d
  end.

Definition rrs_tail_f (m : mode) (sig e low lp : Z) : approx :=
  if low =? 0 then AExact sig e
  else let a := round_fract B m sig low lp in AInexact (sig + adj a) e a.

(** Context::repr_round_sum, repaired *)
Definition repr_round_sum_fix (p : Z) (m : mode) (sig e low lp : Z) (is_sub : bool) : result approx :=
  if p =? 0 then Ok (AExact sig e)
  else
    match realign_fix p (p + b2z is_sub) sig e low lp with
    | Some (s, e', l, k) => Ok (rrs_tail_f m s e' l k)
    | None => OutOfFuel
    end.

(** Context::repr_add_large_small / repr_add_small_large: unchanged text, they end in the repaired
    repr_round_sum *)
Definition repr_add_large_small_fix (p : Z) (m : mode) (s1 e1 s2 e2 : Z) (sg : sign) : result approx :=
  let is_sub := negb (sign_eqb (sign_of s1) (sign_mul sg (sign_of s2))) in
  let rp := p + b2z is_sub in
  let ediff := e1 - e2 in
  let ld := dlen B s1 in
  let rd := digits_ub s2 in
  let lim := negb (p =? 0) in
  if lim && (rd + 1 <? ediff) && (rd + 1 + rp <? ld + ediff) then
    repr_round_sum_fix p m s1 e1 (sgnz sg * Z.sgn s2) (far_low_prec rp ld) is_sub
  else if lim && (ld >=? p) then
    let '(hi, lo) := split_digits B s2 ediff in
    repr_round_sum_fix p m (s1 + sgnz sg * hi) e1 (sgnz sg * lo) ediff is_sub
  else if lim && (ediff + ld >? p) then
    let lshift := p - ld in
    let rshift := ediff - lshift in
    let '(hi, lo) := split_digits B s2 rshift in
    repr_round_sum_fix p m (shl_digits B s1 lshift + sgnz sg * hi) (e1 - lshift) (sgnz sg * lo) rshift is_sub
  else
    repr_round_sum_fix p m (shl_digits B s1 ediff + sgnz sg * s2) e2 0 0 is_sub.

Definition repr_add_small_large_fix (p : Z) (m : mode) (s1 e1 s2 e2 : Z) (sg : sign) : result approx :=
  let is_sub := negb (sign_eqb (sign_of s1) (sign_mul sg (sign_of s2))) in
  let rp := p + b2z is_sub in
  let ediff := e2 - e1 in
  let rd := dlen B s2 in
  let ld := digits_ub s1 in
  let lim := negb (p =? 0) in
  if lim && (ld + 1 <? ediff) && (ld + 1 + rp <? rd + ediff) then
    repr_round_sum_fix p m (sgnz sg * s2) e2 (Z.sgn s1) (far_low_prec rp rd) is_sub
  else if lim && (rd >=? p) then
    let '(hi, lo) := split_digits B s1 ediff in
    repr_round_sum_fix p m (hi + sgnz sg * s2) e2 lo ediff is_sub
  else if lim && (ediff + rd >? p) then
    let lshift := p - rd in
    let rshift := ediff - lshift in
    let '(hi, lo) := split_digits B s1 rshift in
    repr_round_sum_fix p m (sgnz sg * shl_digits B s2 lshift + hi) (e2 - lshift) lo rshift is_sub
  else
    repr_round_sum_fix p m (sgnz sg * shl_digits B s2 ediff + s1) e1 0 0 is_sub.

Definition add_dispatch_fix (p : Z) (m : mode) (s1 e1 s2 e2 : Z) (sg : sign) : result approx :=
  match e1 ?= e2 with
  | Eq => let '(s, e) := normalize B (s1 + sgnz sg * s2) e1 in Ok (repr_round B p m s e)
  | Gt => repr_add_large_small_fix p m s1 e1 s2 e2 sg
  | Lt => repr_add_small_large_fix p m s1 e1 s2 e2 sg
  end.

(** Context::add / Context::sub *)
Definition ctx_add_fix (p : Z) (m : mode) (s1 e1 s2 e2 : Z) : result approx :=
  if s1 =? 0 then Ok (repr_round B p m s2 e2)
  else if s2 =? 0 then Ok (repr_round B p m s1 e1)
  else add_dispatch_fix p m s1 e1 s2 e2 Positive.

Definition ctx_sub_fix (p : Z) (m : mode) (s1 e1 s2 e2 : Z) : result approx :=
  if s1 =? 0 then Ok (repr_round B p m (- s2) e2)
  else if s2 =? 0 then Ok (repr_round B p m s1 e1)
  else add_dispatch_fix p m s1 e1 s2 e2 Negative.

(** ... with every Repr::new (what the implementation stores, digit for digit) *)
Definition add_dispatch_fix_n (p : Z) (m : mode) (s1 e1 s2 e2 : Z) (sg : sign) : result approx :=
  match e1 ?= e2 with
  | Eq => let '(s, e) := normalize B (s1 + sgnz sg * s2) e1 in Ok (repr_round_n B p m s e)
  | Gt => bind_approx (repr_add_large_small_fix p m s1 e1 s2 e2 sg) (norm_approx B)
  | Lt => bind_approx (repr_add_small_large_fix p m s1 e1 s2 e2 sg) (norm_approx B)
  end.
Definition ctx_add_fix_n (p : Z) (m : mode) (s1 e1 s2 e2 : Z) : result approx :=
  if s1 =? 0 then Ok (repr_round_n B p m s2 e2)
  else if s2 =? 0 then Ok (repr_round_n B p m s1 e1)
  else add_dispatch_fix_n p m s1 e1 s2 e2 Positive.
Definition ctx_sub_fix_n (p : Z) (m : mode) (s1 e1 s2 e2 : Z) : result approx :=
  if s1 =? 0 then Ok (repr_round_n B p m (- s2) e2)
  else if s2 =? 0 then Ok (repr_round_n B p m s1 e1)
  else add_dispatch_fix_n p m s1 e1 s2 e2 Negative.

(* ------------------------------------------------------------------ multiplication *)
(** Context::mul / sqr / cubic, repaired: Repr::new of the exact product, one repr_round *)
Definition ctx_mul_fix (p : Z) (m : mode) (s1 e1 s2 e2 : Z) : approx :=
  let '(s, e) := normalize B (s1 * s2) (e1 + e2) in repr_round B p m s e.
Definition ctx_sqr_fix (p : Z) (m : mode) (s e : Z) : approx :=
  let '(s', e') := normalize B (s * s) (2 * e) in repr_round B p m s' e'.
Definition ctx_cubic_fix (p : Z) (m : mode) (s e : Z) : approx :=
  let '(s', e') := normalize B (s * s * s) (3 * e) in repr_round B p m s' e'.
Definition ctx_mul_fix_n (p : Z) (m : mode) (s1 e1 s2 e2 : Z) : approx :=
  let '(s, e) := normalize B (s1 * s2) (e1 + e2) in repr_round_n B p m s e.
Definition ctx_sqr_fix_n (p : Z) (m : mode) (s e : Z) : approx :=
  let '(s', e') := normalize B (s * s) (2 * e) in repr_round_n B p m s' e'.
Definition ctx_cubic_fix_n (p : Z) (m : mode) (s e : Z) : approx :=
  let '(s', e') := normalize B (s * s * s) (3 * e) in repr_round_n B p m s' e'.

(* ------------------------------------------------------------------ division *)
(** the divisor Context::repr_div works with: rhs * B^shift at exponent e2 - shift when the dividend has
    more than precision + digits(rhs) digits *)
Definition div_scale (p s1 s2 e2 : Z) : Z * Z :=
  let ld := dlen B s1 in
  let rd := dlen B s2 in
  if ld >? p + rd then let shift := ld - p - rd in (shl_digits B s2 shift, e2 - shift) else (s2, e2).

(** Context::repr_div, repaired (the precision test comes first, as in the code) *)
Definition repr_div_fix (p : Z) (m : mode) (s1 e1 s2 e2 : Z) : result approx :=
  if p =? 0 then Panic UnlimitedPrecision
  else let '(s2', e2') := div_scale p s1 s2 e2 in repr_div B p m s1 e1 s2' e2'.

(** Context::div / Context::inv: repr_div of the operands as they are; FBig / FBig in its four forms *)
Definition ctx_div_fix := repr_div_fix.
Definition ctx_inv_fix (p : Z) (m : mode) (s e : Z) : result approx := repr_div_fix p m 1 0 s e.
Definition fbig_div_fix (p1 p2 : Z) (m : mode) (s1 e1 s2 e2 : Z) : result (Z * Z) :=
  map_val (repr_div_fix (ctx_max p1 p2) m s1 e1 s2 e2).
Definition repr_div_fix_n (p : Z) (m : mode) (s1 e1 s2 e2 : Z) : result approx :=
  map_approx (norm_approx B) (repr_div_fix p m s1 e1 s2 e2).
Definition ctx_inv_fix_n (p : Z) (m : mode) (s e : Z) : result approx := repr_div_fix_n p m 1 0 s e.

End FixModel.

(** executable instances for the oracle: the exact digit count and the worst admissible over-estimate *)
Definition ctx_add_fix_x (B : Z) := ctx_add_fix B (dlen B).
Definition ctx_sub_fix_x (B : Z) := ctx_sub_fix B (dlen B).
Definition ctx_add_fix_x1 (B : Z) := ctx_add_fix B (fun s => dlen B s + 1).
Definition ctx_sub_fix_x1 (B : Z) := ctx_sub_fix B (fun s => dlen B s + 1).
Definition ctx_add_fix_n_x (B : Z) := ctx_add_fix_n B (dlen B).
Definition ctx_sub_fix_n_x (B : Z) := ctx_sub_fix_n B (dlen B).
