(** C10 round 3, definitions only (proofs: RoundOpsDeepProof.v, RoundPrimGenProof.v, RoundTwiceProof.v):

    - the PUBLIC entry points of float/src/round_ops.rs and convert.rs as they are, from the finiteness
      assertion on: a Repr is (s, e); (0, e) with e <> 0 is an infinity (Repr::is_infinite), every entry
      point of C10 starts with assert_finite (panic "arithmetic operations with the infinity are not
      allowed") except with_precision, which only reaches it through Context::repr_round;
    - the same entry points over an ARBITRARY implementation [rf] of Round::round_fract, so that the
      f32 pre-filter of the code (Float/DivMulModel.round_fract_f32, proved equal to the exact comparison
      in C03: FilterProof.round_fract_f32_eq, F32Flocq.round_fract_flocq32) can be plugged in;
    - the two public primitives with their assertions as written (debug_assert of round_fract, assert
      of round_ratio), for arbitrary user input;
    - compositions: with_precision twice, with_rounding then with_precision, conversion to the same base. *)
From Dashu Require Import Base.Prelude Float.RoundSpec Float.Contract Float.Model Float.RoundOpsModel.
From DashuGen Require Import RoundTables.
Open Scope Z_scope.

(** Repr::is_infinite *)
Definition is_inf (s e : Z) : bool := (s =? 0) && negb (e =? 0).

(** error::assert_finite *)
Definition assert_finite {A} (s e : Z) (k : result A) : result A :=
  if is_inf s e then Panic OperateWithInf else k.

Definition rmap {A C} (f : A -> C) (x : result A) : result C := rbind x (fun a => Ok (f a)).

Section Full.
Variable B : Z.
Variable digits_ub : Z -> Z.
(** Round::round_fract after its debug assertion: Model.round_fract, or the code's f32-filtered closure *)
Variable rf : mode -> Z -> Z -> Z -> rounding.

Definition round_fract_chk_rf (m : mode) (i f k : Z) : result rounding :=
  if Z.abs f <? B ^ k then Ok (rf m i f k) else Panic Undocumented.

Definition round_to_rf (m : mode) (p s e : Z) : result fl :=
  let '(hi, lo, k) := split_internal B digits_ub false p s e in
  rbind (round_fract_chk_rf m hi lo k) (fun a => Ok (mk (normalize B (hi + adj a) 0) (sat_sub p k))).

Definition ceil_rf (p s e : Z) : result fl :=
  if (s =? 0) || (0 <=? e) then Ok (s, e, p)
  else if smaller_than_one digits_ub s e then Ok (if 0 <=? s then FONE else FZERO)
  else round_to_rf MUp p s e.

Definition floor_rf (p s e : Z) : result fl :=
  if 0 <=? e then Ok (s, e, p)
  else if smaller_than_one digits_ub s e then Ok (if 0 <=? s then FZERO else FNEG_ONE)
  else round_to_rf MDown p s e.

Definition round_rf (p s e : Z) : result fl :=
  if 0 <=? e then Ok (s, e, p)
  else if e + digits_ub s <? -2 then Ok FZERO
  else round_to_rf MHalfAway p s e.

Definition to_int_rf (m : mode) (p s e : Z) : result iapprox :=
  if 0 <=? e then Ok (IExact (s * B ^ e))
  else let '(hi, lo, k) := split_internal B digits_ub false p s e in
       rbind (round_fract_chk_rf m hi lo k) (fun a => Ok (IInexact (hi + adj a) a)).

(** Context::repr_round after assert_finite *)
Definition repr_round_rf (p : Z) (m : mode) (s e : Z) : result approx :=
  if p =? 0 then Ok (AExact s e)
  else
    let d := dlen B s in
    if d >? p then
      let shift := d - p in
      let '(hi, lo) := split_digits B s shift in
      rbind (round_fract_chk_rf m hi lo shift) (fun a => Ok (AInexact (hi + adj a) (e + shift) a))
    else Ok (AExact s e).

(* ---------------------------------------------------------------- the public entry points *)
Definition trunc_full (p s e : Z) : result fl := assert_finite s e (Ok (trunc_asis B digits_ub p s e)).
Definition fract_full (p s e : Z) : result fl := assert_finite s e (Ok (fract_asis B digits_ub false p s e)).
Definition split_full (p s e : Z) : result (fl * fl) := assert_finite s e (Ok (split_asis B digits_ub p s e)).
Definition ceil_full (p s e : Z) : result fl := assert_finite s e (ceil_rf p s e).
Definition floor_full (p s e : Z) : result fl := assert_finite s e (floor_rf p s e).
Definition round_full (p s e : Z) : result fl := assert_finite s e (round_rf p s e).
Definition to_int_full (m : mode) (p s e : Z) : result iapprox := assert_finite s e (to_int_rf m p s e).
Definition repr_to_int_full (s e : Z) : result iapprox := assert_finite s e (Ok (repr_to_int_asis B digits_ub s e)).

(** FBig::with_precision: finiteness is only asserted inside Context::repr_round, i.e. when the float
    is actually handed to the rounding (old precision unlimited or larger than the new one) *)
Definition with_precision_full (m : mode) (p s e np : Z) : result approx :=
  if (p =? 0) || (p >? np) then assert_finite s e (rmap (norm_approx B) (repr_round_rf np m s e))
  else Ok (AExact s e).

(** FBig::with_rounding::<NewR>: the representation and the precision stay, only the mode of the type
    changes; followed by with_precision it is one rounding under the NEW mode *)
Definition with_rounding_then_precision (m_old m_new : mode) (p s e np : Z) : result approx :=
  with_precision_full m_new p s e np.

(** with_base_and_precision::<B> to the SAME base (Context::convert_base, shortcuts 1 and 2):
    infinities map to themselves "inexactly", everything else is one repr_round, whatever the old precision *)
Definition with_same_base_full (m : mode) (s e np : Z) : result approx :=
  if is_inf s e then Ok (AInexact s e NoOp)
  else rmap (norm_approx B) (repr_round_rf np m s e).

(** x.with_precision(np1).value().with_precision(np2) *)
Definition with_precision_twice (m : mode) (p s e np1 np2 : Z) : result (approx * approx) :=
  rbind (with_precision_full m p s e np1) (fun a1 =>
  rbind (with_precision_full m np1 (approx_sig a1) (approx_exp a1) np2) (fun a2 => Ok (a1, a2))).

End Full.

(* ---------------------------------------------------------------- the two primitives, any input *)

(** Round::round_fract::<B>(integer, fract, precision) in a build with debug assertions (the harness's)
    and in a release build (no assertion) *)
Definition round_fract_debug (B : Z) (m : mode) (i f k : Z) : result rounding :=
  if Z.abs f <? B ^ k then Ok (round_fract B m i f k) else Panic Undocumented.
Definition round_fract_release (B : Z) (m : mode) (i f k : Z) : result rounding := Ok (round_fract B m i f k).

(** Round::round_ratio(integer, num, den): `assert!(!den.is_zero() && num.abs_cmp(den).is_le())` in every build *)
Definition round_ratio_pre (num den : Z) : bool := negb (den =? 0) && (Z.abs num <=? Z.abs den).
Definition round_ratio_pub (m : mode) (i num den : Z) : result rounding :=
  if round_ratio_pre num den then Ok (round_ratio m i num den) else Panic Undocumented.

(** value of a float/approx as a pair compared by cross-multiplication: s1 * B^e1 = s2 * B^e2 *)
Definition same_value (B s1 e1 s2 e2 : Z) : Prop :=
  let m := Z.min e1 e2 in s1 * B ^ (e1 - m) = s2 * B ^ (e2 - m).

(* ---------------------------------------------------------------- far below one: the specification without a power *)

(** for 0 < |x| < 1/2 the six roundings depend on the sign only; used by the oracle where B^(-e) cannot be formed
    (exponents down to isize::MIN); proved equal to int_spec / to_int_spec / fract_sig_spec in RoundOpsTinyProof.v *)
Definition int_tiny (m : mode) (s : Z) : Z :=
  match m with
  | MZero | MHalfEven | MHalfAway => 0
  | MAway => Z.sgn s
  | MUp => if 0 <? s then 1 else 0
  | MDown => if s <? 0 then -1 else 0
  end.
Definition to_int_tiny (m : mode) (s : Z) : iapprox :=
  if s =? 0 then IExact 0 else IInexact (int_tiny m s) (flag_of_adj (int_tiny m s)).
