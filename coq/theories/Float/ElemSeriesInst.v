(** C11 round 4: the Z-level operations of the as-is model (Float/ElemAsis.v) are instances of the
    rounded operations of ElemSeriesErr.v / ElemExpFinal.v, in the two nearest modes:

      fb_mul_rel          x * y   : value = x y theta, |theta - 1| <= u,  u = 1 / (2 B^(P-1)),
                                    P = max of the two context precisions - ANY operand lengths
      fb_div_rel          x / y   : value = x / y * theta, same u (repr_div keeps >= P digits)
      fb_from_int_val     FBig::from(k!) is exact;  fb_shr_val: r >> n is exact (exponent only)
      fb_div_rem_euclid_spec      : x = q * y + r0 EXACTLY with 0 <= r0 < y, and the returned
                                    remainder is r0 * theta (one rounding by convert_int)
      exp_series_step_trace       : one iteration of ElemAsis.exp_series_loop maps a state of
                                    ExpTrace to a state of ExpTrace, GIVEN the rounding contract of
                                    the FBig addition for the two operands at hand.

    What is still missing for an unconditional one-ulp theorem about ElemAsis.exp_internal:
      (i)   the rounding contract of fb_add_vv for the sums of the loop: AddModelProof.
            fbig_add_forms_correct needs both operands to have at most P digits, and the contract
            it proves bounds the result by P+1 digits only (effective subtractions keep one more
            digit): that same-sign additions return at most P digits is not proved there;
      (ii)  the error of ln_base at the working precision (the atanh / iacoth loops: same shape as
            the exp loop, alternating signs excluded);
      (iii) the inequality between the number of series terms and the guard digits
            (K * B^(n+1) <= B^(wp-p) / 8 for the K at which the loop stops), which needs a lower
            bound on the f32 estimate layer (abstract here).
    Each answer of the run is still decided by the certified checker. *)
From Coq Require Import ZArith Reals Lra Lia Bool Psatz.
From Flocq Require Import Core.
From Dashu Require Import Base.Prelude Float.RoundSpec Float.RoundSpecProof Float.Contract Float.Model
  Float.ModelProof Float.AddModel Float.DivMulModel Float.ElemEncl Float.ElemEntryProof Float.ElemEnclProof
  Float.ElemF32 Float.ElemAsis Float.ElemParamsProof Float.ElemPowiProof Float.ElemSeriesErr.
From DashuGen Require Import RoundTables ElemParams.
Open Scope Z_scope.

Section Inst.
Variable B : Z.
Hypothesis HB : 2 <= B.
Local Notation bp := (bpw B).

Definition fbv (x : fbig) : R := fval B (fsig x) (fexp x).
Definition uP (P : Z) : R := (/ IZR (2 * B ^ (P - 1)))%R.

Lemma fbv_fb_of v p : fbv (fb_of B v p) = fval B (fst v) (snd v).
Proof.
  unfold fb_of, fbv. pose proof (fval_normalize B HB (fst v) (snd v)) as H.
  destruct (normalize B (fst v) (snd v)) as [s e]. exact H.
Qed.

Lemma ctx_max_ge1 p1 p2 : 1 <= p1 -> 1 <= ctx_max p1 p2.
Proof. unfold ctx_max. destruct (Z.gtb_spec p1 p2); lia. Qed.

(** FBig * FBig *)
Theorem fb_mul_rel m x y : is_half_mode m = true -> 1 <= ctx_max (fprec x) (fprec y) ->
  exists th : R, fbv (fb_mul B m x y) = (fbv x * fbv y * th)%R /\
                 (Rabs (th - 1) <= uP (ctx_max (fprec x) (fprec y)))%R.
Proof.
  intros Hm HP. unfold fb_mul. rewrite fbv_fb_of. unfold fbig_mul.
  set (P := ctx_max (fprec x) (fprec y)) in *.
  pose proof (fval_normalize B HB (fsig x * fsig y) (fexp x + fexp y)) as Hn.
  destruct (normalize B (fsig x * fsig y) (fexp x + fexp y)) as [s e].
  rewrite (fval_mul B HB) in Hn.
  destruct (repr_round_rel B HB P m s e HP Hm) as (th & E & Hth).
  exists th. unfold approx_val. cbn [fst snd]. fold (aval B (repr_round B P m s e)). rewrite E, Hn.
  split; [reflexivity|]. apply (rel_to_u B HB P HP). exact Hth.
Qed.

(** FBig::from(n) and the shift *)
Lemma fb_from_int_val n : fbv (fb_from_int B n) = IZR n.
Proof.
  unfold fb_from_int, prim_repr, fbv. pose proof (fval_normalize B HB n 0) as H.
  destruct (normalize B n 0) as [s e]. cbn [fsig fexp]. rewrite H. unfold fval. cbn [powerRZ]. ring.
Qed.

Lemma fb_shr_val x n : fbv (fb_shr x n) = (fbv x * bp (- n))%R.
Proof.
  unfold fb_shr, fbv. destruct (Z.eqb_spec (fsig x) 0) as [E|NE].
  - rewrite E, !fval_0. ring.
  - cbn [fsig fexp]. rewrite !(fval_bpw B). replace (fexp x - n) with (fexp x + - n) by lia.
    rewrite (bpw_add B HB). ring.
Qed.

(** FBig / FBig: one rounding of the exact quotient, at least P significant digits are kept *)
Theorem fb_div_rel m x y : is_half_mode m = true -> 1 <= ctx_max (fprec x) (fprec y) -> fsig y <> 0 ->
  exists z, fb_div B m x y = Ok z /\
    exists th : R, fbv z = (fbv x / fbv y * th)%R /\ (Rabs (th - 1) <= uP (ctx_max (fprec x) (fprec y)))%R.
Proof.
  intros Hm HP Hy. unfold fb_div, fbig_div. set (P := ctx_max (fprec x) (fprec y)) in *.
  set (s1 := fsig x) in *. set (e1 := fexp x) in *. set (s2 := fsig y) in *. set (e2 := fexp y) in *.
  pose proof (repr_div_spec B HB P m s1 e1 s2 e2 HP Hy) as H. cbv zeta in H.
  destruct H as (Hk & a & Ea & Eexp & Esig & Hmatch). set (k := repr_div_shift B P s1 s2) in *.
  rewrite Ea. cbn [map_val rbind]. eexists. split; [reflexivity|]. rewrite fbv_fb_of.
  unfold approx_val. cbn [fst snd]. fold (aval B a).
  assert (Hpk : 0 < B ^ k) by (apply Z.pow_pos_nonneg; lia).
  set (D := Z.abs s2) in *. assert (HD : 0 < D) by (unfold D; lia).
  set (N := Z.sgn s2 * (s1 * B ^ k)) in *. set (q := approx_sig a) in *.
  assert (Hy2 : fbv y <> 0%R) by (apply (fval_neq0 B HB); exact Hy).
  assert (Hsr : IZR s2 <> 0%R) by (apply not_0_IZR; assumption).
  assert (Hbk : IZR (B ^ k) <> 0%R) by (apply not_0_IZR; lia).
  assert (Hb2 : (bp e2 <> 0)%R) by (pose proof (bpw_pos B HB e2); lra).
  (* value of the result: q * B^(e1 - e2 - k) *)
  assert (Hval : aval B a = (IZR q * bp e1 / bp e2 / IZR (B ^ k))%R).
  { unfold aval. fold q. rewrite Eexp, (fval_bpw B).
    replace (e1 - e2 - k) with (e1 + (- e2 + - k)) by lia. rewrite !(bpw_add B HB), !(bpw_neg B HB).
    rewrite <- (IZR_Bpow B k Hk). field. split; assumption. }
  destruct (Z.eq_dec s1 0) as [Z1|NZ1].
  { (* zero dividend: exact zero *)
    exists 1%R. split.
    - assert (Hq0 : q = 0).
      { rewrite Esig. unfold N. rewrite Z1, Z.mul_0_l, Z.mul_0_r.
        pose proof (spec_round_exact m 0 D HD (Z.mod_0_l D ltac:(lia))) as Hz.
        apply Z.mul_eq_0 in Hz. destruct Hz; lia. }
      assert (Hx0 : fbv x = 0%R) by (unfold fbv; fold s1; rewrite Z1; apply fval_0).
      rewrite Hval, Hq0, Hx0. field. repeat split; assumption.
    - replace (1 - 1)%R with 0%R by ring. rewrite Rabs_R0. unfold uP. left. apply Rinv_0_lt_compat.
      apply IZR_lt. pose proof (Z.pow_pos_nonneg B (P - 1)). lia. }
  assert (HNabs : Z.abs N = Z.abs s1 * B ^ k).
  { unfold N. rewrite !Z.abs_mul. rewrite (Z.abs_eq (B ^ k)) by lia.
    assert (Hsg : Z.abs (Z.sgn s2) = 1) by (destruct (Z.lt_trichotomy s2 0) as [L|[L|L]]; [rewrite Z.sgn_neg | lia | rewrite Z.sgn_pos]; lia).
    rewrite Hsg. lia. }
  assert (HN0 : N <> 0) by (intros E0; rewrite E0 in HNabs; cbn in HNabs; lia).
  assert (HNs : N * s2 = s1 * B ^ k * D).
  { unfold N, D. destruct (Z.lt_trichotomy s2 0) as [L|[L|L]]; [|lia|].
    - rewrite Z.sgn_neg, Z.abs_neq by lia. ring.
    - rewrite Z.sgn_pos, Z.abs_eq by lia. ring. }
  destruct (spec_round_error m N D HD) as [_ Hh]. specialize (Hh Hm). cbv zeta in Hh. rewrite <- Esig in Hh. fold q in Hh.
  assert (Hmag : 2 * B ^ (P - 1) * Z.abs (q * D - N) <= Z.abs N).
  { destruct (Z.eq_dec (Z.rem s1 s2) 0) as [R0|R0].
    - (* exact quotient *)
      assert (q * D = N).
      { rewrite Esig. apply spec_round_exact; [lia|].
        apply Z.rem_divide in R0; [|assumption]. destruct R0 as [c Hc].
        unfold N, D. rewrite Hc. destruct (Z.lt_trichotomy s2 0) as [L|[L|L]]; [|lia|].
        - rewrite Z.sgn_neg, Z.abs_neq by lia.
          replace (-1 * (c * s2 * B ^ k)) with ((c * B ^ k) * - s2) by ring. apply Z.mod_mul. lia.
        - rewrite Z.sgn_pos, Z.abs_eq by lia.
          replace (1 * (c * s2 * B ^ k)) with ((c * B ^ k) * s2) by ring. apply Z.mod_mul. lia. }
      rewrite H, Z.sub_diag. cbn [Z.abs]. lia.
    - destruct (repr_div_magnitude B HB P s1 s2 HP Hy R0) as [M _]. fold k D in M.
      assert (0 < B ^ (P - 1)) by (apply Z.pow_pos_nonneg; lia).
      assert (B ^ (P - 1) * (2 * Z.abs (q * D - N)) <= B ^ (P - 1) * D) by (apply Z.mul_le_mono_nonneg_l; lia).
      lia. }
  assert (HNr : IZR N <> 0%R) by (apply not_0_IZR; assumption).
  exists (IZR (q * D) / IZR N)%R. split.
  - rewrite Hval. unfold fbv. fold s1 e1 s2 e2. rewrite !(fval_bpw B).
    assert (E2 : (IZR N * IZR s2 = IZR s1 * IZR (B ^ k) * IZR D)%R) by (rewrite <- !mult_IZR; f_equal; exact HNs).
    assert (Hs1r : IZR s1 <> 0%R) by (apply not_0_IZR; assumption).
    assert (ED : IZR D = (IZR N * IZR s2 / (IZR s1 * IZR (B ^ k)))%R) by (rewrite E2; field; split; assumption).
    rewrite mult_IZR, ED. field. repeat split; assumption.
  - replace (IZR (q * D) / IZR N - 1)%R with (IZR (q * D - N) / IZR N)%R by (rewrite minus_IZR; field; assumption).
    unfold Rdiv. rewrite Rabs_mult, Rabs_inv, <- !abs_IZR.
    pose proof (U_ge2 B HB P HP) as HU.
    unfold uP. apply (Rmult_le_reg_r (IZR (2 * B ^ (P - 1)))); [lra|]. rewrite Rinv_l by lra.
    apply IZR_le in Hmag. rewrite !mult_IZR in Hmag. rewrite mult_IZR.
    assert (HNp : (0 < IZR (Z.abs N))%R) by (apply IZR_lt; lia).
    apply (Rmult_le_reg_r (IZR (Z.abs N))); [assumption|].
    replace (IZR (Z.abs (q * D - N)) * / IZR (Z.abs N) * (2 * IZR (B ^ (P - 1))) * IZR (Z.abs N))%R
      with (2 * IZR (B ^ (P - 1)) * IZR (Z.abs (q * D - N)))%R by (field; lra).
    lra.
Qed.


Lemma uP_pos P : 1 <= P -> (0 < uP P)%R.
Proof. intros HP. unfold uP. apply Rinv_0_lt_compat, IZR_lt. pose proof (Z.pow_pos_nonneg B (P - 1)). lia. Qed.

Lemma uP_antitone P Q : 1 <= P <= Q -> (uP Q <= uP P)%R.
Proof.
  intros H. unfold uP. apply Rinv_le_contravar.
  - apply IZR_lt. pose proof (Z.pow_pos_nonneg B (P - 1)). lia.
  - apply IZR_le. assert (B ^ (P - 1) <= B ^ (Q - 1)) by (apply Z.pow_le_mono_r; lia). lia.
Qed.

(** Context::convert_int: one rounding of the integer *)
Lemma convert_int_rel m P r : is_half_mode m = true -> 1 <= P ->
  exists th : R, fbv (convert_int B P m r) = (IZR r * th)%R /\ (Rabs (th - 1) <= uP P)%R.
Proof.
  intros Hm HP. unfold convert_int. pose proof (fval_normalize B HB r 0) as Hn.
  destruct (normalize B r 0) as [s e]. rewrite fbv_fb_of. unfold approx_val. cbn [fst snd].
  destruct (repr_round_rel B HB P m s e HP Hm) as (th & E & Hth).
  exists th. fold (aval B (repr_round B P m s e)). rewrite E, Hn. split.
  - unfold fval. cbn [powerRZ]. ring.
  - apply (rel_to_u B HB P HP). exact Hth.
Qed.

(** DivRemEuclid for FBig with a positive divisor: the identity x = q y + r0 is EXACT, the returned
    remainder is r0 rounded once (argument reduction of exp: y = computed ln B) *)
Theorem fb_div_rem_euclid_spec m x y : is_half_mode m = true -> 1 <= ctx_max (fprec x) (fprec y) -> 0 < fsig y ->
  exists q rf, fb_div_rem_euclid B m x y = Ok (q, rf) /\
    exists r0 th : R, fbv x = (IZR q * fbv y + r0)%R /\ (0 <= r0 < fbv y)%R /\
      fbv rf = (r0 * th)%R /\ (Rabs (th - 1) <= uP (ctx_max (fprec x) (fprec y)))%R.
Proof.
  intros Hm HP Hy. unfold fb_div_rem_euclid. destruct (Z.eqb_spec (fsig y) 0); [lia|].
  set (P := ctx_max (fprec x) (fprec y)) in *.
  (* both cases: integers num, den > 0 and a common exponent rexp *)
  assert (G : forall num den rexp, 0 < den -> fbv x = (IZR num * bp rexp)%R -> fbv y = (IZR den * bp rexp)%R ->
    let r := num mod Z.abs den in let q := (num - r) / den in let rf := convert_int B P m r in
    exists r0 th : R, fbv x = (IZR q * fbv y + r0)%R /\ (0 <= r0 < fbv y)%R /\
      fbv (if fsig rf =? 0 then rf else FB (fsig rf) (fexp rf + rexp) (fprec rf)) = (r0 * th)%R /\ (Rabs (th - 1) <= uP P)%R).
  { intros num den rexp Hden Ex Ey. cbv zeta. rewrite (Z.abs_eq den) by lia.
    pose proof (Z.div_mod num den ltac:(lia)) as DM. pose proof (Z.mod_pos_bound num den Hden) as MB.
    set (r := num mod den) in *.
    assert (Eq : (num - r) / den = num / den).
    { replace (num - r) with (num / den * den) by lia. apply Z.div_mul. lia. }
    rewrite Eq. destruct (convert_int_rel m P r Hm HP) as (th & Ec & Hth). set (rf := convert_int B P m r) in *.
    assert (Hbe : (0 < bp rexp)%R) by apply (bpw_pos B HB).
    exists (IZR r * bp rexp)%R, th. split; [|split; [|split]].
    - rewrite Ex, Ey. rewrite DM at 1. rewrite plus_IZR, mult_IZR. ring.
    - rewrite Ey. split.
      + apply Rmult_le_pos; [apply IZR_le; lia | lra].
      + apply Rmult_lt_compat_r; [lra | apply IZR_lt; lia].
    - destruct (Z.eqb_spec (fsig rf) 0) as [Z0|NZ].
      + assert (fbv rf = 0%R) by (unfold fbv; rewrite Z0; apply fval_0).
        rewrite H in *. assert (IZR r * th = 0)%R by lra. nra.
      + unfold fbv in *. cbn [fsig fexp]. rewrite (fval_bpw B), (bpw_add B HB).
        rewrite (fval_bpw B) in Ec. nra.
    - exact Hth. }
  destruct (Z.leb_spec 0 (fexp x - fexp y)) as [Hd|Hd].
  - (* exponent of x at least that of y *)
    replace (Z.min (fexp x) (fexp y)) with (fexp y) by lia.
    specialize (G (fsig x * B ^ (fexp x - fexp y)) (fsig y) (fexp y) Hy).
    eexists _, _. split; [reflexivity|]. apply G.
    + unfold fbv. rewrite (fval_bpw B), mult_IZR, (IZR_Bpow B _ Hd), Rmult_assoc, <- (bpw_add B HB). do 2 f_equal. lia.
    + unfold fbv. apply (fval_bpw B).
  - replace (Z.min (fexp x) (fexp y)) with (fexp x) by lia.
    assert (Hpd : 0 < B ^ (- (fexp x - fexp y))) by (apply Z.pow_pos_nonneg; lia).
    assert (Hden : 0 < fsig y * B ^ (- (fexp x - fexp y))) by (apply Z.mul_pos_pos; assumption).
    specialize (G (fsig x) (fsig y * B ^ (- (fexp x - fexp y))) (fexp x) Hden).
    eexists _, _. split; [reflexivity|]. apply G.
    + unfold fbv. apply (fval_bpw B).
    + unfold fbv. rewrite (fval_bpw B), mult_IZR, (IZR_Bpow B (- (fexp x - fexp y)) ltac:(lia)), Rmult_assoc, <- (bpw_add B HB). do 2 f_equal. lia.
Qed.

(** one iteration of the Maclaurin loop of exp_internal maps a state of ExpTrace to a state of ExpTrace
    (at the relative error u of any precision P <= the precisions of the operands), GIVEN the rounding
    contract of the addition for the two operands at hand *)
Theorem exp_series_step_trace m P r sum pow k :
  is_half_mode m = true -> 1 <= P -> P <= fprec r -> P <= fprec pow ->
  ExpTrace (uP P) (fbv r) k (fbv pow) (fbv sum) ->
  let pow' := fb_mul B m pow r in
  exists inc, fb_div B m pow' (fb_from_int B (Z.of_nat (fact (S k)))) = Ok inc /\
    exists th1 th2 : R, (Rabs (th1 - 1) <= uP P)%R /\ (Rabs (th2 - 1) <= uP P)%R /\
      fbv pow' = (fbv pow * fbv r * th1)%R /\
      fbv inc = next_increase (fbv r) (fbv pow) k th1 th2 /\
      (forall sum' th3, (Rabs (th3 - 1) <= uP P)%R -> fbv sum' = ((fbv sum + fbv inc) * th3)%R ->
         ExpTrace (uP P) (fbv r) (S k) (fbv pow') (fbv sum')).
Proof.
  intros Hm HP Hr Hpw T pow'.
  assert (Hge : forall a b, P <= a -> P <= ctx_max a b).
  { intros a b H. unfold ctx_max. destruct (Z.gtb_spec a b); lia. }
  destruct (fb_mul_rel m pow r Hm ltac:(specialize (Hge (fprec pow) (fprec r) Hpw); lia)) as (th1 & E1 & H1). fold pow' in E1.
  assert (H1' : (Rabs (th1 - 1) <= uP P)%R).
  { eapply Rle_trans; [exact H1|]. apply uP_antitone. specialize (Hge (fprec pow) (fprec r) Hpw). lia. }
  set (fk := fb_from_int B (Z.of_nat (fact (S k)))).
  assert (Hfk : fbv fk = INR (fact (S k))) by (unfold fk; rewrite fb_from_int_val, <- INR_IZR_INZ; reflexivity).
  assert (Hfk0 : fsig fk <> 0).
  { intros Z0. assert (fbv fk = 0%R) by (unfold fbv; rewrite Z0; apply fval_0).
    pose proof (lt_0_INR _ (lt_O_fact (S k))). lra. }
  assert (Hpp : P <= fprec pow') by (unfold pow', fb_mul, fb_of; destruct (normalize _ _ _); cbn [fprec]; apply Hge; exact Hpw).
  destruct (fb_div_rel m pow' fk Hm ltac:(specialize (Hge (fprec pow') (fprec fk) Hpp); lia) Hfk0) as (inc & Ei & th2 & E2 & H2).
  assert (H2' : (Rabs (th2 - 1) <= uP P)%R).
  { eapply Rle_trans; [exact H2|]. apply uP_antitone. specialize (Hge (fprec pow') (fprec fk) Hpp). lia. }
  exists inc. split; [exact Ei|]. exists th1, th2. split; [exact H1'|]. split; [exact H2'|]. split; [exact E1|].
  assert (Einc : fbv inc = next_increase (fbv r) (fbv pow) k th1 th2).
  { unfold next_increase. rewrite E2, E1, Hfk. reflexivity. }
  split; [exact Einc|].
  intros sum' th3 H3 E3. rewrite E3, Einc, E1. unfold next_increase.
  apply (ET_step (uP P) (fbv r) k (fbv pow) (fbv sum) th1 th2 th3 T H1' H2' H3).
Qed.

End Inst.

Lemma exact_operations : forall B, 2 <= B -> forall n x k,
  fbv B (fb_from_int B n) = IZR n /\ fbv B (fb_shr x k) = (fbv B x * bpw B (- k))%R.
Proof. intros B HB n x k. split; [apply fb_from_int_val | apply fb_shr_val]; exact HB. Qed.

Example instances_example :
  (exists th : R, fbv 10 (fb_mul 10 MHalfEven (FB 12345 (-4) 3) (FB 678 0 3)) = (fbv 10 (FB 12345 (-4) 3) * fbv 10 (FB 678 0 3) * th)%R /\
                  (Rabs (th - 1) <= uP 10 3)%R) /\
  (exists q rf, fb_div_rem_euclid 10 MHalfAway (FB 12345 (-2) 5) (FB 2303 (-3) 4) = Ok (q, rf) /\
    exists r0 th : R, fbv 10 (FB 12345 (-2) 5) = (IZR q * fbv 10 (FB 2303 (-3) 4) + r0)%R /\ (0 <= r0 < fbv 10 (FB 2303 (-3) 4))%R /\
      fbv 10 rf = (r0 * th)%R /\ (Rabs (th - 1) <= uP 10 5)%R).
Proof.
  split.
  - apply (fb_mul_rel 10 ltac:(lia) MHalfEven (FB 12345 (-4) 3) (FB 678 0 3)); [reflexivity | vm_compute; discriminate].
  - apply (fb_div_rem_euclid_spec 10 ltac:(lia) MHalfAway (FB 12345 (-2) 5) (FB 2303 (-3) 4)); [reflexivity | vm_compute; discriminate | reflexivity].
Qed.
