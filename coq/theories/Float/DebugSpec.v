(** C08 (round 3): the Debug output of Repr<B> and FBig<R, B> (float/src/fmt.rs) as specified text.
    Definitions only.  Text = list of byte values.  The significand is printed by IBig's Debug, taken at its C07
    specification (Int/IoDebugModel.debug_spec k T: all decimal digits below T = 2^(2w), else k digits at each end
    around ".."; `#` appends " (digits: N, bits: M)").

      {:?}  of Repr :  <sig:?> * <B> ^ <exp>                      (write_fmt: flags, width, fill are not forwarded)
      {:?}  of FBig :  <repr:?> (prec: <p>)
      {:#?} of Repr :  Repr { significand, exponent }  of FBig : FBig { significand, exponent, precision, rounding }
            as core::fmt::DebugStruct prints them in pretty mode: one field per line, four spaces, trailing comma;
            significand: <sig:?> (<n> bits) for B = 2, <sig:#?> for B = 10, <sig:?> (<n> digits) otherwise;
            exponent: <B> ^ <exp>; rounding: the name of the mode type.
    Infinities print "inf" / "-inf" (not floats of the property). *)
From Dashu Require Import Base.Prelude Float.RoundSpec Float.Contract Int.IoSpec Int.IoDebugModel.
Open Scope Z_scope.

Definition dec_signed (v : Z) : list Z := (if v <? 0 then [45] else []) ++ dec_text (Z.abs v).

(** " * " and " ^ " *)
Definition repr_debug_spec (k T B s e : Z) : list Z :=
  debug_spec k T false false s ++ [32; 42; 32] ++ dec_text B ++ [32; 94; 32] ++ dec_signed e.

(** " (prec: " ... ")" *)
Definition fbig_debug_spec (k T B s e p : Z) : list Z :=
  repr_debug_spec k T B s e ++ [32; 40; 112; 114; 101; 99; 58; 32] ++ dec_text p ++ [41].

(** DebugStructHelper::field_significand *)
Definition sig_field_spec (k T B s : Z) : list Z :=
  if B =? 2 then debug_spec k T false false s ++ [32; 40] ++ dec_text (dlen B s) ++ [32; 98; 105; 116; 115; 41]
  else if B =? 10 then debug_spec k T false true s
  else debug_spec k T false false s ++ [32; 40] ++ dec_text (dlen B s) ++ [32; 100; 105; 103; 105; 116; 115; 41].

(** core::fmt::DebugStruct in pretty mode ({:#?}): name " {\n", per field "    name: value,\n", "}" *)
Definition pretty_struct (name : list Z) (fields : list (list Z * list Z)) : list Z :=
  name ++ [32; 123; 10]
  ++ concat (map (fun nv => [32; 32; 32; 32] ++ fst nv ++ [58; 32] ++ snd nv ++ [44; 10]) fields)
  ++ [125].

Definition mode_name (m : mode) : list Z :=
  match m with
  | MZero => [90; 101; 114; 111]
  | MAway => [65; 119; 97; 121]
  | MUp => [85; 112]
  | MDown => [68; 111; 119; 110]
  | MHalfEven => [72; 97; 108; 102; 69; 118; 101; 110]
  | MHalfAway => [72; 97; 108; 102; 65; 119; 97; 121]
  end.

Definition str_significand : list Z := [115; 105; 103; 110; 105; 102; 105; 99; 97; 110; 100].
Definition str_exponent : list Z := [101; 120; 112; 111; 110; 101; 110; 116].
Definition str_precision : list Z := [112; 114; 101; 99; 105; 115; 105; 111; 110].
Definition str_rounding : list Z := [114; 111; 117; 110; 100; 105; 110; 103].

Definition exponent_field_spec (B e : Z) : list Z := dec_text B ++ [32; 94; 32] ++ dec_signed e.

Definition repr_debug_alt_spec (k T B s e : Z) : list Z :=
  pretty_struct [82; 101; 112; 114]
    [(str_significand, sig_field_spec k T B s); (str_exponent, exponent_field_spec B e)].

Definition fbig_debug_alt_spec (k T B : Z) (m : mode) (s e p : Z) : list Z :=
  pretty_struct [70; 66; 105; 103]
    [(str_significand, sig_field_spec k T B s); (str_exponent, exponent_field_spec B e);
     (str_precision, dec_text p); (str_rounding, mode_name m)].
