(** C08: as-is model of the import of IEEE binary floats (float/src/convert.rs impl_from_float_for_fbig).
    Definitions only (proofs: IeeeImportProof.v).  The decoder f32::decode / f64::decode is C06's model. *)
From Dashu Require Import Base.Prelude Float.RoundSpec Float.Contract Float.Model Float.TextIoSpec Conv.ConvSpec Conv.ConvModel.
Open Scope Z_scope.

(** impl_from_float_for_fbig: match f.decode() { Ok((man, exp)) => Repr::new(man, exp), precision =
    man.unsigned_abs().bit_len(); infinities and NaN are not finite floats *)
Definition from_ieee_asis (P : enc_params) (bits : Z) : option (Z * Z * Z) :=
  match decode_asis P bits with
  | DFin man exp => let '(s', e') := normalize 2 man exp in Some (s', e', bit_len man)
  | _ => None
  end.

