(** C03 round 4, definitions only: exponents as machine integers.  The float models compute exponents in Z; the
    code computes them in isize (W bits).  [ctx_mul_chk] / [ctx_sqr_chk] / [ctx_cubic_chk] are Context::mul / sqr /
    cubic (repaired form) with EVERY exponent computation of the code checked against the range of isize, as a
    build with overflow checks does (the harness profile): `lhs.exponent + rhs.exponent` (2 * / 3 * exponent),
    the checked_add of Repr::new (documented panic "the exponent of the result is too large!"), and
    `repr.exponent + shift` in Context::repr_round.  An overflow is [Panic Undocumented].
    ExpRangeProof.v: the checked model returns the unbounded one iff the FIRST sum and the exponent of the RESULT
    are in range - every exponent in between lies between these two. *)
From Dashu Require Import Base.Prelude Float.RoundSpec Float.Contract Float.Model Float.AddModel Float.DivMulModel
  Float.LongModel Float.FixModel.
From DashuGen Require Import RoundTables.
Open Scope Z_scope.

Section ExpRange.
Variable B : Z.
Variable W : Z.                       (* the width of isize *)

Definition imin : Z := - 2 ^ (W - 1).
Definition imax : Z := 2 ^ (W - 1) - 1.
Definition in_i (x : Z) : bool := (imin <=? x) && (x <=? imax).
Definition chk (x : Z) : result Z := if in_i x then Ok x else Panic Undocumented.

(** Repr::new: trailing zeros stripped, the exponent raised by their number with checked_add *)
Definition new_chk (s e : Z) : result (Z * Z) :=
  let '(s', e') := normalize B s e in if in_i e' then Ok (s', e') else Panic Undocumented.

(** Context::repr_round *)
Definition repr_round_chk (p : Z) (m : mode) (s e : Z) : result approx :=
  if p =? 0 then Ok (AExact s e)
  else
    let d := dlen B s in
    if d >? p then
      let shift := d - p in
      let '(hi, lo) := split_digits B s shift in
      let a := round_fract B m hi lo shift in
      rbind (chk (e + shift)) (fun e1 =>
      rbind (new_chk (hi + adj a) e1) (fun se => Ok (AInexact (fst se) (snd se) a)))
    else Ok (AExact s e).

Definition round_product_chk (p : Z) (m : mode) (S e0 : Z) : result approx :=
  rbind (chk e0) (fun e => rbind (new_chk S e) (fun se => repr_round_chk p m (fst se) (snd se))).

Definition ctx_mul_chk (p : Z) (m : mode) (s1 e1 s2 e2 : Z) : result approx := round_product_chk p m (s1 * s2) (e1 + e2).
Definition ctx_sqr_chk (p : Z) (m : mode) (s e : Z) : result approx := round_product_chk p m (s * s) (2 * e).
Definition ctx_cubic_chk (p : Z) (m : mode) (s e : Z) : result approx := round_product_chk p m (s * s * s) (3 * e).

(** the unbounded model of the same step *)
Definition round_product (p : Z) (m : mode) (S e0 : Z) : approx :=
  let '(s, e) := normalize B S e0 in repr_round_n B p m s e.

End ExpRange.
