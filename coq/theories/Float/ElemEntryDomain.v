(** C11: theorems about the entry logic of ln / ln_1p / powi / powf (ElemEntry.v): domain panics,
    unlimited precision, and that every shortcut flagged Exact returns the true value. *)
From Coq Require Import ZArith Reals Lra Lia Bool.
From Dashu Require Import Base.Prelude Float.RoundSpec Float.Contract Float.Model Float.ModelProof
  Float.ElemEntry Float.ElemEntryProof Float.ElemEnclProof.
Open Scope Z_scope.

Section Entry.
Variable B : Z.
Hypothesis HB : 2 <= B.

(** ---- ln, ln_1p *)
Theorem ln_entry_unlimited s e op : ln_entry B 0 s e op = EPanic EPUnlimited.
Proof. reflexivity. Qed.

Theorem ln_entry_exact p s e op s' e' :
  ln_entry B p s e op = EExact s' e' ->
  fval B s' e' = (if op then ln (1 + fval B s e) else ln (fval B s e))%R.
Proof.
  unfold ln_entry. destruct (p =? 0); [discriminate|].
  destruct ((op && (s =? 0)) || (negb op && is_one s e)) eqn:Q.
  - intros H. inversion H; subst. rewrite fval_0. apply orb_true_iff in Q. destruct Q as [Q|Q].
    + apply andb_true_iff in Q. destruct Q as [-> Q]. apply Z.eqb_eq in Q. subst.
      rewrite fval_0, Rplus_0_r, ln_1. reflexivity.
    + apply andb_true_iff in Q. destruct Q as [Q1 Q]. apply negb_true_iff in Q1. subst op.
      unfold is_one in Q. apply andb_true_iff in Q. destruct Q as [Q2 Q3].
      apply Z.eqb_eq in Q2, Q3. subst. rewrite fval_1_0, ln_1. reflexivity.
  - destruct op. destruct (if 0 <=? e then _ else _); discriminate.
    destruct (s <=? 0); discriminate.
Qed.

(** 1 + s * B^e <= 0, decided on integers *)
Lemma one_plus_nonpos s e :
  (if 0 <=? e then s * B ^ e + 1 <=? 0 else s + B ^ (- e) <=? 0) = true <-> (1 + fval B s e <= 0)%R.
Proof.
  unfold fval. fold (bpw B e). destruct (Z.leb_spec 0 e) as [He|He]; rewrite Z.leb_le.
  - rewrite (bpw_nonneg_Z B e He), <- mult_IZR, <- (plus_IZR 1). split; intros H.
    apply IZR_le. lia. apply le_IZR in H. lia.
  - assert (Hp := bpw_pos B HB (- e)). assert (E : bpw B e = (/ bpw B (- e))%R).
    { rewrite <- (Z.opp_involutive e) at 1. apply (bpw_neg B HB). }
    rewrite E. rewrite (bpw_nonneg_Z B (- e)) in * by lia. split; intros H.
    + apply IZR_le in H. rewrite plus_IZR in H.
      apply Rmult_le_reg_r with (IZR (B ^ (- e))). exact Hp.
      rewrite Rmult_plus_distr_r, Rmult_assoc, Rinv_l by lra. lra.
    + apply le_IZR. rewrite plus_IZR.
      apply Rmult_le_compat_r with (r := IZR (B ^ (- e))) in H; [|lra].
      rewrite Rmult_plus_distr_r, Rmult_assoc, Rinv_l in H by lra. lra.
Qed.

(** the documented panic is raised exactly outside the domain (limited precision) *)
Theorem ln_entry_domain p s e op : p <> 0 ->
  (ln_entry B p s e op = EPanic EPLogDomain <->
   (if op then 1 + fval B s e <= 0 else fval B s e <= 0)%R).
Proof.
  intros Hp. unfold ln_entry. destruct (Z.eqb_spec p 0); [contradiction|].
  assert (Hs : forall s, (fval B s e <= 0)%R <-> s <= 0).
  { intros s0. unfold fval. assert (H := bpw_pos B HB e). unfold bpw in H. split; intros H1.
    - apply le_IZR. nra. - apply IZR_le in H1. nra. }
  destruct ((op && (s =? 0)) || (negb op && is_one s e)) eqn:Q.
  - split; [discriminate|]. intros H. exfalso. apply orb_true_iff in Q. destruct Q as [Q|Q].
    + apply andb_true_iff in Q. destruct Q as [-> Q]. apply Z.eqb_eq in Q. subst. rewrite fval_0 in H. lra.
    + apply andb_true_iff in Q. destruct Q as [Q1 Q]. apply negb_true_iff in Q1. subst op.
      unfold is_one in Q. apply andb_true_iff in Q. destruct Q as [Q2 Q3]. apply Z.eqb_eq in Q2, Q3. subst.
      rewrite fval_1_0 in H. lra.
  - destruct op.
    + rewrite <- one_plus_nonpos. destruct (if 0 <=? e then _ else _); split; auto; discriminate.
    + rewrite Hs. destruct (Z.leb_spec s 0); split; auto; try discriminate; lia.
Qed.

(** before the repair (finding F01) nothing stopped a non-positive argument from reaching the series *)
Theorem ln_entry_before_fix_refuted :
  ln_entry_before_fix 5 (-2) 0 false = ECompute /\ ln_entry_before_fix 5 0 0 false = ECompute /\
  ln_entry_before_fix 5 (-1) 0 true = ECompute /\
  ln_entry 10 5 (-2) 0 false = EPanic EPLogDomain /\ ln_entry 10 5 0 0 false = EPanic EPLogDomain /\
  ln_entry 10 5 (-1) 0 true = EPanic EPLogDomain.
Proof. repeat split. Qed.

(** ---- powi *)
Theorem powi_entry_unlimited m s e n : powi_entry B 0 m s e n = EPanic EPUnlimited <-> n < 0.
Proof.
  unfold powi_entry. destruct (Z.ltb_spec n 0); [split; auto|].
  split; [|lia]. destruct (n =? 0); [discriminate|]. destruct (n =? 1); [discriminate|].
  simpl. destruct (normalize B (s ^ n) (e * n)). discriminate.
Qed.

Theorem powi_entry_limited_no_panic p m s e n r : p <> 0 -> powi_entry B p m s e n <> EPanic r.
Proof.
  intros Hp. unfold powi_entry. destruct (Z.eqb_spec p 0); [contradiction|].
  destruct (n <? 0); [discriminate|]. destruct (n =? 0); [discriminate|]. destruct (n =? 1); discriminate.
Qed.

Lemma normalize_value s e : let '(s', e') := normalize B s e in fval B s' e' = fval B s e.
Proof.
  generalize (normalize_spec B HB s e). destruct (normalize B s e) as [s' e']. intros [H0 H1].
  destruct (Z.eq_dec s 0) as [->|Hs].
  - destruct (H0 eq_refl) as [-> ->]. now rewrite !fval_0.
  - destruct (H1 Hs) as [_ [_ [k [Hk [-> ->]]]]]. unfold fval. fold (bpw B (e + k)) (bpw B e).
    rewrite mult_IZR, (bpw_add B HB), <- (bpw_nonneg_Z B k Hk). ring.
Qed.

(** every value powi returns through a shortcut flagged Exact is the true power *)
Theorem powi_entry_exact p m s e n s' e' :
  powi_entry B p m s e n = EExact s' e' -> fval B s' e' = powerRZ (fval B s e) n.
Proof.
  unfold powi_entry. destruct (Z.ltb_spec n 0). { destruct (p =? 0); discriminate. }
  destruct (Z.eqb_spec n 0) as [->|Hn0]. { intros Hq. inversion Hq. apply fval_1_0. }
  destruct (n =? 1); [discriminate|]. destruct (p =? 0); [|discriminate].
  generalize (normalize_value (s ^ n) (e * n)). destruct (normalize B (s ^ n) (e * n)) as [a b].
  intros Hv Hq. inversion Hq; subst. rewrite Hv. apply (fval_pow B HB). lia.
Qed.

Theorem powi_entry_round p m s e n a : powi_entry B p m s e n = ERound a -> n = 1 /\ a = repr_round B p m s e.
Proof.
  unfold powi_entry. destruct (n <? 0). { destruct (p =? 0); discriminate. }
  destruct (n =? 0); [discriminate|]. destruct (Z.eqb_spec n 1).
  - intros H. inversion H. auto.
  - destruct (p =? 0); [destruct (normalize B (s ^ n) (e * n))|]; discriminate.
Qed.

(** ---- powf *)
Theorem powf_entry_unlimited m s e ys ye : powf_entry B 0 m s e ys ye = EPanic EPUnlimited.
Proof. reflexivity. Qed.

Theorem powf_entry_exact p m s e ys ye s' e' :
  powf_entry B p m s e ys ye = EExact s' e' ->
  (ys = 0 /\ fval B s' e' = 1%R) \/ (ys <> 0 /\ s = 0 /\ fval B s' e' = 0%R).
Proof.
  unfold powf_entry. destruct (p =? 0); [discriminate|].
  destruct (Z.eqb_spec ys 0). { intros H. inversion H. left. split; [assumption|apply fval_1_0]. }
  destruct (is_one ys ye); [discriminate|].
  destruct (Z.eqb_spec s 0). { intros H. inversion H. right. repeat split; auto. apply fval_0. }
  destruct (s <? 0); discriminate.
Qed.

Theorem powf_entry_exact_value p m s e ys ye s' e' : 0 < s ->
  powf_entry B p m s e ys ye = EExact s' e' -> fval B s' e' = Rpower (fval B s e) (fval B ys ye).
Proof.
  intros Hs H. apply powf_entry_exact in H. destruct H as [[-> H]|[_ [-> _]]]; [|lia].
  rewrite H, fval_0, Rpower_O. reflexivity. now apply fval_pos.
Qed.

Theorem powf_entry_negative_base p m s e ys ye :
  p <> 0 -> ys <> 0 -> is_one ys ye = false -> s < 0 -> powf_entry B p m s e ys ye = EPanic EPNegBase.
Proof.
  intros Hp Hy H1 Hs. unfold powf_entry. destruct (Z.eqb_spec p 0); [contradiction|].
  destruct (Z.eqb_spec ys 0); [contradiction|]. rewrite H1.
  destruct (Z.eqb_spec s 0); [lia|]. destruct (Z.ltb_spec s 0); [reflexivity|lia].
Qed.

End Entry.

(** the operand returned through the x^1 shortcut is rounded by Context::repr_round, whose contract
    (error below one unit of the kept digit, Exact exactly when the operand fits) is C03's theorem *)
Theorem entry_round_exact_iff_fits B p m s e : dlen B s <= p -> repr_round B p m s e = AExact s e.
Proof. apply repr_round_exact. Qed.
