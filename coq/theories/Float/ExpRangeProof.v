(** C03 round 4: the no-overflow side conditions of Context::mul / sqr / cubic.  With every exponent computation
    checked against isize (ExpRangeModel.v: what a build with overflow checks does) the operation returns what the
    unbounded model returns as soon as THREE exponents fit isize: the first sum e1 + e2 (2 e, 3 e), the exponent
    of the rounded product, and the exponent Repr::new gives it - every other exponent the code forms lies between
    them; if the first sum does not fit the operation panics.  (In a build WITHOUT overflow checks the first sum
    wraps instead: Context::mul(2e(isize::MAX), 3e1) = 6e(isize::MIN) - observed with a release probe, see the
    report.) *)
From Dashu Require Import Base.Prelude Float.RoundSpec Float.Contract Float.Model Float.ModelProof Float.AddModel
  Float.DivMulModel Float.LongModel Float.FixModel Float.ExpRangeModel.
From DashuGen Require Import RoundTables.
From Coq Require Import ZifyBool.
Open Scope Z_scope.

Section ExpRangeProof.
Variable B : Z.
Hypothesis B_ge_2 : 2 <= B.
Variable W : Z.
Hypothesis W_pos : 1 <= W.

Lemma in_i_zero : in_i W 0 = true.
Proof.
  unfold in_i, imin, imax. pose proof (Z.pow_pos_nonneg 2 (W - 1) ltac:(lia) ltac:(lia)). lia.
Qed.

Lemma in_i_between a b x : in_i W a = true -> in_i W b = true -> a <= x <= b -> in_i W x = true.
Proof. unfold in_i. lia. Qed.

Theorem round_product_chk_ok p m S e0 :
  in_i W e0 = true ->
  in_i W (approx_exp (let '(s, e) := normalize B S e0 in repr_round B p m s e)) = true ->
  in_i W (approx_exp (round_product B p m S e0)) = true ->
  round_product_chk B W p m S e0 = Ok (round_product B p m S e0).
Proof.
  intros H0 H1 H2. unfold round_product_chk, round_product, chk in *. rewrite H0. cbn [rbind].
  unfold new_chk. pose proof (normalize_spec B B_ge_2 S e0) as N.
  destruct (normalize B S e0) as [s' e']. destruct N as [N0 N1].
  assert (He' : in_i W e' = true).
  { destruct (Z.eq_dec S 0) as [Hz|Hnz]; [destruct (N0 Hz) as [_ ->]; apply in_i_zero|].
    destruct (N1 Hnz) as (_ & _ & j & Hj & Ee & _).
    revert H1. unfold repr_round. destruct (p =? 0); [cbn [approx_exp]; auto|].
    destruct (dlen B s' >? p) eqn:G; [|cbn [approx_exp]; auto].
    destruct (split_digits B s' (dlen B s' - p)). cbn [approx_exp]. intros H1.
    apply (in_i_between e0 (e' + (dlen B s' - p))); try assumption. lia. }
  rewrite He'. cbn [rbind fst snd].
  revert H1 H2. unfold repr_round_chk, repr_round_n, repr_round.
  destruct (p =? 0); [reflexivity|].
  destruct (dlen B s' >? p); [|reflexivity].
  destruct (split_digits B s' (dlen B s' - p)) as [hi lo]. cbn [approx_exp]. intros H1 H2.
  unfold chk. rewrite H1. cbn [rbind]. unfold new_chk.
  destruct (normalize B (hi + adj (round_fract B m hi lo (dlen B s' - p))) (e' + (dlen B s' - p))) as [s'' e''].
  cbn [approx_exp] in H2. rewrite H2. reflexivity.
Qed.

Theorem round_product_chk_overflow p m S e0 : in_i W e0 = false -> round_product_chk B W p m S e0 = Panic Undocumented.
Proof. intros H. unfold round_product_chk, chk. rewrite H. reflexivity. Qed.

(** Context::mul / sqr / cubic *)
Theorem ctx_mul_chk_ok p m s1 e1 s2 e2 :
  in_i W (e1 + e2) = true ->
  in_i W (approx_exp (ctx_mul_fix B p m s1 e1 s2 e2)) = true ->
  in_i W (approx_exp (ctx_mul_fix_n B p m s1 e1 s2 e2)) = true ->
  ctx_mul_chk B W p m s1 e1 s2 e2 = Ok (ctx_mul_fix_n B p m s1 e1 s2 e2).
Proof. apply round_product_chk_ok. Qed.

Theorem ctx_sqr_cubic_chk_ok p m s e :
  (in_i W (2 * e) = true -> in_i W (approx_exp (ctx_sqr_fix B p m s e)) = true ->
   in_i W (approx_exp (ctx_sqr_fix_n B p m s e)) = true -> ctx_sqr_chk B W p m s e = Ok (ctx_sqr_fix_n B p m s e)) /\
  (in_i W (3 * e) = true -> in_i W (approx_exp (ctx_cubic_fix B p m s e)) = true ->
   in_i W (approx_exp (ctx_cubic_fix_n B p m s e)) = true -> ctx_cubic_chk B W p m s e = Ok (ctx_cubic_fix_n B p m s e)).
Proof. split; apply round_product_chk_ok. Qed.

Theorem ctx_mul_chk_overflow p m s1 e1 s2 e2 :
  (in_i W (e1 + e2) = false -> ctx_mul_chk B W p m s1 e1 s2 e2 = Panic Undocumented) /\
  (in_i W (2 * e1) = false -> ctx_sqr_chk B W p m s1 e1 = Panic Undocumented) /\
  (in_i W (3 * e1) = false -> ctx_cubic_chk B W p m s1 e1 = Panic Undocumented).
Proof. repeat split; apply round_product_chk_overflow. Qed.

End ExpRangeProof.

(** edge cases with 64-bit exponents: 2e(isize::MAX) * 3e1 overflows in the first sum; 999e(MAX-2) * 999 is rounded to
    998e(MAX+1): the first sum fits, the exponent of the rounded product does not; 5e(MAX) * 2 = 10e(MAX) = 1e(MAX+1):
    only Repr::new overflows; 2e(MAX-1) * 3e1 = 6e(MAX) is fine *)
Example exp_range_edges :
  let mx := 2 ^ 63 - 1 in
  ctx_mul_chk 10 64 3 MHalfEven 2 mx 3 1 = Panic Undocumented /\
  ctx_mul_chk 10 64 3 MHalfEven 999 (mx - 2) 999 0 = Panic Undocumented /\
  in_i 64 (mx - 2 + 0) = true /\
  ctx_mul_chk 10 64 3 MHalfEven 5 mx 2 0 = Panic Undocumented /\
  ctx_mul_chk 10 64 3 MHalfEven 2 (mx - 1) 3 1 = Ok (AExact 6 mx) /\
  ctx_sqr_chk 10 64 3 MHalfEven 7 (2 ^ 62) = Panic Undocumented /\
  ctx_cubic_chk 10 64 3 MHalfEven 7 (- 2 ^ 62) = Panic Undocumented /\
  ctx_sqr_chk 10 64 3 MHalfEven 7 (- 2 ^ 62) = Ok (AExact 49 (- 2 ^ 63)).
Proof. vm_compute. repeat split. Qed.
