(** C11 round 4: Context::powi, the gaps left by ElemPowiProof.v.

    (a) a sharper invariant of the left-to-right binary powering: the working value after reaching
        the exponent j is x^j * theta with (1-u)^(j-1) <= theta <= (1+u)^(j-1) (one rounding per
        multiplication, j-1 multiplications in the expression tree - the count 2j-3 of round 3 was
        a factor two too generous).  The guard condition becomes (n-1)(2B^p+1) <= 2B^(wp-1) and the
        regenerated guard digits bit_len n + bit_len p satisfy it for EVERY base at p >= 2
        (and for B >= 3 at p = 1): base 2 with p = 2, 3 is closed by the general argument.
    (b) base 2, p = 1 (the results are powers of two; the rule of the property accepts both
        neighbours of a value that is not a power of two): separate argument, every n >= 2.
    (c) operands longer than 2 wp digits: Context::sqr / mul round the operand to 2 wp digits first
        and drop the flag of that rounding (C03 finding F08): the Exact flag of powi is then NOT
        truthful - [powi_overlong_refuted] (finding F07 powi_overlong_operand, open; the as-is model
        reproduces it; the class is ElemAsis.powi_overlong).  Outside the class the flag is truthful
        in every mode [powi_exact_flag_outside_overlong]; the accuracy theorems assume an operand
        of at most 2 wp digits (every operand of an FBig does), longer operands are decided per
        instance by the checker. *)
From Coq Require Import ZArith Reals Lra Lia Bool List Psatz.
From Flocq Require Import Core.
From Dashu Require Import Base.Prelude Float.RoundSpec Float.RoundSpecProof Float.Contract Float.Model
  Float.ModelProof Float.AddModel Float.ElemEncl Float.ElemEntryProof Float.ElemEnclProof Float.ElemF32 Float.ElemAsis
  Float.ElemParamsProof Float.ElemPowiProof.
From DashuGen Require Import RoundTables ElemParams.
Open Scope Z_scope.

(* ---------------------------------------------------------------- (a) the sharper invariant *)
Section Loop1.
Variable B : Z.
Hypothesis HB : 2 <= B.
Variable wp : Z.
Hypothesis Hwp : 1 <= wp.
Variable m : mode.

Local Notation U := (IZR (2 * B ^ (wp - 1))).
Local Notation u := (/ U)%R.

Variables s e : Z.
Hypothesis Hs : dlen B s <= 2 * wp.
Local Notation X := (fval B s e).

Definition Inv1 (j : Z) (res : approx) : Prop :=
  dlen B (approx_sig res) <= 2 * wp /\
  (is_exact res = true -> aval B res = (X ^ Z.to_nat j)%R) /\
  (is_half_mode m = true -> RA u (Z.to_nat (j - 1)) (X ^ Z.to_nat j) (aval B res)).

Lemma Inv1_init : Inv1 2 (c_sqr B wp m s e).
Proof.
  destruct (c_sqr_facts B HB wp Hwp m s e Hs) as (D & Ex & Rel). split; [lia|]. split.
  - intros H. rewrite (Ex H). change (Z.to_nat 2) with 2%nat. cbn [pow]. ring.
  - intros Hm. destruct (Rel Hm) as (th & E & Hth). rewrite E.
    change (Z.to_nat (2 - 1)) with 1%nat. change (Z.to_nat 2) with 2%nat.
    destruct (u_bounds B HB wp Hwp) as [u0 u1].
    replace (X ^ 2)%R with (X * X)%R by (cbn [pow]; ring).
    apply (RA_step u u0 u1 0). 2: exact Hth.
    apply (RA_mul u u0 u1 0 0); apply RA_refl.
Qed.

Lemma Inv1_sqr j res : 2 <= j -> Inv1 j res ->
  Inv1 (2 * j) (approx_and_then res (fun s' e' => c_sqr B wp m s' e')).
Proof.
  intros Hj (D & Ex & Rel).
  destruct (c_sqr_facts B HB wp Hwp m (approx_sig res) (approx_exp res) D) as (D' & Ex' & Rel').
  assert (Hpow : (X ^ Z.to_nat (2 * j) = X ^ Z.to_nat j * X ^ Z.to_nat j)%R).
  { replace (Z.to_nat (2 * j)) with (Z.to_nat j + Z.to_nat j)%nat by lia. apply pow_add. }
  split; [rewrite sig_and_then; lia|]. split.
  - rewrite exact_and_then, aval_and_then. intros H. apply andb_prop in H. destruct H as [H1 H2].
    rewrite (Ex' H2). fold (aval B res). rewrite (Ex H1). symmetry. exact Hpow.
  - intros Hm. rewrite aval_and_then. destruct (Rel' Hm) as (th & E & Hth). rewrite E. fold (aval B res).
    rewrite Hpow. destruct (u_bounds B HB wp Hwp) as [u0 u1].
    apply (RA_mono u u0 u1 (S (Z.to_nat (j - 1) + Z.to_nat (j - 1)))); [lia|].
    apply (RA_step u u0 u1). 2: exact Hth.
    apply (RA_mul u u0 u1); apply Rel; exact Hm.
Qed.

Lemma Inv1_mul j res : 2 <= j -> Inv1 j res ->
  Inv1 (j + 1) (approx_and_then res (fun s' e' => c_mul B wp m s' e' s e)).
Proof.
  intros Hj (D & Ex & Rel).
  destruct (c_mul_facts B HB wp Hwp m (approx_sig res) (approx_exp res) s e D Hs) as (D' & Ex' & Rel').
  assert (Hpow : (X ^ Z.to_nat (j + 1) = X ^ Z.to_nat j * X)%R).
  { replace (Z.to_nat (j + 1)) with (Z.to_nat j + 1)%nat by lia. rewrite pow_add. cbn [pow]. ring. }
  split; [rewrite sig_and_then; lia|]. split.
  - rewrite exact_and_then, aval_and_then. intros H. apply andb_prop in H. destruct H as [H1 H2].
    rewrite (Ex' H2). fold (aval B res). rewrite (Ex H1). symmetry. exact Hpow.
  - intros Hm. rewrite aval_and_then. destruct (Rel' Hm) as (th & E & Hth). rewrite E. fold (aval B res).
    rewrite Hpow. destruct (u_bounds B HB wp Hwp) as [u0 u1].
    apply (RA_mono u u0 u1 (S (Z.to_nat (j - 1) + 0))); [lia|].
    apply (RA_step u u0 u1). 2: exact Hth.
    apply (RA_mul u u0 u1); [apply Rel; exact Hm | apply RA_refl].
Qed.

Variable n : Z.

Lemma powi_loop_inv1 k : forall res,
  2 <= 2 * Z.shiftr n (Z.of_nat k + 1) ->
  Inv1 (2 * Z.shiftr n (Z.of_nat k + 1)) res ->
  Inv1 n (powi_loop B wp m s e n k res).
Proof.
  induction k as [|k IH]; intros res Hj HI.
  - cbn [powi_loop]. pose proof (shiftr_step n 0 ltac:(lia)) as E. rewrite Z.shiftr_0_r in E.
    change (Z.of_nat 0) with 0 in *. destruct (Z.testbit n 0); cbn [Z.b2z] in E.
    + rewrite E. apply Inv1_mul; assumption.
    + rewrite E, Z.add_0_r. exact HI.
  - cbn [powi_loop]. pose proof (shiftr_step n (Z.of_nat (S k)) ltac:(lia)) as E.
    replace (Z.of_nat k + 1) with (Z.of_nat (S k)) in IH by lia.
    apply IH.
    + rewrite E. destruct (Z.testbit n (Z.of_nat (S k))); cbn [Z.b2z]; lia.
    + rewrite E. destruct (Z.testbit n (Z.of_nat (S k))); cbn [Z.b2z].
      * apply Inv1_sqr; [lia|]. apply Inv1_mul; assumption.
      * rewrite Z.add_0_r. apply Inv1_sqr; [lia | exact HI].
Qed.

Hypothesis Hn : 2 <= n.

(** the working-precision result of the loop of powi: x^n up to (1 +- u)^(n-1) *)
Theorem powi_loop_result1 :
  Inv1 n (powi_loop B wp m s e n (Z.to_nat (bit_len n - 2)) (c_sqr B wp m s e)).
Proof.
  assert (Hl : 1 <= Z.log2 n) by (apply Z.log2_le_pow2; lia).
  assert (Hk : Z.of_nat (Z.to_nat (bit_len n - 2)) + 1 = Z.log2 n).
  { unfold bit_len. destruct (Z.eqb_spec n 0); [lia|]. rewrite Z.abs_eq by lia. lia. }
  apply powi_loop_inv1; rewrite Hk, (shiftr_top n Hn); [lia | exact Inv1_init].
Qed.

End Loop1.

(* ---------------------------------------------------------------- the theorems *)
Section Main1.
Variable B : Z.
Hypothesis HB : 2 <= B.
Local Notation bp := (bpw B).

Definition guard_condition1 (p n wp : Z) : Prop := (n - 1) * (2 * B ^ p + 1) <= 2 * B ^ (wp - 1).

(** nearest modes, sharper guard condition *)
Theorem powi_pos_nearest1 p m s e n : 1 <= p -> 2 <= n -> s <> 0 -> is_half_mode m = true ->
  let wp := powi_work_precision p n in
  p < wp -> dlen B s <= 2 * wp -> guard_condition1 p n wp ->
  Accepted B p (powerRZ (fval B s e) n) (aval B (powi_pos B p m s e n)) (is_exact (powi_pos B p m s e n)).
Proof.
  intros Hp Hn Hs0 Hm wp Hpw Hs GC. split.
  2:{ intros H. apply powi_pos_exact_flag; try assumption; lia. }
  right. unfold powi_pos.
  destruct (Z.eqb_spec n 0) as [->|N0]; [lia|]. destruct (Z.eqb_spec n 1) as [->|N1]; [lia|]. fold wp.
  assert (Hwp : 1 <= wp) by lia.
  pose proof (powi_loop_result1 B HB wp Hwp m s e Hs n Hn) as (D & _ & Rel). specialize (Rel Hm).
  set (res := powi_loop B wp m s e n (Z.to_nat (bit_len n - 2)) (c_sqr B wp m s e)) in *.
  rewrite aval_and_then, with_precision_round by assumption.
  rewrite <- pow_Z_powerRZ by lia. set (t := (fval B s e ^ Z.to_nat n)%R) in *.
  assert (Ht : t <> 0%R) by (apply pow_nonzero, (fval_neq0 B HB); assumption).
  set (E := mag (rdx B HB) t - 1).
  assert (HtL : (bp E <= Rabs t)%R).
  { rewrite (bpw_bpow B HB). unfold E. apply bpow_mag_le. exact Ht. }
  assert (HtU : (Rabs t < bp (E + 1))%R).
  { rewrite (bpw_bpow B HB). unfold E. replace (mag (rdx B HB) t - 1 + 1) with (mag (rdx B HB) t : Z) by lia. apply bpow_mag_gt. }
  exists E. split; [exact HtL|].
  apply final_round; try assumption.
  fold (aval B res). set (v := aval B res) in *.
  set (c := Z.to_nat (n - 1)) in *. set (U := IZR (2 * B ^ (wp - 1))) in *.
  assert (HU : (2 <= U)%R) by apply (U_ge2 B HB wp Hwp).
  assert (Hc : INR c = IZR (n - 1)).
  { unfold c. rewrite INR_IZR_INZ, Z2Nat.id by lia. reflexivity. }
  assert (Hc1 : (1 <= INR c)%R) by (rewrite Hc; apply IZR_le; lia).
  assert (HBp : (1 <= IZR (B ^ p))%R) by (apply IZR_le; pose proof (Z.pow_pos_nonneg B p); lia).
  assert (HGC : (INR c * (2 * IZR (B ^ p) + 1) <= U)%R).
  { rewrite Hc. unfold U. rewrite <- (mult_IZR 2 (B ^ p)), <- (plus_IZR _ 1), <- mult_IZR. apply IZR_le. exact GC. }
  destruct (u_bounds B HB wp Hwp) as [u0 u1]. fold U in u0, u1.
  assert (Hcu : (INR c * / U < 1)%R).
  { apply (Rmult_lt_reg_r U); [lra|]. rewrite Rmult_assoc, Rinv_l by lra. nra. }
  pose proof (RA_dist (/ U) u0 u1 c t v Hcu Rel) as Hd.
  assert (Hd' : (Rabs (v - t) * (U - INR c) <= Rabs t * INR c)%R).
  { assert (Rabs (v - t) * (1 - INR c * / U) * U <= Rabs t * (INR c * / U) * U)%R by (apply Rmult_le_compat_r; lra).
    replace (Rabs (v - t) * (1 - INR c * / U) * U)%R with (Rabs (v - t) * (U - INR c))%R in H by (field; lra).
    replace (Rabs t * (INR c * / U) * U)%R with (Rabs t * INR c)%R in H by (field; lra). exact H. }
  assert (Hulp : (bp (E + 1) = bp (E - p + 1) * IZR (B ^ p))%R).
  { rewrite (IZR_Bpow B p) by lia. rewrite <- (bpw_add B HB). f_equal. lia. }
  set (ulp := bp (E - p + 1)) in *. assert (0 < ulp)%R by apply (bpw_pos B HB).
  pose proof (Rabs_pos (v - t)) as Hv0.
  assert (H1 : (Rabs (v - t) * (2 * INR c * IZR (B ^ p)) <= Rabs (v - t) * (U - INR c))%R) by (apply Rmult_le_compat_l; nra).
  assert (H2 : (Rabs t * INR c < ulp * IZR (B ^ p) * INR c)%R) by (apply Rmult_lt_compat_r; lra).
  assert (H3 : (Rabs (v - t) * 2 * (INR c * IZR (B ^ p)) < ulp * (INR c * IZR (B ^ p)))%R) by nra.
  assert (0 < INR c * IZR (B ^ p))%R by nra.
  apply (Rmult_lt_reg_r (2 * (INR c * IZR (B ^ p)))); [nra|]. nra.
Qed.

(** exp.rs: guard_digits = exp.bit_len() + self.precision.bit_len() (regenerated) satisfies the sharper
    condition for EVERY base from 2 digits on, and for every base >= 3 at 1 digit *)
Theorem powi_guard_condition1 p n : 1 <= p -> 2 <= n -> 3 <= B \/ 2 <= p ->
  guard_condition1 p n (powi_work_precision p n).
Proof.
  intros Hp Hn Hcase. unfold guard_condition1, powi_work_precision, powi_work_precision_gen, powi_guard_digits_gen.
  destruct (Z.eqb_spec p 0); [lia|].
  destruct (bit_len_bounds n ltac:(lia)) as (Ln1 & Un & Lown). destruct (bit_len_bounds p Hp) as (Lp1 & Up & Lowp).
  set (L := bit_len n) in *. set (Lp := bit_len p) in *.
  replace (p + (L + Lp) - 1) with ((p - 1) + L + Lp) by lia.
  rewrite !Z.pow_add_r by lia.
  assert (Hpp : 0 < B ^ (p - 1)) by (apply Z.pow_pos_nonneg; lia).
  assert (HBp : B ^ p = B * B ^ (p - 1)).
  { replace p with (1 + (p - 1)) at 1 by lia. rewrite Z.pow_add_r, Z.pow_1_r by lia. reflexivity. }
  assert (H2L : 2 ^ L <= B ^ L) by (apply Z.pow_le_mono_l; lia).
  assert (HBLp : B <= B ^ Lp).
  { rewrite <- (Z.pow_1_r B) at 1. apply Z.pow_le_mono_r; lia. }
  assert (Hn1 : 0 <= n - 1) by lia.
  (* (n-1) (2 B^p + 1) <= (n-1) * K * B^(p-1) with K = 2B+1, and (n-1) K <= 2 B^L B^Lp *)
  assert (A1 : (n - 1) * (2 * B ^ p + 1) <= (n - 1) * ((2 * B + 1) * B ^ (p - 1))).
  { apply Z.mul_le_mono_nonneg_l; [lia|]. rewrite HBp. nia. }
  assert (A3 : (n - 1) * (2 * B + 1) <= 2 * B ^ L * B ^ Lp).
  { destruct Hcase as [HB3|Hp2].
    - (* B >= 3: 2B+1 <= 3B - ... : (n-1)(2B+1) <= 2^L (2B+1) <= ... *)
      assert (H3L : 3 ^ L <= B ^ L) by (apply Z.pow_le_mono_l; lia).
      assert (L2 : 2 <= L).
      { destruct (Z_lt_le_dec L 2); [|assumption]. exfalso. assert (L = 1) by lia. rewrite H in Un. simpl in Un. lia. }
      assert (H32 : 3 * 2 ^ L <= 3 ^ L + 7).
      { pose proof (pow23 (Z.to_nat L) ltac:(lia)) as P. rewrite Z2Nat.id in P by lia. lia. }
      (* 3 (n-1) <= 3 (2^L - 2) <= 2 * 3^L - 3 <= 2 B^L; and 2B+1 <= 3B <= 3 B^Lp *)
      assert (H3p : 1 <= 3 ^ L) by (pose proof (Z.pow_pos_nonneg 3 L); lia).
      assert (Hk : 3 * (n - 1) <= 2 * B ^ L) by lia.
      assert (0 <= 2 * B ^ L) by lia.
      assert ((n - 1) * (2 * B + 1) <= (n - 1) * (3 * B)) by (apply Z.mul_le_mono_nonneg_l; lia).
      assert (3 * (n - 1) * B <= 2 * B ^ L * B) by (apply Z.mul_le_mono_nonneg_r; lia).
      assert (2 * B ^ L * B <= 2 * B ^ L * B ^ Lp) by (apply Z.mul_le_mono_nonneg_l; lia).
      lia.
    - (* p >= 2: bit_len p >= 2, B^Lp >= B^2 >= 2B and >= B + 1... : (n-1)(2B+1) <= 2^L * (2B+1) <= 2 B^L * B^2 *)
      assert (Lp2 : 2 <= Lp).
      { destruct (Z_lt_le_dec Lp 2); [|assumption]. exfalso. assert (Lp = 1) by lia. rewrite H in Up. simpl in Up. lia. }
      assert (HB2 : B * B <= B ^ Lp).
      { replace Lp with (2 + (Lp - 2)) by lia. rewrite Z.pow_add_r by lia. replace (B ^ 2) with (B * B) by ring.
        assert (1 <= B ^ (Lp - 2)) by (pose proof (Z.pow_pos_nonneg B (Lp - 2)); lia). nia. }
      assert (2 * B + 1 <= 2 * (B * B)) by nia.
      assert ((n - 1) * (2 * B + 1) <= 2 ^ L * (2 * B + 1)) by (apply Z.mul_le_mono_nonneg_r; lia).
      assert (2 ^ L * (2 * B + 1) <= B ^ L * (2 * B + 1)) by (apply Z.mul_le_mono_nonneg_r; lia).
      assert (0 <= B ^ L) by lia.
      assert (B ^ L * (2 * B + 1) <= B ^ L * (2 * B ^ Lp)) by (apply Z.mul_le_mono_nonneg_l; lia).
      lia. }
  assert (A4 : (n - 1) * (2 * B + 1) * B ^ (p - 1) <= 2 * B ^ L * B ^ Lp * B ^ (p - 1)) by (apply Z.mul_le_mono_nonneg_r; lia).
  lia.
Qed.

(** Context::powi with an exponent n >= 2 in the nearest modes, every base >= 2 at p >= 2 (base >= 3
    also at p = 1): within one ulp, Exact only if exact *)
Theorem powi_asis_nearest1 p m s e n : 1 <= p -> 2 <= n -> s <> 0 -> is_half_mode m = true ->
  3 <= B \/ 2 <= p -> dlen B s <= 2 * powi_work_precision p n ->
  exists a, powi_asis B p m s e n = Ok a /\
    Accepted B p (powerRZ (fval B s e) n) (aval B a) (is_exact a).
Proof.
  intros Hp Hn Hs Hm Hc Hd. unfold powi_asis. destruct (Z.ltb_spec n 0); [lia|].
  eexists. split; [reflexivity|].
  apply powi_pos_nearest1; try assumption.
  - apply powi_work_precision_gt; assumption.
  - apply powi_guard_condition1; assumption.
Qed.

End Main1.

(** EVERY integer exponent: Context::powi in the nearest modes, for p >= 2 (any base >= 2) or B >= 5, and
    an operand of at most 2 p digits, is within one ulp of x^n and flags Exact only an exact result *)
Theorem powi_asis_nearest_every_exponent1 B : 2 <= B -> forall p m s e n,
  1 <= p -> s <> 0 -> is_half_mode m = true -> 2 <= p \/ 5 <= B -> dlen B s <= 2 * p ->
  exists a, powi_asis B p m s e n = Ok a /\
    Accepted B p (powerRZ (fval B s e) n) (aval B a) (is_exact a).
Proof.
  intros HB p m s e n Hp Hs Hm Hc Hd.
  assert (Hwp : forall q k, 1 <= q -> 1 <= k -> q <= powi_work_precision q k).
  { intros q k Hq Hk. unfold powi_work_precision, powi_work_precision_gen, powi_guard_digits_gen. destruct (Z.eqb_spec q 0); [lia|].
    pose proof (bit_len_nonneg k). pose proof (bit_len_nonneg q). lia. }
  destruct (Z.lt_trichotomy n 0) as [N|[->|P]].
  - apply powi_asis_neg_nearest; try assumption.
    pose proof (bit_len_nonneg p).
    specialize (Hwp (powi_neg_precision_gen no_f32 p (powi_neg_guard_bits_gen no_f32 p)) (- n)).
    unfold powi_neg_precision_gen, powi_neg_guard_bits_gen in *. lia.
  - exists (AExact 1 0). split; [reflexivity|]. split.
    + left. unfold aval. cbn [approx_sig approx_exp powerRZ]. apply fval_1_0.
    + intros _. unfold aval. cbn [approx_sig approx_exp powerRZ]. apply fval_1_0.
  - destruct (Z.eq_dec n 1) as [->|N1].
    + unfold powi_asis, powi_pos. cbn [Z.ltb Z.compare Z.eqb]. eexists. split; [reflexivity|].
      rewrite powerRZ_1. assert (HX : fval B s e <> 0%R) by (apply (fval_neq0 B HB); assumption). split.
      * right. apply (RD_final B HB p m s e (fval B s e) 0 Hp Hm HX); [lra | lra |].
        exists 1%R. split; [ring|]. replace (1 - 1)%R with 0%R by ring. rewrite Rabs_R0. lra.
      * apply c_repr_round_exact_val; assumption.
    + apply powi_asis_nearest1; try assumption; try lia.
      specialize (Hwp p n). lia.
Qed.

(** non-vacuity: base 2 at 2 and 3 bits (outside the theorems of round 3) *)
Example powi_asis_nearest1_example :
  (exists a, powi_asis 2 2 MHalfEven 3 (-1) 1000001 = Ok a /\
     Accepted 2 2 (powerRZ (fval 2 3 (-1)) 1000001) (aval 2 a) (is_exact a)) /\
  (exists a, powi_asis 2 3 MHalfAway (-5) 0 (-77) = Ok a /\
     Accepted 2 3 (powerRZ (fval 2 (-5) 0) (-77)) (aval 2 a) (is_exact a)).
Proof.
  split.
  - apply (powi_asis_nearest_every_exponent1 2 ltac:(lia) 2 MHalfEven 3 (-1) 1000001); try lia; [reflexivity|].
    vm_compute. discriminate.
  - apply (powi_asis_nearest_every_exponent1 2 ltac:(lia) 3 MHalfAway (-5) 0 (-77)); try lia; [reflexivity|].
    vm_compute. discriminate.
Qed.

(* ---------------------------------------------------------------- (c) operands longer than 2 wp digits *)
(** Context::sqr / Context::mul round an operand of more than 2 wp digits to 2 wp digits and DROP the
    flag of that rounding (C03 finding F08): Context::powi then flags a result Exact that is not x^n.
    Witness (reproduced on the implementation: `powi a HalfEven 1 5f5e101 0 2` answers 1e16 Exact):
    100000001^2 at one decimal digit: the working precision is 1 + bit_len 2 + bit_len 1 = 4 digits,
    the operand has 9 > 8 digits, is rounded to 10000000e1, whose square 1e16 is flagged Exact. *)
Theorem powi_overlong_refuted :
  powi_asis 10 1 MHalfEven 100000001 0 2 = Ok (AExact 1 16) /\
  2 * powi_work_precision 1 2 < dlen 10 100000001 /\
  100000001 ^ 2 <> 1 * 10 ^ 16.
Proof. vm_compute. repeat split; congruence. Qed.

(** outside that class (and for |n| >= 2 ... ) the flag is truthful in EVERY mode - restated from round 3
    with the class predicate *)
Theorem powi_exact_flag_outside_overlong B : 2 <= B -> forall p m s e n, 1 <= p -> 0 <= n ->
  powi_overlong B p s n = false ->
  is_exact (powi_pos B p m s e n) = true -> aval B (powi_pos B p m s e n) = powerRZ (fval B s e) n.
Proof.
  intros HB p m s e n Hp Hn Hc. unfold powi_overlong in Hc.
  destruct (Z.eqb_spec p 0); [lia|]. destruct (Z.ltb_spec n 0); [lia|].
  destruct (Z.gtb_spec n 1) as [N1|N1]; cbn [andb] in Hc.
  - destruct (Z.gtb_spec (dlen B s) (2 * powi_work_precision p n)); [discriminate|].
    apply powi_pos_exact_flag; assumption.
  - (* n = 0 or n = 1: no powering *)
    unfold powi_pos. destruct (Z.eqb_spec n 0) as [->|N0].
    + intros _. unfold aval. cbn [approx_sig approx_exp powerRZ]. apply fval_1_0.
    + destruct (Z.eqb_spec n 1) as [->|N2]; [|lia].
      intros Hx. rewrite (c_repr_round_exact_val B HB _ _ _ _ Hx). rewrite powerRZ_1. reflexivity.
Qed.
