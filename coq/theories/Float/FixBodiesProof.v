(** C03 round 4: the WHOLE bodies regenerated from float/src/{add,mul,div,root}.rs on every run
    (coq/gen/FloatAddBodies.v, FloatOpBodies.v; tools/translate_c03_r4.py) are the hand-written as-is models
    with every Repr::new (FixModel.v `_fix_n`, LongModel.ctx_sqrt_n) - for all inputs.  An edit of a branch
    condition, a shift amount, the order of operands, the loop of repr_round_sum or its break test makes one of
    these equations fail. *)
From Dashu Require Import Base.Prelude Float.RoundSpec Float.Contract Float.Model Float.ModelProof Float.AddModel
  Float.DivMulModel Float.LongModel Float.NormalProof Float.FixModel.
From DashuGen Require Import RoundTables FloatAddBodies FloatOpBodies.
Open Scope Z_scope.

Ltac destr_norm :=
  repeat match goal with |- context [normalize ?B ?a ?b] => destruct (normalize B a b) end.
Ltac destr_if :=
  repeat match goal with |- context [if ?c then _ else _] => destruct c end.

Section Bodies.
Variable B : Z.

(* ------------------------------------------------------------------ add.rs *)
(** the `while` loop of repr_round_sum (the generated Fixpoint also carries the digit count) *)
Lemma rrs_gen_loop_eq fuel : forall p m rp sig e low lp d,
  option_map (fun '(s, e', l, k, _) => (s, e', l, k)) (rrs_gen_loop B fuel p m rp sig e low lp d) =
  expand_loop B fuel p rp sig e low lp d.
Proof.
  induction fuel as [|f IH]; intros p m rp sig e low lp d; cbn [rrs_gen_loop expand_loop].
  - destruct ((d <? rp) && negb (low =? 0)); reflexivity.
  - destruct ((d <? rp) && negb (low =? 0)); [|reflexivity].
    unfold expand_step, head_ok. cbv zeta.
    destruct (split_digits B low (lp - Z.min lp (rp - d))) as [pad low'].
    destruct ((dlen B (shl_digits B sig (Z.min lp (rp - d)) + pad) >=? p) &&
              (dlen B (shl_digits B sig (Z.min lp (rp - d)) + pad + Z.sgn low') >=? p)); [reflexivity|].
    apply IH.
Qed.

Theorem rrs_gen_eq p m sig e low lp is_sub :
  rrs_gen B p m sig e low lp is_sub = bind_approx (repr_round_sum_fix B p m sig e low lp is_sub) (norm_approx B).
Proof.
  unfold rrs_gen, repr_round_sum_fix, realign_fix, rrs_tail_f. cbv zeta.
  destruct (p =? 0); cbn [negb bind_approx norm_approx]; [destr_norm; reflexivity|].
  destruct (dlen B sig ?= p + b2z is_sub).
  - cbn [bind_approx]. destruct (low =? 0); cbn [norm_approx]; destr_norm; reflexivity.
  - pose proof (rrs_gen_loop_eq (Z.to_nat lp + 1) p m (p + b2z is_sub) sig e low lp (dlen B sig)) as L.
    destruct (rrs_gen_loop B (Z.to_nat lp + 1) p m (p + b2z is_sub) sig e low lp (dlen B sig)) as [[[[[s e'] l] k] dd]|];
      cbn [option_map] in L; rewrite <- L; cbn [bind_approx]; [|reflexivity].
    destruct (l =? 0); cbn [norm_approx]; destr_norm; reflexivity.
  - destruct (split_digits B sig (dlen B sig - (p + b2z is_sub))) as [hi lo]. cbn [bind_approx].
    destruct (low + shl_digits B lo lp =? 0); cbn [norm_approx]; destr_norm; reflexivity.
Qed.

Variable digits_ub : Z -> Z.

Ltac destr_split :=
  repeat match goal with |- context [split_digits ?B ?a ?b] => destruct (split_digits B a b) end.

(** the exponent gap is isize::abs_diff in the code: |e1 - e2|, with the sign the caller guarantees *)
Theorem large_small_gen_eq p m s1 e1 s2 e2 sg : e2 <= e1 ->
  large_small_gen B digits_ub p m s1 e1 s2 e2 sg =
  bind_approx (repr_add_large_small_fix B digits_ub p m s1 e1 s2 e2 sg) (norm_approx B).
Proof.
  intros He. unfold large_small_gen, repr_add_large_small_fix, far_low_prec. cbv zeta.
  rewrite ?(Z.abs_eq (e1 - e2)) by lia.
  destr_if; destr_split; rewrite ?rrs_gen_eq; try reflexivity;
    cbn [sgnz]; rewrite ?Z.mul_1_l; try reflexivity;
    replace (-1 * s2) with (- s2) by ring; reflexivity.
Qed.

Theorem small_large_gen_eq p m s1 e1 s2 e2 sg : e1 <= e2 ->
  small_large_gen B digits_ub p m s1 e1 s2 e2 sg =
  bind_approx (repr_add_small_large_fix B digits_ub p m s1 e1 s2 e2 sg) (norm_approx B).
Proof.
  intros He. unfold small_large_gen, repr_add_small_large_fix, far_low_prec. cbv zeta.
  rewrite ?(Z.abs_eq (e2 - e1)) by lia.
  destr_if; destr_split; rewrite ?rrs_gen_eq; try reflexivity;
    cbn [sgnz]; rewrite ?Z.mul_1_l; try reflexivity;
    replace (-1 * s2) with (- s2) by ring; reflexivity.
Qed.

Theorem ctx_add_gen_eq p m s1 e1 s2 e2 :
  ctx_add_gen B digits_ub p m s1 e1 s2 e2 = ctx_add_fix_n B digits_ub p m s1 e1 s2 e2.
Proof.
  unfold ctx_add_gen, ctx_add_fix_n, add_dispatch_fix_n. cbv zeta. cbn [sgnz]. rewrite Z.mul_1_l.
  destruct (s1 =? 0); [reflexivity|]. destruct (s2 =? 0); [reflexivity|].
  destruct (Z.compare_spec e1 e2); [destr_norm; reflexivity | apply small_large_gen_eq; lia | apply large_small_gen_eq; lia].
Qed.

Theorem ctx_sub_gen_eq p m s1 e1 s2 e2 :
  ctx_sub_gen B digits_ub p m s1 e1 s2 e2 = ctx_sub_fix_n B digits_ub p m s1 e1 s2 e2.
Proof.
  unfold ctx_sub_gen, ctx_sub_fix_n, add_dispatch_fix_n. cbv zeta. cbn [sgnz].
  replace (-1 * s2) with (- s2) by ring. change (s1 + - s2) with (s1 - s2).
  destruct (s1 =? 0); [reflexivity|]. destruct (s2 =? 0); [reflexivity|].
  destruct (Z.compare_spec e1 e2); [destr_norm; reflexivity | apply small_large_gen_eq; lia | apply large_small_gen_eq; lia].
Qed.

(* ------------------------------------------------------------------ mul.rs *)
Theorem ctx_mul_gen_eq p m s1 e1 s2 e2 :
  ctx_mul_gen B p m s1 e1 s2 e2 = ctx_mul_fix_n B p m s1 e1 s2 e2 /\
  ctx_sqr_gen B p m s1 e1 = ctx_sqr_fix_n B p m s1 e1 /\
  ctx_cubic_gen B p m s1 e1 = ctx_cubic_fix_n B p m s1 e1.
Proof. repeat split; reflexivity. Qed.

(* ------------------------------------------------------------------ div.rs *)
Theorem repr_div_gen_eq p m s1 e1 s2 e2 :
  repr_div_gen B p m s1 e1 s2 e2 = repr_div_fix_n B p m s1 e1 s2 e2.
Proof.
  unfold repr_div_gen, repr_div_fix_n, repr_div_fix, div_scale. cbv zeta.
  assert (G : forall d e2' P, (P =? 0) = false ->
    (if d =? 0 then Panic DivideBy0 else
     let q := Z.quot s1 d in let r := Z.rem s1 d in let e := e1 - e2' in
     if r =? 0 then Ok (AExact (fst (normalize B q e)) (snd (normalize B q e)))
     else let ddigits := dlen B d in
       if q =? 0 then
         let rdigits := dlen B r in let shift := ddigits + P - rdigits in let r := shl_digits B r shift in
         let e := e - shift in
         if d =? 0 then Panic DivideBy0 else
         let q0 := Z.quot r d in let r0 := Z.rem r d in let q := q0 in let r := r0 in
         Ok (if r =? 0 then AExact (fst (normalize B q e)) (snd (normalize B q e))
             else let adjust := round_ratio m q r d in
                  AInexact (fst (normalize B (q + adj adjust) e)) (snd (normalize B (q + adj adjust) e)) adjust)
       else
         let ndigits := dlen B q + ddigits in
         if ndigits <? ddigits + P then
           let shift := ddigits + P - ndigits in let q := shl_digits B q shift in let r := shl_digits B r shift in
           let e := e - shift in
           if d =? 0 then Panic DivideBy0 else
           let q0 := Z.quot r d in let r0 := Z.rem r d in let q := q + q0 in let r := r0 in
           Ok (if r =? 0 then AExact (fst (normalize B q e)) (snd (normalize B q e))
               else let adjust := round_ratio m q r d in
                    AInexact (fst (normalize B (q + adj adjust) e)) (snd (normalize B (q + adj adjust) e)) adjust)
         else
           Ok (if r =? 0 then AExact (fst (normalize B q e)) (snd (normalize B q e))
               else let adjust := round_ratio m q r d in
                    AInexact (fst (normalize B (q + adj adjust) e)) (snd (normalize B (q + adj adjust) e)) adjust))
    = map_approx (norm_approx B) (repr_div B P m s1 e1 d e2')).
  { intros d e2' P HP. unfold repr_div. rewrite HP. cbv zeta. unfold shl_digits.
    destruct (d =? 0); [reflexivity|].
    destruct (Z.rem s1 d =? 0) eqn:HR; [cbn [map_approx norm_approx]; destr_norm; reflexivity|].
    destruct (Z.quot s1 d =? 0).
    - destruct (Z.rem (Z.rem s1 d * B ^ (dlen B d + P - dlen B (Z.rem s1 d))) d =? 0);
        cbn [map_approx norm_approx]; destr_norm; reflexivity.
    - destruct (dlen B (Z.quot s1 d) + dlen B d <? dlen B d + P).
      + destruct (Z.rem (Z.rem s1 d * B ^ (dlen B d + P - (dlen B (Z.quot s1 d) + dlen B d))) d =? 0);
          cbn [map_approx norm_approx]; destr_norm; reflexivity.
      + rewrite HR. cbn [map_approx norm_approx]; destr_norm; reflexivity. }
  destruct (p =? 0) eqn:HP0; [reflexivity|].
  destruct (dlen B s1 >? p + dlen B s2); cbv beta iota zeta; apply G; exact HP0.
Qed.

Theorem ctx_div_inv_gen_eq p m s1 e1 s2 e2 :
  ctx_div_gen B p m s1 e1 s2 e2 = repr_div_fix_n B p m s1 e1 s2 e2 /\
  ctx_inv_gen B p m s2 e2 = ctx_inv_fix_n B p m s2 e2.
Proof. unfold ctx_div_gen, ctx_inv_gen, ctx_inv_fix_n. split; apply repr_div_gen_eq. Qed.

(* ------------------------------------------------------------------ root.rs *)
Hypothesis B_ge_2 : 2 <= B.

(** the last step of Context::sqrt on a root that went through Repr::new *)
Lemma sqrt_tail_eq p m (res : zapprox) exp :
  approx_and_then (zapprox_map_repr res (fun signif => (fst (normalize B signif exp), snd (normalize B signif exp))))
    (fun v_s v_e => repr_round_n B p m v_s v_e) =
  (fun a => match a with
            | AExact s' e' => AExact s' e'
            | AInexact s' e' r => let '(s'', e'') := normalize B s' e' in AInexact s'' e'' r
            end)
    (approx_and_then (match res with ZExact v => AExact v exp | ZInexact v r => AInexact v exp r end)
       (fun s' e' => let '(s'', e'') := normalize B s' e' in repr_round B p m s'' e'')).
Proof.
  destruct res as [v|v r]; cbn [zapprox_map_repr approx_and_then].
  - pose proof (normalize_normal B B_ge_2 v exp) as N. destruct (normalize B v exp) as [ns ne]. cbn [fst snd].
    reflexivity.
  - pose proof (normalize_normal B B_ge_2 v exp) as N. destruct (normalize B v exp) as [ns ne]. cbn [fst snd].
    unfold repr_round_n. destruct (repr_round B p m ns ne) as [s' e'|s' e' r'] eqn:E; [|destruct (normalize B s' e'); reflexivity].
    (* the rounding handed the (normalised) root back: normalising it once more changes nothing *)
    assert (Hse : s' = ns /\ e' = ne).
    { revert E. unfold repr_round. destruct (p =? 0); [intros E; injection E; auto|].
      destruct (dlen B ns >? p); [destruct (split_digits B ns (dlen B ns - p)); discriminate|].
      intros E; injection E; auto. }
    destruct Hse as [-> ->]. rewrite (normalize_id B B_ge_2 ns ne N). reflexivity.
Qed.

(** (digits ^ exponent) & 1 is the parity of digits + exponent *)
Lemma lxor_parity a b : Z.lxor a b mod 2 = (a + b) mod 2.
Proof. rewrite <- !Z.bit0_mod. rewrite Z.lxor_spec, Z.add_bit0. reflexivity. Qed.

Theorem ctx_sqrt_gen_eq p m s e : ctx_sqrt_gen B p m s e = ctx_sqrt_n B p m s e.
Proof.
  unfold ctx_sqrt_gen, ctx_sqrt_n, ctx_sqrt. cbv zeta. rewrite ?lxor_parity.
  destruct (p =? 0); [reflexivity|].
  unfold sign_of. destruct (s <? 0); cbn [sign_eqb]; [reflexivity|].
  cbn [map_approx]. f_equal.
  destruct (p * 2 - (dlen B s + e) mod 2 - dlen B s >? 0).
  - rewrite sqrt_tail_eq.
    destruct ((Z.abs (shl_digits B s (p * 2 - (dlen B s + e) mod 2 - dlen B s)) -
               Z.sqrt (Z.abs (shl_digits B s (p * 2 - (dlen B s + e) mod 2 - dlen B s))) *
               Z.sqrt (Z.abs (shl_digits B s (p * 2 - (dlen B s + e) mod 2 - dlen B s))) =? 0) && (0 =? 0)); reflexivity.
  - rewrite sqrt_tail_eq.
    destruct (split_digits B s (- (p * 2 - (dlen B s + e) mod 2 - dlen B s))) as [hi lo].
    destruct ((Z.abs hi - Z.sqrt (Z.abs hi) * Z.sqrt (Z.abs hi) =? 0) && (lo =? 0)); reflexivity.
Qed.

End Bodies.
