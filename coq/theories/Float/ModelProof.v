(** The as-is float models compute the rounding specification [spec_round] of the exact result. *)
From Dashu Require Import Base.Prelude Float.RoundSpec Float.RoundTablesProof Float.RoundSpecProof Float.Contract Float.Model.
From DashuGen Require Import RoundTables.
Open Scope Z_scope.

Section Proofs.
Variable B : Z.
Hypothesis B_ge_2 : 2 <= B.

Lemma Bpow_pos k : 0 <= k -> 0 < B ^ k.
Proof. intros. apply Z.pow_pos_nonneg; lia. Qed.

(* ---------------------------------------------------------------- digit length *)

Lemma dlen_aux_spec fuel : forall a, 0 <= a < 2 ^ Z.of_nat fuel ->
  (a = 0 -> dlen_aux fuel B a = 0) /\
  (0 < a -> B ^ (dlen_aux fuel B a - 1) <= a < B ^ (dlen_aux fuel B a) /\ 1 <= dlen_aux fuel B a).
Proof.
  induction fuel as [|f IH]; intros a Ha.
  - cbn [Z.of_nat] in Ha. rewrite Z.pow_0_r in Ha. split; [reflexivity | lia].
  - rewrite Nat2Z.inj_succ, Z.pow_succ_r in Ha by lia. cbn [dlen_aux].
    destruct (Z.eqb_spec a 0) as [->|Hne]; [split; [reflexivity | lia]|].
    split; [lia|]. intros Hpos.
    assert (Hq : 0 <= a / B < 2 ^ Z.of_nat f).
    { split; [apply Z.div_pos; lia|]. apply Z.div_lt_upper_bound; [lia|]. nia. }
    destruct (IH (a / B) Hq) as [IH0 IH1].
    pose proof (Z.div_mod a B ltac:(lia)) as E. pose proof (Z.mod_pos_bound a B ltac:(lia)) as Hm.
    destruct (Z.eq_dec (a / B) 0) as [Hz|Hnz].
    + rewrite (IH0 Hz). replace (1 + 0 - 1) with 0 by lia. rewrite Z.pow_0_r, Z.add_0_r, Z.pow_1_r. lia.
    + destruct (IH1 ltac:(lia)) as [[L U] G]. set (k := dlen_aux f B (a / B)) in *.
      replace (1 + k - 1) with (Z.succ (k - 1)) by lia. replace (1 + k) with (Z.succ k) by lia.
      rewrite !Z.pow_succ_r by lia. split; [nia | lia].
Qed.

Lemma dlen_zero : dlen B 0 = 0.
Proof. reflexivity. Qed.

Lemma dlen_spec a : a <> 0 -> B ^ (dlen B a - 1) <= Z.abs a < B ^ dlen B a /\ 1 <= dlen B a.
Proof.
  intros Ha. unfold dlen. apply dlen_aux_spec; [|lia].
  split; [lia|]. rewrite Z2Nat.id by (pose proof (Z.log2_nonneg (Z.abs a)); lia).
  pose proof (Z.log2_spec (Z.abs a) ltac:(lia)) as [_ H]. replace (Z.succ (Z.log2 (Z.abs a))) with (Z.log2 (Z.abs a) + 1) in H by lia. exact H.
Qed.

Lemma dlen_nonneg a : 0 <= dlen B a.
Proof. destruct (Z.eq_dec a 0) as [->|H]; [rewrite dlen_zero; lia | pose proof (dlen_spec a H); lia]. Qed.

(** digit length is characterised by its bracket *)
Lemma dlen_unique a k : 1 <= k -> B ^ (k - 1) <= Z.abs a < B ^ k -> dlen B a = k.
Proof.
  intros Hk [L U]. assert (a <> 0) by (pose proof (Bpow_pos (k - 1) ltac:(lia)); lia).
  destruct (dlen_spec a H) as [[L' U'] G]. set (d := dlen B a) in *.
  destruct (Z.lt_trichotomy d k) as [C|[C|C]]; [|exact C|].
  - assert (B ^ d <= B ^ (k - 1)) by (apply Z.pow_le_mono_r; lia). lia.
  - assert (B ^ k <= B ^ (d - 1)) by (apply Z.pow_le_mono_r; lia). lia.
Qed.

(* ---------------------------------------------------------------- round_fract / round_ratio *)

Theorem round_fract_spec m hi lo k : 0 <= k -> Z.abs lo < B ^ k ->
  hi + adj (round_fract B m hi lo k) = spec_round m (hi * B ^ k + lo) (B ^ k).
Proof.
  intros Hk Hlo. pose proof (Bpow_pos k Hk) as Hp. unfold round_fract.
  destruct (Z.eqb_spec lo 0) as [->|Hne].
  - cbn [adj]. rewrite !Z.add_0_r.
    pose proof (spec_round_exact m (hi * B ^ k) (B ^ k) Hp ltac:(apply Z.mod_mul; lia)) as E. nia.
  - apply T_round; assumption.
Qed.

Lemma compare_opp_swap a b : (a ?= - b) = (b ?= - a).
Proof. rewrite <- (Z.opp_involutive a) at 1. rewrite Z.compare_opp. reflexivity. Qed.

Theorem round_ratio_spec m I num den : den <> 0 -> Z.abs num < Z.abs den ->
  I + adj (round_ratio m I num den) = spec_round m (Z.sgn den * (I * den + num)) (Z.abs den).
Proof.
  intros Hd Hn. unfold round_ratio.
  assert (Hdp : 0 < Z.abs den) by lia.
  replace (Z.sgn den * (I * den + num)) with (I * Z.abs den + Z.sgn den * num).
  2:{ destruct (Z.lt_trichotomy den 0) as [H|[H|H]]; [rewrite Z.sgn_neg, Z.abs_neq by lia | lia | rewrite Z.sgn_pos, Z.abs_eq by lia]; ring. }
  destruct (Z.eqb_spec num 0) as [->|Hne].
  - cbn [adj]. rewrite Z.mul_0_r, !Z.add_0_r.
    pose proof (spec_round_exact m (I * Z.abs den) (Z.abs den) Hdp ltac:(apply Z.mod_mul; lia)) as E. nia.
  - set (n := Z.sgn den * num).
    assert (Habs : Z.abs n = Z.abs num).
    { unfold n. destruct (Z.lt_trichotomy den 0) as [H|[H|H]]; [rewrite Z.sgn_neg by lia | lia | rewrite Z.sgn_pos by lia]; lia. }
    assert (Hs : sign_mul (sign_of num) (sign_of den) = sign_of n).
    { unfold n. destruct (Z.lt_trichotomy den 0) as [H|[H|H]]; [|lia|].
      - rewrite Z.sgn_neg by lia. rewrite (sign_of_neg den) by lia.
        destruct (Z.lt_trichotomy num 0) as [H'|[H'|H']]; [|lia|].
        + rewrite (sign_of_neg num), (sign_of_pos (-1 * num)) by lia. reflexivity.
        + rewrite (sign_of_pos num), (sign_of_neg (-1 * num)) by lia. reflexivity.
      - rewrite Z.sgn_pos by lia. rewrite (sign_of_pos den) by lia. rewrite Z.mul_1_l.
        destruct (sign_of num); reflexivity. }
    assert (Hc : (if 0 <? den then 2 * Z.abs num ?= den else den ?= - (2 * Z.abs num)) = (2 * Z.abs n ?= Z.abs den)).
    { rewrite Habs. destruct (Z.ltb_spec 0 den).
      - rewrite (Z.abs_eq den) by lia. reflexivity.
      - rewrite (Z.abs_neq den) by lia. apply compare_opp_swap. }
    rewrite Hs, Hc. apply T_round; [assumption | unfold n; nia | lia].
Qed.

(* ---------------------------------------------------------------- repr_round *)

Theorem repr_round_exact p m s e : dlen B s <= p -> repr_round B p m s e = AExact s e.
Proof.
  intros H. unfold repr_round. destruct (p =? 0); [reflexivity|].
  destruct (Z.gtb_spec (dlen B s) p); [lia | reflexivity].
Qed.

Theorem repr_round_unlimited m s e : repr_round B 0 m s e = AExact s e.
Proof. reflexivity. Qed.

(** more digits than the precision: the kept digits are the specification rounding of the
    significand to a multiple of B^(digits - p) *)
Theorem repr_round_spec p m s e : 1 <= p -> p < dlen B s ->
  exists a, repr_round B p m s e = AInexact (spec_round m s (B ^ (dlen B s - p))) (e + (dlen B s - p)) a /\
            a = round_fract B m (Z.quot s (B ^ (dlen B s - p))) (Z.rem s (B ^ (dlen B s - p))) (dlen B s - p).
Proof.
  intros Hp Hd. unfold repr_round. destruct (Z.eqb_spec p 0); [lia|].
  destruct (Z.gtb_spec (dlen B s) p); [|lia]. cbn [split_digits].
  set (k := dlen B s - p). eexists. split; [|reflexivity]. f_equal.
  pose proof (Bpow_pos k ltac:(lia)) as Hk.
  assert (Hrem : Z.abs (Z.rem s (B ^ k)) < B ^ k).
  { pose proof (Z.rem_bound_abs s (B ^ k) ltac:(lia)) as Hb. rewrite (Z.abs_eq (B ^ k)) in Hb by lia. exact Hb. }
  rewrite round_fract_spec by (try lia; exact Hrem).
  f_equal. pose proof (Z.quot_rem' s (B ^ k)) as E. lia.
Qed.

(** value form: the result is within one unit of the last kept digit, etc. follow from
    [spec_round_error], [spec_round_side], [spec_round_exact] applied to (s, B^(digits-p)) *)
Corollary repr_round_error p m s e : 1 <= p -> p < dlen B s ->
  let k := dlen B s - p in
  let r := approx_sig (repr_round B p m s e) in
  Z.abs (r * B ^ k - s) < B ^ k /\ (is_half_mode m = true -> 2 * Z.abs (r * B ^ k - s) <= B ^ k) /\
  side_ok m s (B ^ k) r /\ approx_exp (repr_round B p m s e) = e + k.
Proof.
  intros Hp Hd k r. destruct (repr_round_spec p m s e Hp Hd) as (a & E & _).
  subst r. rewrite E. cbn [approx_sig approx_exp]. fold k.
  pose proof (Bpow_pos k ltac:(unfold k; lia)) as Hk.
  pose proof (spec_round_error m s (B ^ k) Hk) as [E1 E2].
  pose proof (spec_round_side m s (B ^ k) Hk). auto.
Qed.

(** the rounded significand has p digits, or is exactly B^p (carry into a new digit) *)
Theorem repr_round_digits p m s e : 1 <= p -> p < dlen B s ->
  let r := approx_sig (repr_round B p m s e) in
  B ^ (p - 1) <= Z.abs r <= B ^ p.
Proof.
  intros Hp Hd r. destruct (repr_round_spec p m s e Hp Hd) as (a & E & _).
  subst r. rewrite E. cbn [approx_sig]. set (k := dlen B s - p).
  pose proof (Bpow_pos k ltac:(unfold k; lia)) as Hk.
  assert (Hs : s <> 0) by (intros ->; rewrite dlen_zero in Hd; lia).
  destruct (dlen_spec s Hs) as [[L U] _].
  replace (dlen B s - 1) with ((p - 1) + k) in L by (unfold k; lia).
  replace (dlen B s) with (p + k) in U by (unfold k; lia).
  rewrite Z.pow_add_r in L, U by lia.
  pose proof (spec_round_error m s (B ^ k) Hk) as [E1 _]. cbv zeta in E1.
  set (r := spec_round m s (B ^ k)) in *.
  pose proof (Bpow_pos (p - 1) ltac:(lia)). pose proof (Bpow_pos p ltac:(lia)).
  (* |r * Bk - s| < Bk, B^(p-1) Bk <= |s| < B^p Bk *)
  split.
  - destruct (Z.le_gt_cases (B ^ (p - 1)) (Z.abs r)); [assumption|].
    assert (Z.abs r * B ^ k <= (B ^ (p - 1) - 1) * B ^ k) by nia.
    assert (Z.abs (r * B ^ k) = Z.abs r * B ^ k) by (rewrite Z.abs_mul, (Z.abs_eq (B ^ k)); lia).
    lia.
  - destruct (Z.le_gt_cases (Z.abs r) (B ^ p)); [assumption|].
    assert ((B ^ p + 1) * B ^ k <= Z.abs r * B ^ k) by nia.
    assert (Z.abs (r * B ^ k) = Z.abs r * B ^ k) by (rewrite Z.abs_mul, (Z.abs_eq (B ^ k)); lia).
    lia.
Qed.

(* ---------------------------------------------------------------- normalize *)

Lemma strip_aux_spec fuel : forall s e, s <> 0 -> Z.abs s < 2 ^ Z.of_nat fuel ->
  let '(s', e') := strip_aux B fuel s e in
  s' <> 0 /\ s' mod B <> 0 /\ exists k, 0 <= k /\ e' = e + k /\ s = s' * B ^ k.
Proof.
  induction fuel as [|f IH]; intros s e Hs Hb.
  - cbn [Z.of_nat] in Hb. rewrite Z.pow_0_r in Hb. lia.
  - cbn [strip_aux]. destruct (Z.eqb_spec (s mod B) 0) as [Hm|Hm].
    + pose proof (Z.div_mod s B ltac:(lia)) as E. rewrite Hm, Z.add_0_r in E.
      assert (Hq : s / B <> 0) by (intros Z0; rewrite Z0 in E; lia).
      assert (Hqb : Z.abs (s / B) < 2 ^ Z.of_nat f).
      { rewrite Nat2Z.inj_succ, Z.pow_succ_r in Hb by lia.
        assert (Z.abs s = B * Z.abs (s / B)) by (rewrite E at 1; rewrite Z.abs_mul; lia). nia. }
      specialize (IH (s / B) (e + 1) Hq Hqb). destruct (strip_aux B f (s / B) (e + 1)) as [s' e'].
      destruct IH as (H1 & H2 & k & Hk & He & Hv). split; [exact H1|]. split; [exact H2|].
      exists (k + 1). split; [lia|]. split; [lia|]. rewrite Z.pow_add_r, Z.pow_1_r by lia. rewrite E at 1. rewrite Hv. ring.
    + split; [exact Hs|]. split; [exact Hm|]. exists 0. split; [lia|]. split; [lia|]. rewrite Z.pow_0_r. lia.
Qed.

(** normalize keeps the value and leaves no trailing zero digit *)
Theorem normalize_spec s e :
  let '(s', e') := normalize B s e in
  (s = 0 -> s' = 0 /\ e' = 0) /\
  (s <> 0 -> s' <> 0 /\ s' mod B <> 0 /\ exists k, 0 <= k /\ e' = e + k /\ s = s' * B ^ k).
Proof.
  unfold normalize. destruct (Z.eqb_spec s 0) as [->|Hs]; [split; [auto | intros; contradiction]|].
  assert (Hb : Z.abs s < 2 ^ Z.of_nat (Z.to_nat (Z.log2 (Z.abs s) + 1))).
  { rewrite Z2Nat.id by (pose proof (Z.log2_nonneg (Z.abs s)); lia).
    pose proof (Z.log2_spec (Z.abs s) ltac:(lia)) as [_ H]. replace (Z.succ (Z.log2 (Z.abs s))) with (Z.log2 (Z.abs s) + 1) in H by lia. exact H. }
  pose proof (strip_aux_spec _ s e Hs Hb) as H. destruct (strip_aux B _ s e) as [s' e'].
  split; [intros; contradiction | intros _; exact H].
Qed.

(** a normalised significand that is too long always loses a non-zero low part: the Inexact flag of
    repr_round is truthful *)
Lemma normalized_low_nonzero s k : s mod B <> 0 -> 1 <= k -> Z.rem s (B ^ k) <> 0.
Proof.
  intros Hm Hk Hr. apply Hm. pose proof (Z.quot_rem' s (B ^ k)) as E. rewrite Hr, Z.add_0_r in E.
  rewrite E. replace k with (1 + (k - 1)) by lia. rewrite Z.pow_add_r, Z.pow_1_r by lia.
  rewrite <- !Z.mul_assoc. rewrite Z.mul_comm. apply Z.mod_mul. lia.
Qed.

(* ---------------------------------------------------------------- mul / sqr / cubic *)

(** operands that fit the precision are not pre-shrunk; the product is rounded once *)
Theorem ctx_mul_spec p m s1 e1 s2 e2 : 1 <= p -> dlen B s1 <= p -> dlen B s2 <= p ->
  ctx_mul B p m s1 e1 s2 e2 = (let '(s, e) := normalize B (s1 * s2) (e1 + e2) in repr_round B p m s e).
Proof.
  intros Hp H1 H2. unfold ctx_mul, shrink. destruct (Z.eqb_spec p 0); [lia|].
  destruct (Z.gtb_spec (dlen B s1) (2 * p)); [lia|]. destruct (Z.gtb_spec (dlen B s2) (2 * p)); [lia|]. reflexivity.
Qed.

Theorem ctx_sqr_spec p m s e : 1 <= p -> dlen B s <= p ->
  ctx_sqr B p m s e = (let '(s', e') := normalize B (s * s) (2 * e) in repr_round B p m s' e').
Proof.
  intros Hp H1. unfold ctx_sqr, shrink. destruct (Z.eqb_spec p 0); [lia|].
  destruct (Z.gtb_spec (dlen B s) (2 * p)); [lia|]. reflexivity.
Qed.

Theorem ctx_cubic_spec p m s e : 1 <= p -> dlen B s <= p ->
  ctx_cubic B p m s e = (let '(s', e') := normalize B (s * s * s) (3 * e) in repr_round B p m s' e').
Proof.
  intros Hp H1. unfold ctx_cubic, shrink. destruct (Z.eqb_spec p 0); [lia|].
  destruct (Z.gtb_spec (dlen B s) (3 * p)); [lia|]. reflexivity.
Qed.

(* ---------------------------------------------------------------- division *)

Lemma quot_rem_scaled r s2 k : s2 <> 0 -> 0 <= k ->
  Z.abs (Z.rem (r * B ^ k) s2) < Z.abs s2 /\ r * B ^ k = Z.quot (r * B ^ k) s2 * s2 + Z.rem (r * B ^ k) s2.
Proof.
  intros Hs Hk. split; [apply Z.rem_bound_abs; assumption|]. pose proof (Z.quot_rem' (r * B ^ k) s2) as E. lia.
Qed.

(** repr_div returns, at exponent e1 - e2 - shift, the specification rounding of the exact
    quotient s1 * B^shift / s2 (sign moved to the numerator) - or that quotient itself, exactly *)
Theorem repr_div_spec p m s1 e1 s2 e2 : 1 <= p -> s2 <> 0 ->
  let k := repr_div_shift B p s1 s2 in
  0 <= k /\
  exists a, repr_div B p m s1 e1 s2 e2 = Ok a /\
    approx_exp a = e1 - e2 - k /\
    approx_sig a = spec_round m (Z.sgn s2 * (s1 * B ^ k)) (Z.abs s2) /\
    (match a with AExact q _ => q * s2 = s1 * B ^ k | AInexact _ _ _ => (s1 * B ^ k) mod s2 <> 0 end).
Proof.
  intros Hp Hs. cbv zeta. unfold repr_div, repr_div_shift.
  destruct (Z.eqb_spec p 0); [lia|]. destruct (Z.eqb_spec s2 0); [contradiction|].
  assert (Hdp : 0 < Z.abs s2) by lia.
  pose proof (Z.quot_rem' s1 s2) as QR. pose proof (Z.rem_bound_abs s1 s2 Hs) as RB.
  set (q := Z.quot s1 s2) in *. set (r := Z.rem s1 s2) in *.
  assert (Hexact : forall Q N, N = Q * s2 -> Q = spec_round m (Z.sgn s2 * N) (Z.abs s2)).
  { intros Q N ->. pose proof (spec_round_exact m (Z.sgn s2 * (Q * s2)) (Z.abs s2) Hdp) as E.
    assert (Z.sgn s2 * (Q * s2) = Q * Z.abs s2) as E'.
    { destruct (Z.lt_trichotomy s2 0) as [H|[H|H]]; [rewrite Z.sgn_neg, Z.abs_neq by lia | lia | rewrite Z.sgn_pos, Z.abs_eq by lia]; ring. }
    rewrite E' in *. specialize (E ltac:(apply Z.mod_mul; lia)). nia. }
  assert (Hinexact : forall Q R N, N = Q * s2 + R -> R <> 0 -> Z.abs R < Z.abs s2 ->
            Q + adj (round_ratio m Q R s2) = spec_round m (Z.sgn s2 * N) (Z.abs s2) /\ N mod s2 <> 0).
  { intros Q R N -> HR HB. split; [apply round_ratio_spec; assumption|].
    intros Hm. apply Z.mod_divide in Hm; [|assumption]. destruct Hm as [c Hc].
    assert (R = (c - Q) * s2) by lia. assert (c - Q <> 0) by (intros Z0; rewrite Z0 in *; lia). nia. }
  destruct (Z.eqb_spec r 0) as [Hr0|Hr0].
  - (* exact at the first division *)
    cbv beta iota. split; [lia|]. eexists. split; [reflexivity|]. cbn [approx_exp approx_sig].
    rewrite Z.pow_0_r, Z.mul_1_r. split; [lia|]. split; [apply Hexact; lia | lia].
  - pose proof (dlen_spec s2 Hs) as [[DL DU] DG]. set (dd := dlen B s2) in *.
    destruct (Z.eqb_spec q 0) as [Hq0|Hq0].
    + (* quotient 0: scale the remainder *)
      pose proof (dlen_spec r Hr0) as [[RL RU] RG]. set (rd := dlen B r) in *.
      assert (Hrd : rd <= dd).
      { destruct (Z.le_gt_cases rd dd); [assumption|].
        assert (B ^ dd <= B ^ (rd - 1)) by (apply Z.pow_le_mono_r; lia). lia. }
      assert (Hk : 0 <= dd + p - rd) by lia. cbv beta iota. split; [exact Hk|].
      set (sh := dd + p - rd) in *.
      destruct (quot_rem_scaled r s2 sh Hs Hk) as [RB' QR'].
      assert (Es : s1 * B ^ sh = Z.quot (r * B ^ sh) s2 * s2 + Z.rem (r * B ^ sh) s2).
      { rewrite <- QR'. rewrite Hq0 in QR. rewrite QR. ring. }
      destruct (Z.eqb_spec (Z.rem (r * B ^ sh) s2) 0) as [Hz|Hz].
      * eexists. split; [reflexivity|]. cbn [approx_exp approx_sig]. split; [lia|]. split; [apply Hexact; lia | lia].
      * eexists. split; [reflexivity|]. cbn [approx_exp approx_sig]. split; [lia|].
        destruct (Hinexact _ _ _ Es Hz RB') as [H1 H2]. split; assumption.
    + destruct (Z.ltb_spec (dlen B q + dd) (dd + p)) as [Hlt|Hge].
      * assert (Hk : 0 <= dd + p - (dlen B q + dd)) by lia. cbv beta iota. split; [exact Hk|].
        set (sh := dd + p - (dlen B q + dd)) in *.
        destruct (quot_rem_scaled r s2 sh Hs Hk) as [RB' QR'].
        assert (Es : s1 * B ^ sh = (q * B ^ sh + Z.quot (r * B ^ sh) s2) * s2 + Z.rem (r * B ^ sh) s2).
        { rewrite QR. rewrite Z.mul_add_distr_r. rewrite QR' at 1. ring. }
        destruct (Z.eqb_spec (Z.rem (r * B ^ sh) s2) 0) as [Hz|Hz].
        -- eexists. split; [reflexivity|]. cbn [approx_exp approx_sig]. split; [lia|]. split; [apply Hexact; lia | lia].
        -- eexists. split; [reflexivity|]. cbn [approx_exp approx_sig]. split; [lia|].
           destruct (Hinexact _ _ _ Es Hz RB') as [H1 H2]. split; assumption.
      * cbv beta iota. split; [lia|]. destruct (Z.eqb_spec r 0); [contradiction|].
        eexists. split; [reflexivity|]. cbn [approx_exp approx_sig]. rewrite Z.pow_0_r, Z.mul_1_r. split; [lia|].
        assert (Es : s1 = q * s2 + r) by lia.
        destruct (Hinexact _ _ _ Es Hr0 RB) as [H1 H2]. split; assumption.
Qed.

(** "p or p+1 digits": at the scaling repr_div chooses, the exact quotient lies in [B^(p-1), B^(p+1)),
    so one unit of the returned exponent is at most one ulp at precision p (and the result has at
    most p+1 digits).  The upper bound needs the caller's precondition digits(lhs) <= p + digits(rhs). *)
Theorem repr_div_magnitude p s1 s2 : 1 <= p -> s2 <> 0 -> Z.rem s1 s2 <> 0 ->
  let k := repr_div_shift B p s1 s2 in
  (B ^ (p - 1) * Z.abs s2 <= Z.abs s1 * B ^ k) /\
  (dlen B s1 <= p + dlen B s2 -> Z.abs s1 * B ^ k < B ^ (p + 1) * Z.abs s2).
Proof.
  intros Hp Hs Hr. cbv zeta. unfold repr_div_shift.
  pose proof (Z.quot_rem' s1 s2) as QR. pose proof (Z.rem_bound_abs s1 s2 Hs) as RB.
  set (q := Z.quot s1 s2) in *. set (r := Z.rem s1 s2) in *.
  destruct (Z.eqb_spec r 0); [contradiction|].
  pose proof (dlen_spec s2 Hs) as [[DL DU] DG]. set (dd := dlen B s2) in *.
  assert (Hs1 : s1 <> 0) by (intros ->; unfold r in Hr; rewrite Z.rem_0_l in Hr by assumption; lia).
  pose proof (dlen_spec s1 Hs1) as [[SL SU] SG]. set (d1 := dlen B s1) in *.
  pose proof (Bpow_pos (p - 1) ltac:(lia)) as Pp1.
  destruct (Z.eqb_spec q 0) as [Hq0|Hq0].
  - assert (E : s1 = r) by (rewrite Hq0 in QR; lia). rewrite <- E in *. fold d1.
    assert (Hrd : d1 <= dd).
    { destruct (Z.le_gt_cases d1 dd); [assumption|].
      assert (B ^ dd <= B ^ (d1 - 1)) by (apply Z.pow_le_mono_r; lia). lia. }
    set (sh := dd + p - d1).
    pose proof (Bpow_pos sh ltac:(unfold sh; lia)) as Psh.
    split.
    + (* B^(p-1) |s2| < B^(p-1) B^dd = B^(d1-1) B^sh <= |s1| B^sh *)
      assert (B ^ (p - 1) * B ^ dd = B ^ (d1 - 1) * B ^ sh).
      { rewrite <- !Z.pow_add_r by (unfold sh; lia). f_equal. unfold sh. lia. }
      nia.
    + intros _.
      assert (B ^ d1 * B ^ sh = B ^ (p + 1) * B ^ (dd - 1)).
      { rewrite <- !Z.pow_add_r by (unfold sh; lia). f_equal. unfold sh. lia. }
      pose proof (Bpow_pos (p + 1) ltac:(lia)). nia.
  - pose proof (dlen_spec q Hq0) as [[QL QU] QG]. set (dq := dlen B q) in *.
    (* |s1| = |q| |s2| + |r|, same signs (truncation) *)
    assert (Habs : Z.abs s1 = Z.abs q * Z.abs s2 + Z.abs r).
    { pose proof (Z.quot_rem' (Z.abs s1) (Z.abs s2)) as E.
      rewrite Z.quot_abs, Z.rem_abs in E by assumption. fold q r in E. lia. }
    destruct (Z.ltb_spec (dq + dd) (dd + p)) as [Hlt|Hge].
    + set (sh := dd + p - (dq + dd)).
      pose proof (Bpow_pos sh ltac:(unfold sh; lia)) as Psh.
      assert (E1 : B ^ (dq - 1) * B ^ sh = B ^ (p - 1)) by (rewrite <- Z.pow_add_r by (unfold sh; lia); f_equal; unfold sh; lia).
      assert (E2 : B ^ dq * B ^ sh = B ^ p) by (rewrite <- Z.pow_add_r by (unfold sh; lia); f_equal; unfold sh; lia).
      split; [nia|]. intros _. replace (p + 1) with (Z.succ p) by lia. rewrite Z.pow_succ_r by lia.
      (* |s1| < (|q| + 1) |s2| <= B^dq |s2| *)
      assert (Z.abs s1 < (Z.abs q + 1) * Z.abs s2) by nia.
      assert (Hq1 : (Z.abs q + 1) * B ^ sh <= B ^ p) by nia.
      assert (Z.abs s1 * B ^ sh < (Z.abs q + 1) * B ^ sh * Z.abs s2) by nia.
      assert ((Z.abs q + 1) * B ^ sh * Z.abs s2 <= B ^ p * Z.abs s2) by (apply Z.mul_le_mono_nonneg_r; lia).
      assert (B ^ p * Z.abs s2 <= B * B ^ p * Z.abs s2) by nia.
      lia.
    + rewrite Z.pow_0_r, Z.mul_1_r. split.
      * assert (B ^ (p - 1) <= B ^ (dq - 1)) by (apply Z.pow_le_mono_r; lia). nia.
      * intros Hpre. fold d1 dd in Hpre.
        assert (B ^ d1 <= B ^ (p + dd)) by (apply Z.pow_le_mono_r; lia).
        assert (B ^ (p + dd) = B ^ (p + 1) * B ^ (dd - 1)) by (rewrite <- Z.pow_add_r by lia; f_equal; lia).
        pose proof (Bpow_pos (p + 1) ltac:(lia)). nia.
Qed.

Theorem repr_div_by_zero p m s1 e1 e2 : 1 <= p -> repr_div B p m s1 e1 0 e2 = Panic DivideBy0.
Proof. intros Hp. unfold repr_div. destruct (Z.eqb_spec p 0); [lia | reflexivity]. Qed.

End Proofs.
