(** C03: division.  [repr_div] returns the exact quotient, or the specification rounding of the
    exact quotient at a digit position keeping p or p+1 digits, with a truthful flag
    ([rounded_quot], the analogue of AddModelProof.rounded_sum), which is the documented contract
    clause by clause ([rounded_quot_contract]).  Context::div, Context::inv and the FBig operator
    bodies of [*] and [/] (all ownership forms, primitive operands, Context::max) reduce to
    ctx_mul / repr_div at p = max(p1, p2) for operands that fit. *)
From Dashu Require Import Base.Prelude Float.RoundSpec Float.RoundTablesProof Float.RoundSpecProof
  Float.Contract Float.Model Float.ModelProof Float.AddModel Float.DivMulModel.
From DashuGen Require Import RoundTables.
Open Scope Z_scope.

Section DivProofs.
Variable B : Z.
Hypothesis B_ge_2 : 2 <= B.

Local Notation Bpow_pos := (Bpow_pos B B_ge_2).

(* ------------------------------------------------------------------ shape of repr_div *)

(** repr_div = one truncated division of the scaled dividend, then round_ratio on the remainder *)
Lemma repr_div_shape p m s1 e1 s2 e2 : 1 <= p -> s2 <> 0 ->
  let k := repr_div_shift B p s1 s2 in
  0 <= k /\
  exists Q R e, e = e1 - e2 - k /\ s1 * B ^ k = Q * s2 + R /\ Z.abs R < Z.abs s2 /\
    repr_div B p m s1 e1 s2 e2 =
      Ok (if R =? 0 then AExact Q e else let a := round_ratio m Q R s2 in AInexact (Q + adj a) e a).
Proof.
  intros Hp Hs. cbv zeta. unfold repr_div, repr_div_shift.
  destruct (Z.eqb_spec p 0); [lia|]. destruct (Z.eqb_spec s2 0); [contradiction|].
  pose proof (Z.quot_rem' s1 s2) as QR. pose proof (Z.rem_bound_abs s1 s2 Hs) as RB.
  set (q := Z.quot s1 s2) in *. set (r := Z.rem s1 s2) in *.
  destruct (Z.eqb_spec r 0) as [Hr0|Hr0].
  - split; [lia|]. exists q, 0, (e1 - e2). rewrite Z.pow_0_r. cbn [Z.eqb].
    split; [lia|]. split; [lia|]. split; [lia|]. reflexivity.
  - set (dd := dlen B s2).
    destruct (Z.eqb_spec q 0) as [Hq0|Hq0].
    + pose proof (dlen_spec B B_ge_2 s2 Hs) as [[DL DU] DG]. fold dd in DL, DU, DG.
      pose proof (dlen_spec B B_ge_2 r Hr0) as [[RL RU] RG]. set (rd := dlen B r) in *.
      assert (Hrd : rd <= dd).
      { destruct (Z.le_gt_cases rd dd); [assumption|].
        assert (B ^ dd <= B ^ (rd - 1)) by (apply Z.pow_le_mono_r; lia). lia. }
      set (sh := dd + p - rd) in *. assert (Hk : 0 <= sh) by (unfold sh; lia).
      split; [exact Hk|].
      destruct (quot_rem_scaled B B_ge_2 r s2 sh Hs Hk) as [RB' QR'].
      exists (Z.quot (r * B ^ sh) s2), (Z.rem (r * B ^ sh) s2), (e1 - e2 - sh).
      split; [reflexivity|]. split.
      { rewrite <- QR'. rewrite Hq0 in QR. rewrite QR. ring. }
      split; [exact RB'|].
      destruct (Z.eqb_spec (Z.rem (r * B ^ sh) s2) 0); reflexivity.
    + destruct (Z.ltb_spec (dlen B q + dd) (dd + p)) as [Hlt|Hge].
      * set (sh := dd + p - (dlen B q + dd)) in *. assert (Hk : 0 <= sh) by (unfold sh; lia).
        split; [exact Hk|].
        destruct (quot_rem_scaled B B_ge_2 r s2 sh Hs Hk) as [RB' QR'].
        exists (q * B ^ sh + Z.quot (r * B ^ sh) s2), (Z.rem (r * B ^ sh) s2), (e1 - e2 - sh).
        split; [reflexivity|]. split.
        { rewrite QR. rewrite Z.mul_add_distr_r. rewrite QR' at 1. ring. }
        split; [exact RB'|].
        destruct (Z.eqb_spec (Z.rem (r * B ^ sh) s2) 0); reflexivity.
      * split; [lia|]. exists q, r, (e1 - e2). rewrite Z.pow_0_r.
        split; [lia|]. split; [lia|]. split; [exact RB|].
        destruct (Z.eqb_spec r 0); [contradiction | reflexivity].
Qed.

(* ------------------------------------------------------------------ rounded_quot *)

(** what a correct quotient is.  The exact value is N / D with D > 0, in units of the returned
    exponent; [a] is exact, or the specification rounding with a truthful flag and N / D within
    [B^(p-1), B^(p+1)) (p or p+1 significant digits kept) *)
Definition rounded_quot (p : Z) (m : mode) (N D : Z) (a : approx) : Prop :=
  match a with
  | AExact q _ => q * D = N
  | AInexact r _ f =>
      N mod D <> 0 /\ r = spec_round m N D /\
      (f = AddOne -> N < r * D) /\ (f = SubOne -> r * D < N) /\
      B ^ (p - 1) * D <= Z.abs N < B ^ (p + 1) * D
  end.

Lemma sgn_mul_abs s x : s <> 0 -> Z.sgn s * (x * s) = x * Z.abs s.
Proof.
  intros Hs. destruct (Z.lt_trichotomy s 0) as [H|[H|H]];
    [rewrite Z.sgn_neg, Z.abs_neq by lia | lia | rewrite Z.sgn_pos, Z.abs_eq by lia]; ring.
Qed.

Lemma abs_sgn_mul s x : s <> 0 -> Z.abs (Z.sgn s * x) = Z.abs x.
Proof.
  intros Hs. destruct (Z.lt_trichotomy s 0) as [H|[H|H]];
    [rewrite Z.sgn_neg by lia | lia | rewrite Z.sgn_pos by lia]; lia.
Qed.

Lemma mod_nonzero_of_small Q n D : 0 < D -> n <> 0 -> Z.abs n < D -> (Q * D + n) mod D <> 0.
Proof.
  intros HD Hn Hb Hm. rewrite Z.add_comm, Z_mod_plus_full in Hm.
  apply Z.mod_divide in Hm; [|lia]. destruct Hm as [c Hc].
  assert (c <> 0) by (intros ->; lia). nia.
Qed.

(** the main theorem for division: under the caller's precondition digits(lhs) <= p + digits(rhs)
    (true whenever lhs fits p) *)
Theorem repr_div_rounded p m s1 e1 s2 e2 : 1 <= p -> s2 <> 0 -> dlen B s1 <= p + dlen B s2 ->
  let k := repr_div_shift B p s1 s2 in
  0 <= k /\
  exists a, repr_div B p m s1 e1 s2 e2 = Ok a /\ approx_exp a = e1 - e2 - k /\
    rounded_quot p m (Z.sgn s2 * (s1 * B ^ k)) (Z.abs s2) a.
Proof.
  intros Hp Hs Hpre k.
  destruct (repr_div_shape p m s1 e1 s2 e2 Hp Hs) as (Hk & Q & R & e & He & EQ & RB & E). fold k in Hk, He, EQ.
  split; [exact Hk|].
  assert (HD : 0 < Z.abs s2) by lia.
  assert (EN : Z.sgn s2 * (s1 * B ^ k) = Q * Z.abs s2 + Z.sgn s2 * R).
  { rewrite EQ, Z.mul_add_distr_l, sgn_mul_abs by exact Hs. reflexivity. }
  destruct (Z.eqb_spec R 0) as [HR|HR].
  - eexists. split; [exact E|]. cbn [approx_exp rounded_quot]. split; [exact He|].
    rewrite EN, HR. ring.
  - eexists. split; [exact E|]. cbv zeta. cbn [approx_exp rounded_quot]. split; [exact He|].
    set (n := Z.sgn s2 * R) in *.
    assert (Hn : n <> 0) by (unfold n; pose proof (abs_sgn_mul s2 R Hs); lia).
    assert (Hnb : Z.abs n < Z.abs s2) by (unfold n; rewrite abs_sgn_mul by exact Hs; exact RB).
    assert (Hr : Q + adj (round_ratio m Q R s2) = spec_round m (Z.sgn s2 * (s1 * B ^ k)) (Z.abs s2)).
    { rewrite EQ. apply round_ratio_spec; [exact Hs | exact RB]. }
    split. { rewrite EN. apply mod_nonzero_of_small; assumption. }
    split; [exact Hr|].
    split. { intros Hf. rewrite Hf. cbn [adj]. rewrite EN. nia. }
    split. { intros Hf. rewrite Hf. cbn [adj]. rewrite EN. nia. }
    (* the window: repr_div_magnitude needs rem s1 s2 <> 0 *)
    assert (Hrem : Z.rem s1 s2 <> 0).
    { intros Hz. unfold k, repr_div_shift in EQ. rewrite Hz in EQ. cbn [Z.eqb] in EQ.
      rewrite Z.pow_0_r, Z.mul_1_r in EQ. pose proof (Z.quot_rem' s1 s2) as QR. rewrite Hz in QR.
      assert (R = (Z.quot s1 s2 - Q) * s2) by lia.
      assert (Z.quot s1 s2 - Q <> 0) by (intros Z0; rewrite Z0 in *; lia). nia. }
    pose proof (repr_div_magnitude B B_ge_2 p s1 s2 Hp Hs Hrem) as [ML MU]. cbv zeta in ML, MU. fold k in ML, MU.
    specialize (MU Hpre).
    rewrite abs_sgn_mul by exact Hs. rewrite Z.abs_mul, (Z.abs_eq (B ^ k)) by (pose proof (Bpow_pos k Hk); lia).
    lia.
Qed.

(** x = N / D (in units of the result's last digit) is a p-digit float t * B^j, j of either sign *)
Definition representable_q (p N D : Z) : Prop :=
  exists t j, Z.abs t < B ^ p /\ ((0 <= j /\ N = t * B ^ j * D) \/ (j < 0 /\ N * B ^ (- j) = t * D)).

(** [rounded_quot] is the documented contract, clause by clause (cross-multiplied by D > 0) *)
Theorem rounded_quot_contract p m N D a : 1 <= p -> 0 < D -> rounded_quot p m N D a ->
  match a with
  | AExact q _ => q * D = N /\ N mod D = 0              (* flagged Exact only when exact *)
  | AInexact r _ f =>
      r * D <> N /\ N mod D <> 0 /\                       (* flagged Inexact only when inexact *)
      Z.abs (r * D - N) < D /\                            (* error below one unit of the last kept digit ... *)
      B ^ (p - 1) * D <= Z.abs N /\                       (* ... and that unit is at most one ulp at precision p *)
      (is_half_mode m = true -> 2 * Z.abs (r * D - N) <= D) /\
      side_ok m N D r /\                                  (* directed modes land on the prescribed side *)
      (f = AddOne -> N < r * D) /\ (f = SubOne -> r * D < N) /\
      Z.abs r <= B ^ (p + 1) /\                           (* at most p+1 digits (or the power itself) *)
      ~ representable_q p N D                             (* a representable quotient is never flagged Inexact *)
  end.
Proof.
  intros Hp HD H. destruct a as [q e|r e f]; cbn [rounded_quot] in H.
  - split; [exact H|]. rewrite <- H. apply Z.mod_mul. lia.
  - destruct H as (Hm & Hr & Hf1 & Hf2 & HwL & HwU).
    pose proof (spec_round_error m N D HD) as [E1 E2]. cbv zeta in E1, E2. rewrite <- Hr in E1, E2.
    pose proof (spec_round_side m N D HD) as Hside. rewrite <- Hr in Hside.
    pose proof (Bpow_pos (p - 1) ltac:(lia)) as HP1. pose proof (Bpow_pos (p + 1) ltac:(lia)) as HP2.
    split. { intros Heq. apply Hm. rewrite <- Heq. apply Z.mod_mul. lia. }
    split; [exact Hm|]. split; [exact E1|]. split; [exact HwL|]. split; [exact E2|]. split; [exact Hside|].
    split; [exact Hf1|]. split; [exact Hf2|]. split.
    { destruct (Z.le_gt_cases (Z.abs r) (B ^ (p + 1))) as [Hle|Hgt]; [exact Hle|]. exfalso.
      assert ((B ^ (p + 1) + 1) * D <= Z.abs r * D) by nia.
      assert (Z.abs (r * D) = Z.abs r * D) by (rewrite Z.abs_mul, (Z.abs_eq D); lia). lia. }
    intros (t & j & Ht & [[Hj Et]|[Hj Et]]).
    + apply Hm. rewrite Et. apply Z.mod_mul. lia.
    + (* B^(p-1) D B^(-j) <= |N| B^(-j) = |t| D < B^p D,  -j >= 1 *)
      pose proof (Bpow_pos (- j) ltac:(lia)) as HPj.
      assert (HA : Z.abs N * B ^ (- j) = Z.abs t * D).
      { rewrite <- (Z.abs_eq (B ^ (- j))) at 1 by lia. rewrite <- Z.abs_mul, Et, Z.abs_mul, (Z.abs_eq D) by lia. reflexivity. }
      assert (B ^ p <= B ^ (p - 1) * B ^ (- j)).
      { rewrite <- Z.pow_add_r by lia. apply Z.pow_le_mono_r; lia. }
      assert (B ^ (p - 1) * D * B ^ (- j) <= Z.abs N * B ^ (- j)) by (apply Z.mul_le_mono_nonneg_r; lia).
      nia.
Qed.

(* ------------------------------------------------------------------ Context::div / Context::inv *)
Variable digits_ub digits_lb : Z -> Z.

(** a dividend that satisfies repr_div's precondition is never changed by the pre-shrinking,
    whatever the estimates answer *)
Theorem ctx_div_eq p m s1 e1 s2 e2 : dlen B s1 <= p + dlen B s2 ->
  ctx_div B digits_ub digits_lb p m s1 e1 s2 e2 = repr_div B p m s1 e1 s2 e2.
Proof.
  intros Hpre. unfold ctx_div.
  destruct (negb (s1 =? 0) && (digits_ub s1 >? digits_lb s2 + p)); [|reflexivity].
  rewrite (repr_round_exact B) by lia. reflexivity.
Qed.

(** with sound estimates the unshrunk dividend meets repr_div's precondition (its debug assertion) *)
Lemma ctx_div_precondition p s1 s2 :
  (forall s, dlen B s <= digits_ub s) -> (forall s, digits_lb s <= dlen B s) ->
  (negb (s1 =? 0) && (digits_ub s1 >? digits_lb s2 + p)) = false -> dlen B s1 <= p + dlen B s2 \/ s1 = 0.
Proof.
  intros Hub Hlb H. destruct (Z.eqb_spec s1 0) as [|Hne]; [right; assumption|]. left.
  cbn [negb andb] in H. destruct (Z.gtb_spec (digits_ub s1) (digits_lb s2 + p)); [discriminate|].
  specialize (Hub s1). specialize (Hlb s2). lia.
Qed.

Lemma dlen_one : dlen B 1 = 1.
Proof. apply (dlen_unique B B_ge_2); [lia|]. rewrite Z.sub_diag, Z.pow_0_r, Z.pow_1_r. cbn. lia. Qed.

Theorem ctx_div_rounded p m s1 e1 s2 e2 : 1 <= p -> s2 <> 0 -> dlen B s1 <= p ->
  let k := repr_div_shift B p s1 s2 in
  0 <= k /\
  exists a, ctx_div B digits_ub digits_lb p m s1 e1 s2 e2 = Ok a /\ approx_exp a = e1 - e2 - k /\
    rounded_quot p m (Z.sgn s2 * (s1 * B ^ k)) (Z.abs s2) a.
Proof.
  intros Hp Hs Hfit. pose proof (dlen_nonneg B B_ge_2 s2).
  rewrite ctx_div_eq by lia. apply repr_div_rounded; [assumption..|lia].
Qed.

Theorem ctx_inv_rounded p m s e : 1 <= p -> s <> 0 ->
  let k := repr_div_shift B p 1 s in
  0 <= k /\
  exists a, ctx_inv B p m s e = Ok a /\ approx_exp a = 0 - e - k /\
    rounded_quot p m (Z.sgn s * (1 * B ^ k)) (Z.abs s) a.
Proof.
  intros Hp Hs. unfold ctx_inv. pose proof (dlen_nonneg B B_ge_2 s).
  apply repr_div_rounded; [assumption..|]. rewrite dlen_one. lia.
Qed.

Theorem ctx_div_panics p m s1 e1 s2 e2 :
  (p = 0 -> ctx_div B digits_ub digits_lb p m s1 e1 s2 e2 = Panic UnlimitedPrecision) /\
  (1 <= p -> ctx_div B digits_ub digits_lb p m s1 e1 0 e2 = Panic DivideBy0) /\
  (p = 0 -> ctx_inv B p m s1 e1 = Panic UnlimitedPrecision) /\
  (1 <= p -> ctx_inv B p m 0 e1 = Panic DivideBy0).
Proof.
  unfold ctx_div, ctx_inv. repeat split.
  - intros ->. destruct (negb (s1 =? 0) && _); [destruct (approx_val _)|]; reflexivity.
  - intros Hp. destruct (negb (s1 =? 0) && _); [destruct (approx_val _) as [a b]|];
      unfold repr_div; destruct (Z.eqb_spec p 0); try lia; reflexivity.
  - intros ->. reflexivity.
  - intros Hp. unfold repr_div. destruct (Z.eqb_spec p 0); [lia | reflexivity].
Qed.

(* ------------------------------------------------------------------ operator bodies *)

(** FBig * FBig in each of the four ownership forms = Context::mul at Context::max *)
Theorem fbig_mul_forms p1 p2 m s1 e1 s2 e2 :
  let p := ctx_max p1 p2 in 1 <= p -> dlen B s1 <= p -> dlen B s2 <= p ->
  mul_val_val B p1 p2 m s1 e1 s2 e2 = approx_val (ctx_mul B p m s1 e1 s2 e2) /\
  mul_val_ref B p1 p2 m s1 e1 s2 e2 = approx_val (ctx_mul B p m s1 e1 s2 e2) /\
  mul_ref_val B p1 p2 m s1 e1 s2 e2 = approx_val (ctx_mul B p m s1 e1 s2 e2) /\
  mul_ref_ref B p1 p2 m s1 e1 s2 e2 = approx_val (ctx_mul B p m s1 e1 s2 e2).
Proof.
  intros p Hp H1 H2. unfold mul_val_val, mul_val_ref, mul_ref_val, mul_ref_ref, fbig_mul. fold p.
  rewrite (ctx_mul_spec B p m s1 e1 s2 e2 Hp H1 H2).
  destruct (normalize B (s1 * s2) (e1 + e2)) as [s e]. repeat split.
Qed.

(** FBig / FBig in each of the four ownership forms = Context::div (.value()) at Context::max *)
Theorem fbig_div_forms p1 p2 m s1 e1 s2 e2 :
  let p := ctx_max p1 p2 in dlen B s1 <= p + dlen B s2 ->
  div_val_val B p1 p2 m s1 e1 s2 e2 = map_val (ctx_div B digits_ub digits_lb p m s1 e1 s2 e2) /\
  div_val_ref B p1 p2 m s1 e1 s2 e2 = map_val (ctx_div B digits_ub digits_lb p m s1 e1 s2 e2) /\
  div_ref_val B p1 p2 m s1 e1 s2 e2 = map_val (ctx_div B digits_ub digits_lb p m s1 e1 s2 e2) /\
  div_ref_ref B p1 p2 m s1 e1 s2 e2 = map_val (ctx_div B digits_ub digits_lb p m s1 e1 s2 e2).
Proof.
  intros p Hpre. unfold div_val_val, div_val_ref, div_ref_val, div_ref_ref, fbig_div. fold p.
  rewrite ctx_div_eq by exact Hpre. repeat split.
Qed.

Lemma ctx_max_spec p1 p2 : ctx_max p1 p2 = Z.max p1 p2.
Proof. unfold ctx_max. destruct (Z.gtb_spec p1 p2); lia. Qed.

(** digit length is monotone in the magnitude *)
Lemma dlen_mono a b : Z.abs a <= Z.abs b -> dlen B a <= dlen B b.
Proof.
  intros H. destruct (Z.eq_dec a 0) as [->|Ha]; [rewrite dlen_zero; apply (dlen_nonneg B B_ge_2)|].
  assert (Hb : b <> 0) by lia.
  destruct (dlen_spec B B_ge_2 a Ha) as [[La Ua] Ga]. destruct (dlen_spec B B_ge_2 b Hb) as [[Lb Ub] Gb].
  destruct (Z.le_gt_cases (dlen B a) (dlen B b)) as [|Hgt]; [assumption|].
  assert (B ^ dlen B b <= B ^ (dlen B a - 1)) by (apply Z.pow_le_mono_r; lia). lia.
Qed.

(** FBig::from(n): the converted operand fits the precision it is given *)
Lemma prim_fits n : let '(sn, en) := prim_repr B n in dlen B sn <= prim_prec B n /\ 1 <= prim_prec B n.
Proof.
  unfold prim_repr, prim_prec. pose proof (normalize_spec B B_ge_2 n 0) as H.
  destruct (normalize B n 0) as [sn en]. destruct H as [H0 H1]. split; [|lia].
  destruct (Z.eq_dec n 0) as [Hz|Hnz].
  - destruct (H0 Hz) as [-> _]. rewrite dlen_zero. lia.
  - destruct (H1 Hnz) as (_ & _ & k & Hk & _ & Ev).
    assert (dlen B sn <= dlen B n); [|lia]. apply dlen_mono. rewrite Ev, Z.abs_mul.
    pose proof (Bpow_pos k Hk). rewrite (Z.abs_eq (B ^ k)) by lia. nia.
Qed.

(** float (op) primitive and primitive (op) float: the primitive is converted first, then the
    FBig operator runs at the larger of the two precisions *)
Theorem prim_forms p m s e n : 1 <= p -> dlen B s <= p ->
  let '(sn, en) := prim_repr B n in
  let pm := ctx_max p (prim_prec B n) in
  pm = Z.max p (prim_prec B n) /\ ctx_max (prim_prec B n) p = pm /\
  mul_float_prim B p m s e n = approx_val (ctx_mul B pm m s e sn en) /\
  mul_prim_float B p m n s e = approx_val (ctx_mul B pm m sn en s e) /\
  div_float_prim B p m s e n = map_val (ctx_div B digits_ub digits_lb pm m s e sn en) /\
  div_prim_float B p m n s e = map_val (ctx_div B digits_ub digits_lb pm m sn en s e).
Proof.
  intros Hp Hs. pose proof (prim_fits n) as Hf. unfold mul_float_prim, mul_prim_float, div_float_prim, div_prim_float.
  destruct (prim_repr B n) as [sn en]. destruct Hf as [Hf1 Hf2]. cbv zeta.
  assert (Hc : ctx_max (prim_prec B n) p = ctx_max p (prim_prec B n)) by (rewrite !ctx_max_spec; lia).
  split; [apply ctx_max_spec|]. split; [exact Hc|].
  pose proof (ctx_max_spec p (prim_prec B n)) as Hm.
  pose proof (dlen_nonneg B B_ge_2 s). pose proof (dlen_nonneg B B_ge_2 sn).
  split; [apply fbig_mul_forms; cbv zeta; lia|].
  split; [rewrite <- Hc; apply fbig_mul_forms; cbv zeta; rewrite Hc; lia|].
  split; [apply fbig_div_forms; cbv zeta; lia|].
  rewrite <- Hc. apply fbig_div_forms. cbv zeta. rewrite Hc. lia.
Qed.

End DivProofs.
