(** Rounding an exact rational N/d (d > 0) to an integer under the six dashu modes: the
    mathematical specification shared by C03, C06, C08, C10.  Definitions only. *)
From Dashu Require Import Base.Prelude.
From DashuGen Require Import RoundTables.
Open Scope Z_scope.

Inductive mode := MZero | MAway | MUp | MDown | MHalfEven | MHalfAway.

Definition adj (r : rounding) : Z := match r with NoOp => 0 | AddOne => 1 | SubOne => -1 end.

(** the decision tables, regenerated from float/src/round.rs on every run *)
Definition round_low_part (m : mode) (i : Z) (ls : sign) (half : comparison) : rounding :=
  match m with
  | MZero => round_low_part_Zero_gen i ls half
  | MAway => round_low_part_Away_gen i ls half
  | MUp => round_low_part_Up_gen i ls half
  | MDown => round_low_part_Down_gen i ls half
  | MHalfEven => round_low_part_HalfEven_gen i ls half
  | MHalfAway => round_low_part_HalfAway_gen i ls half
  end.

(** N/d rounded to an integer, d > 0 *)
Definition spec_round (m : mode) (N d : Z) : Z :=
  match m with
  | MDown => N / d
  | MUp => - ((- N) / d)
  | MZero => Z.quot N d
  | MAway => if N mod d =? 0 then N / d else Z.quot N d + Z.sgn N
  | MHalfAway => Z.sgn N * ((2 * Z.abs N + d) / (2 * d))
  | MHalfEven =>
      let q := N / d in
      match 2 * (N mod d) ?= d with
      | Lt => q
      | Gt => q + 1
      | Eq => if Z.even q then q else q + 1
      end
  end.

(** the flag a correctly rounded result r of N/d must carry *)
Definition spec_flag (N d r : Z) : rounding :=
  match r * d ?= N with Eq => NoOp | Gt => AddOne | Lt => SubOne end.

Definition is_half_mode (m : mode) : bool := match m with MHalfEven | MHalfAway => true | _ => false end.

(** which side of the exact value a directed mode must land on *)
Definition side_ok (m : mode) (N d r : Z) : Prop :=
  match m with
  | MDown => r * d <= N
  | MUp => N <= r * d
  | MZero => Z.abs (r * d) <= Z.abs N
  | MAway => Z.abs N <= Z.abs (r * d)
  | MHalfEven | MHalfAway => True
  end.
