(** C03 round 4: float addition / subtraction after the repair of finding add_overlong_cancellation
    (FixModel.v, transcribed from the repaired float/src/add.rs).

    - [rrs_fix_correct]: the repaired repr_round_sum returns the rounding of the exact value for EVERY
      significand and low part (the class rrs_short of round 3 is gone); the loop never runs out of fuel;
    - [rrs_fix_eq_old]: outside the class it computes exactly what the code computed before the repair, so
      every theorem about the old model carries over (in particular: operands that fit, effective additions);
    - [ctx_add_fix_correct] / [ctx_sub_fix_correct]: Context::add / sub meet [rounded_sum] (the documented
      contract) for operands of ANY length, every sound digit estimate - no exception left. *)
From Dashu Require Import Base.Prelude Float.RoundSpec Float.RoundTablesProof Float.RoundSpecProof
  Float.Contract Float.Model Float.ModelProof Float.AddModel Float.AddModelProof Float.DivMulModel Float.LongModel
  Float.AddLongProof Float.FixModel.
From DashuGen Require Import RoundTables.
From Coq Require Import ZifyBool.
Open Scope Z_scope.

(** the arithmetic core of the break test, on magnitudes: Q = B^(p-1), P = B^k, a = |sig|, c = |low| *)
Lemma head_core_same Q P a c : 0 < P -> 0 <= a -> 0 < c < P -> (Q <= a <-> Q * P <= a * P + c).
Proof.
  intros HP Ha Hc. split; intros H.
  - assert (Q * P <= a * P) by (apply Z.mul_le_mono_nonneg_r; lia). lia.
  - destruct (Z.le_gt_cases Q a) as [|G]; [assumption|exfalso].
    assert ((a + 1) * P <= Q * P) by (apply Z.mul_le_mono_nonneg_r; lia). lia.
Qed.
Lemma head_core_opp Q P a c : 0 < P -> 1 <= a -> 0 < c < P -> (Q <= a - 1 <-> Q * P <= a * P - c).
Proof.
  intros HP Ha Hc. split; intros H.
  - assert (Q * P <= (a - 1) * P) by (apply Z.mul_le_mono_nonneg_r; lia). lia.
  - destruct (Z.le_gt_cases Q (a - 1)) as [|G]; [assumption|exfalso].
    assert (a * P <= Q * P) by (apply Z.mul_le_mono_nonneg_r; lia). lia.
Qed.

Section FixAdd.
Variable B : Z.
Hypothesis B_ge_2 : 2 <= B.
Local Notation Bpos := (Bpow_pos B B_ge_2).

Lemma dlen_le_of_lt x n : 0 <= n -> Z.abs x < B ^ n -> dlen B x <= n.
Proof.
  intros Hn Hx. destruct (Z.eq_dec x 0) as [->|Hz]; [rewrite dlen_zero; lia|].
  destruct (dlen_spec B B_ge_2 x Hz) as [[L _] G].
  destruct (Z.le_gt_cases (dlen B x) n) as [|Hgt]; [assumption|exfalso].
  assert (B ^ n <= B ^ (dlen B x - 1)) by (apply Z.pow_le_mono_r; lia). lia.
Qed.

Lemma dlen_ge_iff p x : 1 <= p -> (p <= dlen B x <-> B ^ (p - 1) <= Z.abs x).
Proof.
  intros Hp. pose proof (Bpos (p - 1) ltac:(lia)) as HQ. split; intros H.
  - destruct (Z.eq_dec x 0) as [->|Hz]; [rewrite dlen_zero in H; lia|].
    destruct (dlen_spec B B_ge_2 x Hz) as [[L _] G].
    eapply Z.le_trans; [|exact L]. apply Z.pow_le_mono_r; lia.
  - assert (Hz : x <> 0) by lia.
    destruct (dlen_spec B B_ge_2 x Hz) as [[_ U] G].
    destruct (Z.le_gt_cases p (dlen B x)) as [|Hgt]; [assumption|exfalso].
    assert (B ^ dlen B x <= B ^ (p - 1)) by (apply Z.pow_le_mono_r; lia). lia.
Qed.

(** the break test of the repaired loop says exactly: the value has p digits above the rounding position *)
Lemma head_ok_spec p s l k : 1 <= p -> 0 <= k -> l <> 0 -> Z.abs l < B ^ k ->
  (head_ok B p s l = true <-> B ^ (p - 1 + k) <= Z.abs (s * B ^ k + l)).
Proof.
  intros Hp Hk Hl Hb. unfold head_ok. rewrite Z.pow_add_r by lia.
  pose proof (Bpos k Hk) as HP. pose proof (Bpos (p - 1) ltac:(lia)) as HQ.
  rewrite Bool.andb_true_iff, !Z.geb_le, !(dlen_ge_iff p) by exact Hp.
  set (P := B ^ k) in *. set (Q := B ^ (p - 1)) in *.
  destruct (Z.lt_trichotomy s 0) as [Hs|[Hs|Hs]]; destruct (Z.lt_trichotomy l 0) as [Hl'|[Hl'|Hl']]; try contradiction.
  - (* s < 0, l < 0 *)
    rewrite Z.sgn_neg by lia.
    assert (s * P <= 0) by (apply Z.mul_nonpos_nonneg; lia).
    rewrite (Z.abs_neq s), (Z.abs_neq (s + -1)), (Z.abs_neq (s * P + l)) by lia.
    pose proof (head_core_same Q P (- s) (- l) HP ltac:(lia) ltac:(lia)) as C.
    replace (- s * P + - l) with (- (s * P + l)) in C by ring. split; [intros [A _]; apply C; exact A | intros A; apply C in A; lia].
  - (* s < 0, l > 0 *)
    rewrite Z.sgn_pos by lia.
    assert (s * P <= - P) by (assert (- s * P >= 1 * P) by (apply Z.le_ge, Z.mul_le_mono_nonneg_r; lia); lia).
    rewrite (Z.abs_neq s), (Z.abs_neq (s + 1)), (Z.abs_neq (s * P + l)) by lia.
    pose proof (head_core_opp Q P (- s) l HP ltac:(lia) ltac:(lia)) as C.
    replace (- s * P - l) with (- (s * P + l)) in C by ring.
    split; [intros [_ A]; apply C; lia | intros A; apply C in A; lia].
  - (* s = 0 *) subst s. rewrite Z.mul_0_l, !Z.add_0_l, Z.abs_0. split; [lia|]. intros A. exfalso.
    assert (1 * P <= Q * P) by (apply Z.mul_le_mono_nonneg_r; lia). lia.
  - subst s. rewrite Z.mul_0_l, !Z.add_0_l, Z.abs_0. split; [lia|]. intros A. exfalso.
    assert (1 * P <= Q * P) by (apply Z.mul_le_mono_nonneg_r; lia). lia.
  - (* s > 0, l < 0 *)
    rewrite Z.sgn_neg by lia.
    assert (P <= s * P) by (assert (1 * P <= s * P) by (apply Z.mul_le_mono_nonneg_r; lia); lia).
    rewrite (Z.abs_eq s), (Z.abs_eq (s + -1)), (Z.abs_eq (s * P + l)) by lia.
    pose proof (head_core_opp Q P s (- l) HP ltac:(lia) ltac:(lia)) as C.
    replace (s * P - - l) with (s * P + l) in C by ring.
    split; [intros [_ A]; apply C; lia | intros A; apply C in A; lia].
  - (* s > 0, l > 0 *)
    rewrite Z.sgn_pos by lia.
    assert (0 <= s * P) by (apply Z.mul_nonneg_nonneg; lia).
    rewrite (Z.abs_eq s), (Z.abs_eq (s + 1)), (Z.abs_eq (s * P + l)) by lia.
    pose proof (head_core_same Q P s l HP ltac:(lia) ltac:(lia)) as C.
    split; [intros [A _]; apply C; exact A | intros A; apply C in A; lia].
Qed.

(** the window at a significand of exactly rp digits *)
Lemma window_rp p rp s l k : 1 <= p -> p <= rp <= p + 1 -> dlen B s = rp -> 0 <= k -> Z.abs l < B ^ k ->
  (rp = p -> 0 <= s * l) ->
  B ^ (p - 1 + k) <= Z.abs (s * B ^ k + l) < B ^ (p + 1 + k).
Proof.
  intros Hp Hrp Hd Hk Hl Hsame.
  assert (Hs : s <> 0) by (intros ->; rewrite dlen_zero in Hd; lia).
  pose proof (upper_window B B_ge_2 s l k Hk Hl) as U. rewrite Hd in U.
  split; [|eapply Z.lt_le_trans; [exact U|]; apply (pow_mono_le B B_ge_2); lia].
  destruct (Z.eq_dec rp p) as [E|E].
  - pose proof (window_same B B_ge_2 s l k Hs Hk Hl (Hsame E)) as [L _]. rewrite Hd, E in L. exact L.
  - pose proof (window_opp B B_ge_2 s l k Hs Hk Hl ltac:(left; lia)) as [L _]. rewrite Hd in L.
    eapply Z.le_trans; [|exact L]. apply (pow_mono_le B B_ge_2); lia.
Qed.

(** one expansion step: the value and the rounding position are kept, the low-part precision decreases *)
Lemma expand_step_spec rp sig e low lp :
  dlen B sig < rp -> 0 <= lp -> Z.abs low < B ^ lp -> low <> 0 ->
  let '(sig', e', low', lp') := expand_step B rp sig e low lp (dlen B sig) in
  0 <= lp' < lp /\ Z.abs low' < B ^ lp' /\ sig * B ^ lp + low = sig' * B ^ lp' + low' /\
  e' - lp' = e - lp /\ dlen B sig' <= rp /\ (0 <= sig * low -> 0 <= sig' * low').
Proof.
  intros Hd Hlp Hlow Hnz. unfold expand_step. set (d := dlen B sig) in *.
  pose proof (dlen_nonneg B B_ge_2 sig) as Hd0. fold d in Hd0.
  assert (Hlp1 : 1 <= lp).
  { destruct (Z.eq_dec lp 0) as [->|]; [rewrite Z.pow_0_r in Hlow; lia | lia]. }
  set (shift := Z.min lp (rp - d)). assert (Hsh : 1 <= shift <= lp) by (unfold shift; lia).
  assert (Hsh2 : shift <= rp - d) by (unfold shift; lia).
  pose proof (split_digits_spec B B_ge_2 low (lp - shift) ltac:(lia)) as SP.
  destruct (split_digits B low (lp - shift)) as [pad low'] eqn:Esp.
  destruct SP as (E1 & Hl' & Hs1 & Hs2). unfold shl_digits.
  pose proof (Bpos shift ltac:(lia)) as HPs. pose proof (Bpos (lp - shift) ltac:(lia)) as HPr.
  assert (EP : B ^ lp = B ^ shift * B ^ (lp - shift)).
  { rewrite <- Z.pow_add_r by lia. f_equal. lia. }
  set (Ps := B ^ shift) in *. set (Pr := B ^ (lp - shift)) in *.
  (* the pad is below B^shift *)
  assert (Hpad : Z.abs pad < Ps).
  { destruct (Z.le_gt_cases Ps (Z.abs pad)) as [G|]; [exfalso|assumption].
    assert (Ps * Pr <= Z.abs pad * Pr) by (apply Z.mul_le_mono_nonneg_r; lia).
    assert (Z.abs low = Z.abs pad * Pr + Z.abs low').
    { clear - E1 Hs1 Hs2 HPr Hnz.
      destruct (Z.lt_trichotomy low 0) as [Hn|[Hz|Hpos]]; [|contradiction|].
      - assert (low' <= 0) by nia. assert (pad <= 0) by nia.
        rewrite (Z.abs_neq low), (Z.abs_neq pad), (Z.abs_neq low') by lia. rewrite E1 at 1. ring.
      - assert (0 <= low') by nia. assert (0 <= pad) by nia.
        rewrite (Z.abs_eq low), (Z.abs_eq pad), (Z.abs_eq low') by lia. rewrite E1 at 1. ring. }
    lia. }
  split; [lia|]. split; [exact Hl'|].
  split. { rewrite E1, EP. ring. }
  split; [lia|].
  split.
  { pose proof (upper_window B B_ge_2 sig pad shift ltac:(lia) Hpad) as U. fold d in U.
    eapply Z.le_trans; [apply dlen_le_of_lt; [|exact U]; lia|]. lia. }
  intros Hsame. clear - Hsame Hs1 Hs2 Hnz HPs.
  destruct (Z.lt_trichotomy low 0) as [Hn|[Hz|Hpos]]; [|contradiction|].
  - assert (sig <= 0) by nia. assert (low' <= 0) by nia. assert (pad <= 0) by nia.
    assert (sig * Ps <= 0) by (apply Z.mul_nonpos_nonneg; lia).
    apply Z.mul_nonpos_nonpos; lia.
  - assert (0 <= sig) by nia. assert (0 <= low') by nia. assert (0 <= pad) by nia.
    assert (0 <= sig * Ps) by (apply Z.mul_nonneg_nonneg; lia).
    apply Z.mul_nonneg_nonneg; lia.
Qed.

(** the loop: with more fuel than the low part has digits it ends, keeps the value, and leaves either no low
    part or p .. p+1 digits above the rounding position *)
Lemma expand_loop_spec fuel : forall p rp sig e low lp,
  1 <= p -> p <= rp <= p + 1 -> dlen B sig <= rp -> 0 <= lp -> Z.abs low < B ^ lp -> lp < Z.of_nat fuel ->
  (rp = p -> 0 <= sig * low) ->
  exists s e' l k, expand_loop B fuel p rp sig e low lp (dlen B sig) = Some (s, e', l, k) /\
    0 <= k /\ Z.abs l < B ^ k /\ sig * B ^ lp + low = s * B ^ k + l /\ e' - k = e - lp /\
    (l <> 0 -> B ^ (p - 1 + k) <= Z.abs (s * B ^ k + l) < B ^ (p + 1 + k)).
Proof.
  induction fuel as [|f IH]; intros p rp sig e low lp Hp Hrp Hd Hlp Hlow Hf Hsame; [lia|].
  cbn [expand_loop].
  destruct (Z.ltb_spec (dlen B sig) rp) as [Hlt|Hge]; [destruct (Z.eqb_spec low 0) as [Hz|Hnz]|]; cbn [negb andb].
  - exists sig, e, low, lp. repeat split; try assumption; try lia; contradiction.
  - pose proof (expand_step_spec rp sig e low lp Hlt Hlp Hlow Hnz) as ST.
    destruct (expand_step B rp sig e low lp (dlen B sig)) as [[[sig' e'] low'] lp'].
    destruct ST as (Hlp' & Hl' & EV & Ee & Hd' & Hsg).
    destruct (head_ok B p sig' low') eqn:Hh.
    + exists sig', e', low', lp'. split; [reflexivity|]. split; [lia|]. split; [exact Hl'|]. split; [exact EV|].
      split; [exact Ee|]. intros Hnz'. split.
      * apply (head_ok_spec p sig' low' lp'); try assumption; lia.
      * pose proof (upper_window B B_ge_2 sig' low' lp' ltac:(lia) Hl') as U.
        eapply Z.lt_le_trans; [exact U|]. apply (pow_mono_le B B_ge_2); lia.
    + destruct (IH p rp sig' e' low' lp' Hp Hrp Hd' ltac:(lia) Hl' ltac:(lia) ltac:(intros E; apply Hsg, Hsame, E))
        as (s & e2 & l & k & E & Hk & Hl & EV2 & Ee2 & W).
      exists s, e2, l, k. split; [exact E|]. split; [exact Hk|]. split; [exact Hl|].
      split; [rewrite EV; exact EV2|]. split; [lia | exact W].
  - exists sig, e, low, lp. split; [reflexivity|]. split; [exact Hlp|]. split; [exact Hlow|]. split; [reflexivity|].
    split; [reflexivity|]. intros _. apply window_rp with (rp := rp); try assumption; lia.
Qed.

Lemma rrs_tail_f_eq m s e l k : rrs_tail_f B m s e l k = rrs_tail B m s e l k.
Proof. reflexivity. Qed.

(** in the two arms without a loop the repaired function is the old one *)
Lemma realign_fix_ge p rp sig e low lp : rp <= dlen B sig ->
  realign_fix B p rp sig e low lp = Some (realign B rp sig e low lp).
Proof.
  intros H. unfold realign_fix, realign.
  destruct (Z.compare_spec (dlen B sig) rp) as [E|E|E]; [reflexivity | lia |].
  destruct (split_digits B sig (dlen B sig - rp)). reflexivity.
Qed.

(** * the repaired repr_round_sum is correct for every input *)
Theorem rrs_fix_correct p m sig e low lp is_sub :
  1 <= p -> 0 <= lp -> Z.abs low < B ^ lp -> (is_sub = false -> 0 <= sig * low) ->
  exists a, repr_round_sum_fix B p m sig e low lp is_sub = Ok a /\
            rounded_sum B p m (sig * B ^ lp + low) (e - lp) a.
Proof.
  intros Hp Hlp Hlow Hsame. unfold repr_round_sum_fix.
  destruct (Z.eqb_spec p 0) as [|_]; [lia|].
  set (rp := p + b2z is_sub). assert (Hrp : p <= rp <= p + 1) by (unfold rp, b2z; destruct is_sub; lia).
  destruct (Z.le_gt_cases rp (dlen B sig)) as [Hge|Hlt].
  - (* no loop: the old function, which is outside the class here *)
    rewrite realign_fix_ge by exact Hge.
    assert (Hs : sig <> 0) by (intros ->; rewrite dlen_zero in Hge; lia).
    pose proof (rrs_short_false B B_ge_2 p sig low lp is_sub Hp Hlp Hlow Hs Hsame
                  ltac:(intros ->; unfold rp, b2z in Hge; lia)) as NS.
    pose proof (rrs_general B B_ge_2 p m sig e low lp is_sub Hp Hlp Hlow NS) as G.
    rewrite rrs_unfold in G. destruct (Z.eqb_spec p 0) as [|_]; [lia|]. fold rp in G.
    destruct (realign B rp sig e low lp) as [[[s e'] l] k]. eexists. split; [reflexivity|]. exact G.
  - unfold realign_fix. destruct (Z.compare_spec (dlen B sig) rp) as [E|_|E]; [lia| |lia].
    destruct (expand_loop_spec (Z.to_nat lp + 1) p rp sig e low lp Hp Hrp ltac:(lia) Hlp Hlow
                ltac:(rewrite Nat2Z.inj_add, Z2Nat.id by lia; cbn; lia)
                ltac:(intros E; apply Hsame; destruct is_sub; [unfold rp, b2z in E; lia | reflexivity]))
      as (s & e' & l & k & E & Hk & Hl & EV & Ee & W).
    rewrite E. eexists. split; [reflexivity|]. rewrite rrs_tail_f_eq.
    apply (tail_rounded B B_ge_2); try assumption; try lia.
Qed.

(** * outside the class of round 3 the repaired function computes what the old one computed *)
Theorem rrs_fix_eq_old p m sig e low lp is_sub :
  1 <= p -> 0 <= lp -> Z.abs low < B ^ lp ->
  rrs_short B p sig low lp is_sub = false ->
  repr_round_sum_fix B p m sig e low lp is_sub = Ok (repr_round_sum B p m sig e low lp is_sub).
Proof.
  intros Hp Hlp Hlow Hns. unfold repr_round_sum_fix. rewrite rrs_unfold.
  destruct (Z.eqb_spec p 0) as [|_]; [lia|].
  set (rp := p + b2z is_sub) in *.
  destruct (Z.le_gt_cases rp (dlen B sig)) as [Hge|Hlt].
  - rewrite realign_fix_ge by exact Hge. destruct (realign B rp sig e low lp) as [[[s e'] l] k]. reflexivity.
  - unfold rrs_short, realign_l in Hns. fold rp in Hns. revert Hns.
    unfold realign_fix, realign. destruct (Z.compare_spec (dlen B sig) rp) as [E|_|E]; [lia| |lia].
    replace (Z.to_nat lp + 1)%nat with (S (Z.to_nat lp)) by lia. cbn [expand_loop].
    destruct (Z.ltb_spec (dlen B sig) rp) as [_|]; [|lia].
    destruct (Z.eqb_spec low 0) as [Hz|Hnz]; cbn [negb andb]; [intros _; reflexivity|].
    pose proof (expand_step_spec rp sig e low lp Hlt Hlp Hlow Hnz) as ST.
    pose proof (expand_step_spec rp sig 0 low lp Hlt Hlp Hlow Hnz) as ST0.
    unfold expand_step in *.
    destruct (split_digits B low (lp - Z.min lp (rp - dlen B sig))) as [pad low'].
    destruct ST as (Hlp' & Hl' & EV & _). intros Hns.
    destruct (head_ok B p (shl_digits B sig (Z.min lp (rp - dlen B sig)) + pad) low') eqn:Hh; [reflexivity|].
    (* the test failed although the state is not short: the low part must be gone, the loop ends *)
    destruct (Z.eqb_spec low' 0) as [Hz'|Hnz'].
    + destruct (Z.to_nat lp); cbn [expand_loop]; rewrite Hz'; cbn [Z.eqb negb]; rewrite Bool.andb_false_r; reflexivity.
    + exfalso. cbn [negb andb] in Hns. apply Z.ltb_ge in Hns.
      apply (head_ok_spec p _ low' (lp - Z.min lp (rp - dlen B sig))) in Hns; try assumption; try lia.
Qed.

(* ------------------------------------------------------------------------------------------- *)
(** * the alignment branches *)

Definition add_core_fix (p : Z) (m : mode) (L R eL ediff : Z) (is_sub : bool) (rdu : Z) : result approx :=
  let rp := p + b2z is_sub in
  let ld := dlen B L in
  let lim := negb (p =? 0) in
  if lim && (rdu + 1 <? ediff) && (rdu + 1 + rp <? ld + ediff) then
    repr_round_sum_fix B p m L eL (Z.sgn R) (far_low_prec rp ld) is_sub
  else if lim && (ld >=? p) then
    let '(hi, lo) := split_digits B R ediff in
    repr_round_sum_fix B p m (L + hi) eL lo ediff is_sub
  else if lim && (ediff + ld >? p) then
    let lshift := p - ld in
    let rshift := ediff - lshift in
    let '(hi, lo) := split_digits B R rshift in
    repr_round_sum_fix B p m (L * B ^ lshift + hi) (eL - lshift) lo rshift is_sub
  else
    repr_round_sum_fix B p m (L * B ^ ediff + R) (eL - ediff) 0 0 is_sub.

(** the sign condition of [rrs_fix_correct] in the three aligned branches: an effective addition puts the
    low part on the side of the significand *)
Lemma aligned_same_sign L R hi lo P : 0 < L * R -> 0 <= R * lo -> 0 <= R * hi -> 0 < P -> 0 <= (L * P + hi) * lo.
Proof.
  intros H1 H2 H3 HP.
  destruct (Z.lt_trichotomy R 0) as [Hn|[Hz|Hpos]]; [|subst R; lia|].
  - assert (L < 0) by nia. assert (lo <= 0) by nia. assert (hi <= 0) by nia.
    assert (L * P <= 0) by (apply Z.mul_nonpos_nonneg; lia). apply Z.mul_nonpos_nonpos; lia.
  - assert (0 < L) by nia. assert (0 <= lo) by nia. assert (0 <= hi) by nia.
    assert (0 <= L * P) by (apply Z.mul_nonneg_nonneg; lia). apply Z.mul_nonneg_nonneg; lia.
Qed.

(** the stand-in of the far-apart branch never leaves the loop short (round 3's far-apart theorem applied to
    the stand-in itself) *)
Lemma far_not_short p L R is_sub :
  1 <= p -> L <> 0 -> R <> 0 -> (is_sub = false -> 0 < L * R) ->
  Z.abs (Z.sgn R) < B ^ far_low_prec (p + b2z is_sub) (dlen B L) /\ 2 <= far_low_prec (p + b2z is_sub) (dlen B L) /\
  rrs_short B p L (Z.sgn R) (far_low_prec (p + b2z is_sub) (dlen B L)) is_sub = false.
Proof.
  intros Hp HL HR Hsame.
  assert (Hflp : 2 <= far_low_prec (p + b2z is_sub) (dlen B L)) by (unfold far_low_prec; destruct (Z.geb_spec (dlen B L) (p + b2z is_sub)); lia).
  assert (Hflp2 : dlen B L < p + b2z is_sub -> far_low_prec (p + b2z is_sub) (dlen B L) + dlen B L - (p + b2z is_sub) = 2)
    by (unfold far_low_prec; destruct (Z.geb_spec (dlen B L) (p + b2z is_sub)); lia).
  remember (far_low_prec (p + b2z is_sub) (dlen B L)) as flp eqn:Ef.
  assert (Hsg : Z.sgn R = 1 \/ Z.sgn R = -1) by lia.
  assert (HB2 : 4 <= B ^ 2) by (rewrite Z.pow_2_r; nia).
  assert (HBf : B ^ 2 <= B ^ flp) by (apply Z.pow_le_mono_r; lia).
  assert (Hone : Z.abs (Z.sgn R) < B ^ flp) by lia.
  split; [exact Hone|]. split; [exact Hflp|].
  apply (rrs_short_of_rounded B B_ge_2 p MZero L 0 (Z.sgn R) flp is_sub Hp ltac:(lia) Hone).
  rewrite Ef.
  apply (rrs_far_long B B_ge_2 p MZero L 0 (Z.sgn R) (Z.sgn R) (far_low_prec (p + b2z is_sub) (dlen B L)) is_sub);
    try assumption; try lia; rewrite <- ?Ef.
  - intros _. lia.
  - intros Hlt. rewrite (Hflp2 Hlt). lia.
Qed.

Theorem add_core_fix_correct p m L R eL ediff is_sub rdu :
  1 <= p -> L <> 0 -> R <> 0 -> 1 <= ediff -> dlen B R <= rdu ->
  (is_sub = false -> 0 < L * R) -> (is_sub = true -> L * R < 0) ->
  exists a, add_core_fix p m L R eL ediff is_sub rdu = Ok a /\
            rounded_sum B p m (L * B ^ ediff + R) (eL - ediff) a.
Proof.
  intros Hp HL HR He Hrdu Hsame Hopp. unfold add_core_fix.
  destruct (Z.eqb_spec p 0) as [|_]; [lia|]. cbn [negb andb].
  set (rp := p + b2z is_sub). assert (Hrp : p <= rp <= p + 1) by (unfold rp, b2z; destruct is_sub; lia).
  destruct (dlen_spec B B_ge_2 L HL) as [[LL LU] Ld1]. destruct (dlen_spec B B_ge_2 R HR) as [[RL RU] Rd1].
  set (ld := dlen B L) in *. set (rd := dlen B R) in *.
  assert (Hrest : exists a,
    (if ld >=? p
     then let '(hi, lo) := split_digits B R ediff in repr_round_sum_fix B p m (L + hi) eL lo ediff is_sub
     else if ediff + ld >? p
       then let '(hi, lo) := split_digits B R (ediff - (p - ld)) in
            repr_round_sum_fix B p m (L * B ^ (p - ld) + hi) (eL - (p - ld)) lo (ediff - (p - ld)) is_sub
       else repr_round_sum_fix B p m (L * B ^ ediff + R) (eL - ediff) 0 0 is_sub) = Ok a /\
    rounded_sum B p m (L * B ^ ediff + R) (eL - ediff) a).
  { destruct (Z.geb_spec ld p) as [G|G].
    - pose proof (split_digits_spec B B_ge_2 R ediff ltac:(lia)) as SP.
      destruct (split_digits B R ediff) as [hi lo]. destruct SP as (E1 & Hlo & Hslo & Hshi).
      replace (L * B ^ ediff + R) with ((L + hi) * B ^ ediff + lo) by (rewrite E1; ring).
      apply rrs_fix_correct; try assumption; try lia.
      intros Hs. pose proof (aligned_same_sign L R hi lo 1 (Hsame Hs) Hslo Hshi ltac:(lia)) as A.
      rewrite Z.mul_1_r in A. exact A.
    - destruct (Z.gtb_spec (ediff + ld) p) as [G2|G2].
      + set (lshift := p - ld). set (rshift := ediff - lshift).
        assert (Hls : 1 <= lshift) by (unfold lshift; lia). assert (Hrs : 1 <= rshift) by (unfold rshift, lshift; lia).
        pose proof (split_digits_spec B B_ge_2 R rshift ltac:(lia)) as SP.
        destruct (split_digits B R rshift) as [hi lo]. destruct SP as (E1 & Hlo & Hslo & Hshi).
        replace (L * B ^ ediff + R) with ((L * B ^ lshift + hi) * B ^ rshift + lo).
        2:{ rewrite E1. replace ediff with (lshift + rshift) by (unfold rshift; lia).
            rewrite Z.pow_add_r by lia. ring. }
        replace (eL - ediff) with (eL - lshift - rshift) by (unfold rshift; lia).
        apply rrs_fix_correct; try assumption; try lia.
        intros Hs. apply (aligned_same_sign L R hi lo (B ^ lshift) (Hsame Hs) Hslo Hshi). apply Bpos. lia.
      + destruct (rrs_fix_correct p m (L * B ^ ediff + R) (eL - ediff) 0 0 is_sub Hp ltac:(lia)
                    ltac:(rewrite Z.pow_0_r; cbn; lia) ltac:(intros; lia)) as (a & Ea & Ga).
        exists a. split; [exact Ea|]. rewrite Z.pow_0_r, Z.mul_1_r, Z.add_0_r, Z.sub_0_r in Ga. exact Ga. }
  destruct (Z.ltb_spec (rdu + 1) ediff) as [F1|F1]; [destruct (Z.ltb_spec (rdu + 1 + rp) (ld + ediff)) as [F2|F2]|]; cbn [andb]; try exact Hrest.
  (* far apart: the stand-in never leaves the loop short, so this is the old function, correct by round 3 *)
  assert (HRu : 2 * Z.abs R <= B ^ (rdu + 1)).
  { pose proof (Z.pow_le_mono_r B rd rdu ltac:(lia) ltac:(lia)). rewrite Z.pow_add_r, Z.pow_1_r by lia.
    pose proof (Bpos rdu ltac:(lia)). nia. }
  assert (HsR : 0 < Z.sgn R * R) by nia.
  destruct (far_not_short p L R is_sub Hp HL HR Hsame) as (Hone & Hflp & NS). fold rp in Hone, Hflp, NS. fold ld in Hone, Hflp, NS.
  rewrite (rrs_fix_eq_old p m L eL (Z.sgn R) (far_low_prec rp ld) is_sub Hp ltac:(lia) Hone NS).
  eexists. split; [reflexivity|].
  apply (rrs_far_long B B_ge_2 p m L eL (Z.sgn R) R ediff is_sub); try assumption; try lia.
  - fold rp. fold ld. unfold far_low_prec. destruct (Z.geb_spec ld rp); lia.
  - fold rp. fold ld. intros _.
    pose proof (Z.pow_lt_mono_r B (rdu + 1) ediff ltac:(lia) ltac:(lia) ltac:(lia)). lia.
  - fold rp. fold ld. intros Hlt.
    pose proof (Z.pow_lt_mono_r B (rdu + 1) (ediff + ld - rp) ltac:(lia) ltac:(lia) ltac:(lia)). lia.
  - intros _. pose proof (Z.pow_le_mono_r B rd (ediff - 1) ltac:(lia) ltac:(lia)). lia.
Qed.

(** outside the class the whole branch function is the old one *)
Theorem add_core_fix_eq_old p m L R eL ediff is_sub rdu :
  1 <= p -> L <> 0 -> R <> 0 -> 1 <= ediff -> dlen B R <= rdu ->
  (is_sub = false -> 0 < L * R) -> (is_sub = true -> L * R < 0) ->
  add_core_short B p L R ediff is_sub = false ->
  add_core_fix p m L R eL ediff is_sub rdu = Ok (add_core B p m L R eL ediff is_sub rdu).
Proof.
  intros Hp HL HR He Hrdu Hsame Hopp Hns.
  revert Hns. unfold add_core_fix, add_core, add_core_short.
  destruct (Z.eqb_spec p 0) as [|_]; [lia|]. cbn [negb andb].
  set (rp := p + b2z is_sub). set (ld := dlen B L).
  destruct ((rdu + 1 <? ediff) && (rdu + 1 + rp <? ld + ediff)) eqn:Efar.
  - (* far apart: shown equal inside add_core_fix_correct; redo the short argument *)
    intros _. apply Bool.andb_true_iff in Efar. destruct Efar as [F1 F2].
    apply Z.ltb_lt in F1. apply Z.ltb_lt in F2.
    destruct (far_not_short p L R is_sub Hp HL HR Hsame) as (Hone & Hflp & NS). fold rp in Hone, Hflp, NS. fold ld in Hone, Hflp, NS.
    apply rrs_fix_eq_old; try assumption; lia.
  - fold ld. destruct (Z.geb_spec ld p) as [G|G].
    + pose proof (split_digits_spec B B_ge_2 R ediff ltac:(lia)) as SP.
      destruct (split_digits B R ediff) as [hi lo]. destruct SP as (E1 & Hlo & _).
      intros Hns. apply rrs_fix_eq_old; try assumption; lia.
    + destruct (Z.gtb_spec (ediff + ld) p) as [G2|G2].
      * pose proof (dlen_nonneg B B_ge_2 L) as Hd0. fold ld in Hd0.
        pose proof (split_digits_spec B B_ge_2 R (ediff - (p - ld)) ltac:(lia)) as SP.
        destruct (split_digits B R (ediff - (p - ld))) as [hi lo]. destruct SP as (E1 & Hlo & _).
        intros Hns. apply rrs_fix_eq_old; try assumption; lia.
      * intros Hns. apply rrs_fix_eq_old; try assumption; try lia.
Qed.

(* ------------------------------------------------------------------------------------------- *)
(** * repr_add_large_small / small_large, Context::add / sub *)
Variable digits_ub : Z -> Z.

Lemma large_small_core_fix p m s1 e1 s2 e2 sg :
  repr_add_large_small_fix B digits_ub p m s1 e1 s2 e2 sg =
  add_core_fix p m s1 (sgnz sg * s2) e1 (e1 - e2)
    (negb (sign_eqb (sign_of s1) (sign_mul sg (sign_of s2)))) (digits_ub s2).
Proof.
  unfold repr_add_large_small_fix, add_core_fix. cbv zeta.
  repeat match goal with |- (if ?c then _ else _) = (if ?c then _ else _) => destruct c end.
  - rewrite sgn_sgnz. reflexivity.
  - rewrite split_sgnz. destruct (split_digits B s2 (e1 - e2)). reflexivity.
  - rewrite split_sgnz. destruct (split_digits B s2 _). reflexivity.
  - unfold shl_digits. replace (e1 - (e1 - e2)) with e2 by lia. reflexivity.
Qed.

Lemma small_large_core_fix p m s1 e1 s2 e2 sg :
  repr_add_small_large_fix B digits_ub p m s1 e1 s2 e2 sg =
  add_core_fix p m (sgnz sg * s2) s1 e2 (e2 - e1)
    (negb (sign_eqb (sign_of s1) (sign_mul sg (sign_of s2)))) (digits_ub s1).
Proof.
  unfold repr_add_small_large_fix, add_core_fix. cbv zeta. rewrite !dlen_sgnz.
  repeat match goal with |- (if ?c then _ else _) = (if ?c then _ else _) => destruct c end.
  - reflexivity.
  - destruct (split_digits B s1 (e2 - e1)). rewrite Z.add_comm. reflexivity.
  - destruct (split_digits B s1 _). unfold shl_digits. rewrite Z.mul_assoc. reflexivity.
  - unfold shl_digits. replace (e2 - (e2 - e1)) with e1 by lia. rewrite Z.mul_assoc. reflexivity.
Qed.

Hypothesis digits_ub_ok : forall s, dlen B s <= digits_ub s.

Theorem add_dispatch_fix_correct p m s1 e1 s2 e2 sg :
  1 <= p -> s1 <> 0 -> s2 <> 0 ->
  exists a, add_dispatch_fix B digits_ub p m s1 e1 s2 e2 sg = Ok a /\
            rounded_sum B p m (exact_sum B s1 e1 s2 e2 sg) (Z.min e1 e2) a.
Proof.
  intros Hp H1 H2. unfold add_dispatch_fix, exact_sum. cbv zeta.
  destruct (is_sub_spec B B_ge_2 s1 s2 sg H1 H2) as [Ha Hb].
  assert (H2' : sgnz sg * s2 <> 0) by (destruct sg; cbn [sgnz]; lia).
  destruct (Z.compare_spec e1 e2) as [Heq|Hlt|Hgt].
  - subst e2. rewrite Z.min_id, Z.sub_diag, Z.pow_0_r, !Z.mul_1_r.
    pose proof (equal_exp_rounded B B_ge_2 p m (s1 + sgnz sg * s2) e1 Hp) as G.
    destruct (normalize B (s1 + sgnz sg * s2) e1) as [s e]. eexists. split; [reflexivity | exact G].
  - replace (Z.min e1 e2) with e1 by lia. rewrite Z.sub_diag, Z.pow_0_r, Z.mul_1_r.
    rewrite Z.add_comm. rewrite small_large_core_fix.
    destruct (add_core_fix_correct p m (sgnz sg * s2) s1 e2 (e2 - e1)
                (negb (sign_eqb (sign_of s1) (sign_mul sg (sign_of s2)))) (digits_ub s1) Hp H2' H1 ltac:(lia)
                (digits_ub_ok s1) ltac:(intros Hs; specialize (Ha Hs); lia) ltac:(intros Hs; specialize (Hb Hs); lia))
      as (a & Ea & Ga).
    exists a. split; [exact Ea|]. replace (e2 - (e2 - e1)) with e1 in Ga by lia. exact Ga.
  - replace (Z.min e1 e2) with e2 by lia. rewrite Z.sub_diag, Z.pow_0_r, Z.mul_1_r.
    rewrite large_small_core_fix.
    destruct (add_core_fix_correct p m s1 (sgnz sg * s2) e1 (e1 - e2)
                (negb (sign_eqb (sign_of s1) (sign_mul sg (sign_of s2)))) (digits_ub s2) Hp H1 H2' ltac:(lia)
                ltac:(rewrite dlen_sgnz; apply digits_ub_ok) Ha Hb)
      as (a & Ea & Ga).
    exists a. split; [exact Ea|]. replace (e1 - (e1 - e2)) with e2 in Ga by lia. exact Ga.
Qed.

Theorem add_dispatch_fix_eq_old p m s1 e1 s2 e2 sg :
  1 <= p -> s1 <> 0 -> s2 <> 0 -> add_short_class B p s1 e1 s2 e2 sg = false ->
  add_dispatch_fix B digits_ub p m s1 e1 s2 e2 sg = Ok (add_dispatch B digits_ub p m s1 e1 s2 e2 sg).
Proof.
  intros Hp H1 H2 Hns. unfold add_dispatch_fix, add_dispatch. unfold add_short_class in Hns.
  destruct (Z.eqb_spec p 0) as [|_]; [lia|]. destruct (Z.eqb_spec s1 0) as [|_]; [contradiction|].
  destruct (Z.eqb_spec s2 0) as [|_]; [contradiction|]. cbn [orb] in Hns. revert Hns.
  destruct (is_sub_spec B B_ge_2 s1 s2 sg H1 H2) as [Ha Hb].
  assert (H2' : sgnz sg * s2 <> 0) by (destruct sg; cbn [sgnz]; lia).
  destruct (Z.compare_spec e1 e2) as [Heq|Hlt|Hgt]; intros Hns.
  - destruct (normalize B (s1 + sgnz sg * s2) e1). reflexivity.
  - rewrite small_large_core_fix, (small_large_core B).
    apply add_core_fix_eq_old; try assumption; try lia; try apply digits_ub_ok;
      try (intros Hs; first [specialize (Ha Hs) | specialize (Hb Hs)]; lia).
  - rewrite large_small_core_fix, (large_small_core B).
    apply add_core_fix_eq_old; try assumption; try lia.
    rewrite dlen_sgnz. apply digits_ub_ok.
Qed.

(** Context::add and Context::sub, repaired: operands of ANY length (stored Reprs, or anything that fits) *)
Theorem ctx_add_fix_correct p m s1 e1 s2 e2 :
  1 <= p -> operand_ok B p s1 -> operand_ok B p s2 ->
  exists a, ctx_add_fix B digits_ub p m s1 e1 s2 e2 = Ok a /\
            rounded_sum B p m (exact_sum B s1 e1 s2 e2 Positive) (Z.min e1 e2) a.
Proof.
  intros Hp Hd1 Hd2. unfold ctx_add_fix.
  destruct (Z.eqb_spec s1 0) as [Hz1|Hn1]; [|destruct (Z.eqb_spec s2 0) as [Hz2|Hn2]].
  - eexists. split; [reflexivity|]. unfold exact_sum. cbn [sgnz]. subst s1. rewrite Z.mul_0_l, Z.add_0_l, Z.mul_1_l.
    apply (zero_shortcut_rounded B B_ge_2); try assumption; lia.
  - eexists. split; [reflexivity|]. unfold exact_sum. cbn [sgnz]. subst s2. rewrite Z.mul_0_r, Z.mul_0_l, Z.add_0_r.
    apply (zero_shortcut_rounded B B_ge_2); try assumption; lia.
  - apply add_dispatch_fix_correct; assumption.
Qed.

Theorem ctx_sub_fix_correct p m s1 e1 s2 e2 :
  1 <= p -> operand_ok B p s1 -> operand_ok B p s2 ->
  exists a, ctx_sub_fix B digits_ub p m s1 e1 s2 e2 = Ok a /\
            rounded_sum B p m (exact_sum B s1 e1 s2 e2 Negative) (Z.min e1 e2) a.
Proof.
  intros Hp Hd1 Hd2. unfold ctx_sub_fix.
  destruct (Z.eqb_spec s1 0) as [Hz1|Hn1]; [|destruct (Z.eqb_spec s2 0) as [Hz2|Hn2]].
  - eexists. split; [reflexivity|]. unfold exact_sum. cbn [sgnz]. subst s1. rewrite Z.mul_0_l, Z.add_0_l.
    replace (-1 * s2) with (- s2) by ring.
    apply (zero_shortcut_rounded B B_ge_2); try assumption; try lia. apply (operand_ok_opp B B_ge_2). exact Hd2.
  - eexists. split; [reflexivity|]. unfold exact_sum. cbn [sgnz]. subst s2. rewrite Z.mul_0_r, Z.mul_0_l, Z.add_0_r.
    apply (zero_shortcut_rounded B B_ge_2); try assumption; lia.
  - apply add_dispatch_fix_correct; assumption.
Qed.

(** outside the class of round 3 - in particular for operands that fit and for every effective addition -
    Context::add / sub return what they returned before the repair *)
Theorem ctx_add_fix_eq_old p m s1 e1 s2 e2 :
  1 <= p -> add_short_class B p s1 e1 s2 e2 Positive = false ->
  ctx_add_fix B digits_ub p m s1 e1 s2 e2 = Ok (ctx_add B digits_ub p m s1 e1 s2 e2).
Proof.
  intros Hp Hns. unfold ctx_add_fix, ctx_add.
  destruct (Z.eqb_spec s1 0) as [Hz1|Hn1]; [reflexivity|]. destruct (Z.eqb_spec s2 0) as [Hz2|Hn2]; [reflexivity|].
  apply add_dispatch_fix_eq_old; assumption.
Qed.

Theorem ctx_sub_fix_eq_old p m s1 e1 s2 e2 :
  1 <= p -> add_short_class B p s1 e1 s2 e2 Negative = false ->
  ctx_sub_fix B digits_ub p m s1 e1 s2 e2 = Ok (ctx_sub_fixed B digits_ub p m s1 e1 s2 e2).
Proof.
  intros Hp Hns. unfold ctx_sub_fix, ctx_sub_fixed.
  destruct (Z.eqb_spec s1 0) as [Hz1|Hn1]; [reflexivity|]. destruct (Z.eqb_spec s2 0) as [Hz2|Hn2]; [reflexivity|].
  apply add_dispatch_fix_eq_old; assumption.
Qed.

End FixAdd.

(** the witness of the former finding, and its neighbours: Context::<Zero>::new(2).sub(11e5, 1099999) = 1 exactly,
    11e5 - 1100001 = -1, 11e5 - 1090500 = 95e2 (cancellation down to a power of the base), and a pair outside
    the class that is unchanged *)
Example add_fix_witnesses :
  add_short_class 10 2 11 5 1099999 0 Negative = true /\
  ctx_sub_fix_x 10 2 MZero 11 5 1099999 0 = Ok (AExact 1 0) /\
  ctx_sub_fix_x 10 2 MZero 11 5 1100001 0 = Ok (AExact (-1) 0) /\
  ctx_sub_fix_x 10 2 MZero 11 5 10905 2 = Ok (AExact 95 2) /\
  ctx_sub_fix_x 10 2 MZero 10 2 11 0 = Ok (AInexact 98 1 SubOne) /\
  ctx_sub_fix_x 10 2 MZero 10 2 11 0 = Ok (ctx_sub_fixed_x 10 2 MZero 10 2 11 0) /\
  ctx_add_fix_x 10 2 MHalfEven 12345 0 67891 3 = Ok (AInexact 68 6 AddOne).
Proof. vm_compute. repeat split. Qed.
