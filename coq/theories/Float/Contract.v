(** C03/C08/C10: the documented rounding contract of a float operation, as an executable checker
    over exact integer arithmetic.  Definitions only (proofs: ContractProof.v).

    A float is (s, e) meaning s * B^e.  The exact real result x of an operation is given either as a
    rational N/D (D > 0) or as a square root sqrt(N/D) (N >= 0, D > 0); everything the contract needs
    is decided by comparing floats with k*x through cross multiplication. *)
From Coq Require Import QArith.
From Dashu Require Import Base.Prelude Float.RoundSpec.
From DashuGen Require Import RoundTables.
Open Scope Z_scope.

Inductive xval := XRat (N D : Z) | XSqrt (N D : Z).

(** number of base-B digits of |a| (0 for 0) *)
Fixpoint dlen_aux (fuel : nat) (B a : Z) : Z :=
  match fuel with
  | O => 0
  | S f => if a =? 0 then 0 else 1 + dlen_aux f B (a / B)
  end.
Definition dlen (B a : Z) : Z := dlen_aux (Z.to_nat (Z.log2 (Z.abs a) + 1)) B (Z.abs a).

(** compare the float a * B^j with k * x  (k > 0) *)
Definition cmp_kx (B k : Z) (x : xval) (a j : Z) : comparison :=
  match x with
  | XRat N D =>
      if 0 <=? j then (a * B ^ j * D ?= k * N) else (a * D ?= k * N * B ^ (- j))
  | XSqrt N D =>
      if a <? 0 then Lt
      else if 0 <=? j then (a * a * B ^ (2 * j) * D ?= k * k * N)
      else (a * a * D ?= k * k * N * B ^ (2 * - j))
  end.

Definition x_is_zero (x : xval) : bool := match x with XRat N _ | XSqrt N _ => N =? 0 end.
Definition x_sign (x : xval) : Z := match x with XRat N _ => Z.sgn N | XSqrt N _ => Z.sgn N end.

(** e with B^e <= |x| < B^(e+1), for x <> 0.  For a rational: e0 = dlen|N| - dlen D, then
    B^(e0-1) < |x| < B^(e0+1), one comparison decides.  For a square root of q: floor(e(q)/2). *)
Definition xabs (x : xval) : xval := match x with XRat N D => XRat (Z.abs N) D | XSqrt N D => XSqrt N D end.
Definition rat_exp (B N D : Z) : Z :=
  let e0 := dlen B N - dlen B D in
  match cmp_kx B 1 (XRat (Z.abs N) D) 1 e0 with Gt => e0 - 1 | _ => e0 end.
Definition x_exp (B : Z) (x : xval) : Z :=
  match x with
  | XRat N D => rat_exp B N D
  | XSqrt N D => rat_exp B N D / 2      (* floor *)
  end.

(** f1 +- B^u, aligned to a common exponent *)
Definition f_add_ulp (B s e u sg : Z) : Z * Z :=
  let m := Z.min e u in (s * B ^ (e - m) + sg * B ^ (u - m), m).

(** is x an integer multiple of B^u ? *)
Definition x_multiple_of_pow (B : Z) (x : xval) (u : Z) : bool :=
  match x with
  | XRat N D => if 0 <=? u then (N mod (D * B ^ u) =? 0) else ((N * B ^ (- u)) mod D =? 0)
  | XSqrt N D =>
      (* sqrt(N/D) = t * B^u, t integer  <->  N = t^2 * B^(2u) * D *)
      let '(num, den) := if 0 <=? u then (N, D * B ^ (2 * u)) else (N * B ^ (2 * - u), D) in
      (num mod den =? 0) && (let q := num / den in Z.sqrt q * Z.sqrt q =? q)
  end.

(** flags as reported by the implementation *)
(** FUnknown: the API returned a bare value (operators), nothing to check about the flag *)
Inductive flag := FExact | FInexact (r : rounding) | FUnknown.

Definition check_contract (B p : Z) (m : mode) (x : xval) (s e : Z) (f : flag) : bool :=
  let c := cmp_kx B 1 x s e in
  (dlen B s <=? p + 1) &&
  match c with
  | Eq => match f with FExact | FUnknown => true | _ => false end
  | _ =>
      if x_is_zero x then false else
      let u := x_exp B x - p + 1 in
      let '(lo_s, lo_e) := f_add_ulp B s e u (-1) in
      let '(hi_s, hi_e) := f_add_ulp B s e u 1 in
      (* flag *)
      match f with
      | FExact => false
      | FInexact AddOne => match c with Gt => true | _ => false end
      | FInexact SubOne => match c with Lt => true | _ => false end
      | FInexact NoOp | FUnknown => true
      end &&
      (* |r - x| < ulp *)
      match cmp_kx B 1 x lo_s lo_e, cmp_kx B 1 x hi_s hi_e with Lt, Gt => true | _, _ => false end &&
      (* half modes: |2r - 2x| <= ulp *)
      (if is_half_mode m then
         let '(l2, le2) := f_add_ulp B (2 * s) e u (-1) in
         let '(h2, he2) := f_add_ulp B (2 * s) e u 1 in
         match cmp_kx B 2 x l2 le2, cmp_kx B 2 x h2 he2 with
         | Gt, _ | _, Lt => false | _, _ => true end
       else true) &&
      (* side *)
      match m with
      | MDown => match c with Lt => true | _ => false end
      | MUp => match c with Gt => true | _ => false end
      | MZero => if 0 <? x_sign x then match c with Lt => true | _ => false end
                 else match c with Gt => true | _ => false end
      | MAway => if 0 <? x_sign x then match c with Gt => true | _ => false end
                 else match c with Lt => true | _ => false end
      | MHalfEven | MHalfAway => true
      end &&
      (* x is not representable in p digits: not a multiple of its own ulp *)
      negb (x_multiple_of_pow B x u)
  end.

(** the correctly rounded significand at a given exponent: round(x / B^e) - used where the
    implementation's result is a function of the input (to_int, with_precision, printing) *)
Definition round_rat_at (B : Z) (m : mode) (N D e : Z) : Z :=
  if 0 <=? e then spec_round m N (D * B ^ e) else spec_round m (N * B ^ (- e)) D.

(** Q-valued semantics used by the soundness statements *)
Definition Qval (B a j : Z) : Q :=
  if 0 <=? j then inject_Z (a * B ^ j) else Qmake a (Z.to_pos (B ^ (- j))).
