(** C08 (round 3): the specified Debug texts on concrete floats (documentation of Float/DebugSpec.v by computation) *)
From Coq Require Import ZArith List.
From Dashu Require Import Base.Prelude Float.RoundSpec Float.Contract Int.IoSpec Int.IoDebugModel Float.DebugSpec.
Import ListNotations.
Open Scope Z_scope.

(** "-1234 * 10 ^ -2 (prec: 5)"  and  "Repr {\n    significand: 5 (3 bits),\n    exponent: 2 ^ 7,\n}" *)
Theorem debug_spec_examples :
  fbig_debug_spec 19 (2 ^ 128) 10 (-1234) (-2) 5 =
    [45; 49; 50; 51; 52; 32; 42; 32; 49; 48; 32; 94; 32; 45; 50; 32; 40; 112; 114; 101; 99; 58; 32; 53; 41] /\
  repr_debug_alt_spec 19 (2 ^ 128) 2 5 7 =
    [82; 101; 112; 114; 32; 123; 10;
     32; 32; 32; 32; 115; 105; 103; 110; 105; 102; 105; 99; 97; 110; 100; 58; 32; 53; 32; 40; 51; 32; 98; 105; 116; 115; 41; 44; 10;
     32; 32; 32; 32; 101; 120; 112; 111; 110; 101; 110; 116; 58; 32; 50; 32; 94; 32; 55; 44; 10; 125].
Proof. vm_compute. split; reflexivity. Qed.
