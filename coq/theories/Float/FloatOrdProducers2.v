(** C05, float part, producers, second half (deepening round 3): the Context operations whose as-is models (C03:
    Float/AddModel.v add / sub in the Context form and in the four operator bodies, sqrt; Float/DivMulModel.v div,
    inv, the operator forms of * and /, the primitive forms) return the pair the code hands to Repr::new.
    Every arm of repr_round_sum (add.rs), repr_div (div.rs), Context::sqrt (root.rs: res.map(Repr::new).and_then
    (repr_round)) ends in Repr::new or hands back a value that went through it, so the representation the library
    returns is [new_of] of the model's pair; it is normalised for every base, precision, mode, digit estimate and
    all operands, and == / cmp follow the value on everything reachable through these and the producers of
    FloatOrdProducers.v.  Also: FBig with its context - ==, partial_cmp, cmp, abs_cmp never look at the precision or
    the rounding mode of either operand (float/src/cmp.rs as repaired; the dispatch is regenerated from the source
    into DashuGen.CmpDispatch and proved over the generated definitions in FloatOrdDispatch.v). *)
From Dashu Require Import Base.Prelude Float.RoundSpec Float.Contract Float.Model Float.ModelProof.
From Dashu Require Import Float.AddModel Float.DivMulModel Float.LongModel Float.FloatOrdProducers2Model.
From Dashu Require Import Float.FloatOrdModel Float.FloatOrdProofs Float.FloatOrdTotal Float.FloatOrdProducers.
Open Scope Z_scope.

(** Repr::new on the pair an operation computed *)
Definition new_of (B : Z) (a : approx) : Z * Z := Model.normalize B (approx_sig a) (approx_exp a).
Definition new_pair (B : Z) (se : Z * Z) : Z * Z := Model.normalize B (fst se) (snd se).

Lemma new_of_nz B a : 2 <= B -> nz B (new_of B a).
Proof. intros HB. apply new_nz. exact HB. Qed.
Lemma new_pair_nz B se : 2 <= B -> nz B (new_pair B se).
Proof. intros HB. apply new_nz. exact HB. Qed.

(** Repr::new changes nothing on a normalised pair (so applying it to the Exact arm of repr_round, which hands the
    operand back, is faithful) *)
Lemma new_pair_id B se : 2 <= B -> nz B se -> new_pair B se = se.
Proof.
  intros HB N. destruct se as [s e]. unfold new_pair. cbn [fst snd].
  pose proof (normalize_spec B HB s e) as H. destruct (Model.normalize B s e) as [s' e'] eqn:E. destruct H as [H0 H1].
  unfold nz, normalized, fr in N. cbn [fst snd fsig fexp] in N.
  destruct N as [[-> ->]|[Ns Nm]].
  - destruct (H0 eq_refl) as [-> ->]. reflexivity.
  - destruct (H1 Ns) as (A & M & k & K & Ek & V).
    apply (nz_unique B HB s' e' s e k 0 s e); try assumption; try lia; try (rewrite Z.pow_0_r; lia).
Qed.

Inductive produced2 (B : Z) : frepr -> Prop :=
| P1 x : produced B x -> produced2 B x
| PNeg2 x : produced2 B x -> produced2 B (FR (- fsig x) (fexp x))
(* Context::add / sub *)
| PAdd du p m x y : produced2 B (fr (new_of B (ctx_add B du p m (fsig x) (fexp x) (fsig y) (fexp y))))
| PSub du p m x y : produced2 B (fr (new_of B (ctx_sub B du p m (fsig x) (fexp x) (fsig y) (fexp y))))
(* impl Add / Sub for FBig, the four ownership forms (sg = Positive: +, Negative: -) *)
| PAddVV du p1 p2 m x y sg : produced2 B (fr (new_pair B (add_val_val B du p1 p2 m (fsig x) (fexp x) (fsig y) (fexp y) sg)))
| PAddVR du p1 p2 m x y sg : produced2 B (fr (new_pair B (add_val_ref B du p1 p2 m (fsig x) (fexp x) (fsig y) (fexp y) sg)))
| PAddRV du p1 p2 m x y sg : produced2 B (fr (new_pair B (add_ref_val B du p1 p2 m (fsig x) (fexp x) (fsig y) (fexp y) sg)))
| PAddRR du p1 p2 m x y sg : produced2 B (fr (new_pair B (add_ref_ref B du p1 p2 m (fsig x) (fexp x) (fsig y) (fexp y) sg)))
(* Context::div / inv / sqrt (a panic produces nothing) *)
| PDiv du dl p m x y a : ctx_div B du dl p m (fsig x) (fexp x) (fsig y) (fexp y) = Ok a -> produced2 B (fr (new_of B a))
| PDivN du dl p m x y a : ctx_div_n B du dl p m (fsig x) (fexp x) (fsig y) (fexp y) = Ok a -> produced2 B (fr (new_of B a))
| PInv p m x a : ctx_inv B p m (fsig x) (fexp x) = Ok a -> produced2 B (fr (new_of B a))
| PSqrt p m x a : ctx_sqrt B p m (fsig x) (fexp x) = Ok a -> produced2 B (fr (new_of B a))
(* impl Mul / Div for FBig, FBig op primitive *)
| PMulOp p1 p2 m x y : produced2 B (fr (new_pair B (fbig_mul B p1 p2 m (fsig x) (fexp x) (fsig y) (fexp y))))
| PDivOp p1 p2 m x y v : fbig_div B p1 p2 m (fsig x) (fexp x) (fsig y) (fexp y) = Ok v -> produced2 B (fr (new_pair B v))
| PMulPrim p m x n : produced2 B (fr (new_pair B (mul_float_prim B p m (fsig x) (fexp x) n)))
| PDivPrim p m x n v : div_float_prim B p m (fsig x) (fexp x) n = Ok v -> produced2 B (fr (new_pair B v))
| PPrimDiv p m n x v : div_prim_float B p m n (fsig x) (fexp x) = Ok v -> produced2 B (fr (new_pair B v)).

Theorem produced2_normalized B x : 2 <= B -> produced2 B x -> fwf x /\ normalized_ext B x.
Proof.
  intros HB P.
  assert (Q : forall se, nz B se -> fwf (fr se) /\ normalized_ext B (fr se)) by (intros se N; destruct (nz_fin B se N) as (A & C & _); auto).
  induction P; try (apply Q; first [apply new_of_nz | apply new_pair_nz]; exact HB).
  - apply produced_normalized; assumption.
  - destruct IHP as [W N]. destruct x as [s e]. cbn [fsig fexp] in *. unfold fwf, normalized_ext, f_is_inf in *. cbn [fsig fexp] in *.
    replace (- s =? 0) with (s =? 0) by (destruct (Z.eqb_spec s 0), (Z.eqb_spec (- s) 0); lia || reflexivity).
    split; [exact W|]. destruct N as [I|N]; [left; exact I | right]. unfold normalized in *. cbn [fsig fexp] in *.
    destruct N as [[-> ->]|[Hs Hm]]; [left; split; reflexivity | right]. split; [lia|].
    intros E. apply Hm. apply Z.mod_divide in E; [|lia]. apply Z.mod_divide; [lia|]. destruct E as [k E]. exists (- k). lia.
Qed.

(** == is equality of the values, cmp their order and Equal exactly when ==, on any two results of the modelled
    float operations, whatever precisions, modes, routes and digit estimates were involved *)
Theorem fbig_eq_sound_on_producers2 B digits_ub x y : 2 <= B ->
  (forall s, s <> 0 -> Z.abs s < B ^ (digits_ub s + 1)) ->
  produced2 B x -> produced2 B y ->
  fbig_eq x y = feq_spec B x y /\
  repr_cmp_same_base B digits_ub false x y = fcmp_spec B x y /\
  repr_cmp_same_base B digits_ub true x y = fabs_cmp_spec B x y /\
  (repr_cmp_same_base B digits_ub false x y = Eq <-> fbig_eq x y = true).
Proof.
  intros HB HD Px Py. destruct (produced2_normalized B x HB Px) as [Wx Nx]. destruct (produced2_normalized B y HB Py) as [Wy Ny].
  split; [apply fbig_eq_correct; assumption|].
  split; [apply repr_cmp_same_base_correct; assumption|].
  split; [apply repr_cmp_same_base_abs_correct; assumption | apply fbig_cmp_eq_iff_eq; assumption].
Qed.

(** two routes to one value give one representation: normalised representations of equal finite values are equal *)
Theorem normalized_value_unique B x y : 2 <= B -> fwf x -> fwf y -> normalized_ext B x -> normalized_ext B y ->
  feq_spec B x y = true -> f_is_inf x = false -> f_is_inf y = false -> x = y.
Proof.
  intros HB Wx Wy Nx Ny E Fx Fy. rewrite <- (fbig_eq_correct B HB x y Wx Wy Nx Ny) in E.
  unfold fbig_eq in E. rewrite Fx, Fy in E. apply andb_prop in E. destruct E as [E1 E2].
  apply Z.eqb_eq in E1. apply Z.eqb_eq in E2. destruct x as [sx ex], y as [sy ey]. simpl in E1, E2. subst. reflexivity.
Qed.

(** non-vacuity: 1.5 + 0.5 in base 2 at precision 4 (the sum 4 * 2^-1 is stored as 1 * 2^1) equals 4 / 2 (1 * 2^1) *)
Example produced2_example :
  let a := fr (new_of 2 (ctx_add 2 (dlen 2) 4 MHalfEven 3 (-1) 1 (-1))) in
  (exists q, ctx_div 2 (dlen 2) (dlen 2) 4 MHalfEven 1 2 1 1 = Ok q /\ fr (new_of 2 q) = FR 1 1) /\
  a = FR 1 1.
Proof. cbv zeta. split; [eexists; split; vm_compute; reflexivity | vm_compute; reflexivity]. Qed.

(** what the correspondence run replays (FloatOrdProducers2Model.fprod_asis: the C03 model, then Repr::new) returns a
    normalised representation for every operation, base, precision, mode, digit estimates and operands *)
Theorem fprod_asis_normalized B du dl o p m s1 e1 s2 e2 s e f : 2 <= B ->
  fprod_asis B du dl o p m s1 e1 s2 e2 = Ok (s, e, f) -> nz B (s, e) /\ fwf (FR s e) /\ normalized_ext B (FR s e).
Proof.
  intros HB E.
  assert (N : nz B (s, e)).
  { assert (K : forall a, fin_new B a = (s, e, f) -> nz B (s, e)).
    { intros a Ea. unfold fin_new in Ea. pose proof (new_nz B HB (approx_sig a) (approx_exp a)) as H.
      destruct (Model.normalize B (approx_sig a) (approx_exp a)) as [s' e']. inversion Ea. subst. exact H. }
    assert (R : forall x, rfin B x = Ok (s, e, f) -> nz B (s, e)).
    { intros [a|c|c|] Ex; cbn [rfin] in Ex; try discriminate. inversion Ex as [Ea]. apply (K a Ea). }
    destruct o; cbn [fprod_asis] in E; first [apply (R _ E) | inversion E as [Ea]; eapply K; exact Ea]. }
  split; [exact N|]. destruct (nz_fin B (s, e) N) as (W & NE & _). split; assumption.
Qed.

(* ---------------------------------------------------------------- FBig = Repr + Context *)

(** FBig<R, B>: a representation with the precision and the rounding mode of its context *)
Record fbig_c := FC { fc_repr : frepr; fc_prec : Z; fc_mode : mode }.

(** with_precision(0) keeps the representation (TextIoModel / RoundOpsModel prove what other precisions do); with_rounding
    only changes the type parameter *)
Definition fc_with_rounding (x : fbig_c) (m : mode) : fbig_c := FC (fc_repr x) (fc_prec x) m.
