(** C10: the as-is models of float/src/round_ops.rs, FBig::to_int, Repr::to_int and
    FBig::with_precision (RoundOpsModel.v, repaired code = [pinned := false]) return what the
    specification names, for every base B >= 2, every float (s, e, p) and EVERY digits_ub that never
    under-estimates the digit count.  The pinned tree ([pinned := true]) is refuted by witnesses. *)
From Dashu Require Import Base.Prelude Float.RoundSpec Float.RoundTablesProof Float.RoundSpecProof
  Float.Contract Float.Model Float.ModelProof Float.RoundOpsModel.
From DashuGen Require Import RoundTables.
Open Scope Z_scope.

Definition fsig (f : fl) : Z := fst (fst f).
Definition fexp (f : fl) : Z := snd (fst f).
Definition fprec (f : fl) : Z := snd f.

(* ------------------------------------------------------------------ arithmetic helpers *)
Lemma quot_small_abs a b : Z.abs a < b -> Z.quot a b = 0.
Proof.
  intros H. destruct (Z.le_gt_cases 0 a).
  - apply Z.quot_small. lia.
  - replace a with (- (- a)) by lia. rewrite Z.quot_opp_l by lia. rewrite Z.quot_small; lia.
Qed.

Lemma flag_of_adj_adj a : flag_of_adj (adj a) = a.
Proof. destruct a; reflexivity. Qed.

Lemma adj_flag_of_adj a : -1 <= a <= 1 -> adj (flag_of_adj a) = a.
Proof.
  intros H. unfold flag_of_adj. destruct (Z.eqb_spec a 0); [cbn; lia|].
  destruct (Z.ltb_spec 0 a); cbn [adj]; lia.
Qed.

Section Proofs.
Variable B : Z.
Hypothesis B_ge_2 : 2 <= B.
(** Repr::digits_ub enters only through this contract (C12: log2_bounds are sound) *)
Variable digits_ub : Z -> Z.
Hypothesis dub_sound : forall s, dlen B s <= digits_ub s.

Let Bpos := Bpow_pos B B_ge_2.

(** an integer-valued float: non-negative exponent, value v *)
Definition int_valued (f : fl) (v : Z) : Prop := 0 <= fexp f /\ fsig f * B ^ fexp f = v.
(** a float whose value is v * B^e (v = a significand at exponent e) after stripping zeros *)
Definition frac_valued (f : fl) (e v : Z) : Prop :=
  (v = 0 /\ fsig f = 0) \/ (exists k, 0 <= k /\ fexp f = e + k /\ v = fsig f * B ^ k).

Lemma abs_lt_pow_dlen s : Z.abs s < B ^ dlen B s.
Proof.
  destruct (Z.eq_dec s 0) as [->|Hs].
  - pose proof (dlen_zero B) as Hz. rewrite Hz, Z.pow_0_r. lia.
  - apply (dlen_spec B B_ge_2 s Hs).
Qed.

(** e + digits_ub < -j  ==>  |s * B^e| < B^-(j+1) *)
Lemma small_bound s e j : 0 <= j -> e + digits_ub s < - j ->
  Z.abs s * B ^ (j + 1) < B ^ (- e) /\ e < 0.
Proof.
  intros Hj H. pose proof (dub_sound s) as Hd. pose proof (dlen_nonneg B B_ge_2 s) as Hn.
  pose proof (abs_lt_pow_dlen s) as Hs.
  assert (Hle : B ^ dlen B s <= B ^ (- e - j - 1)) by (apply Z.pow_le_mono_r; lia).
  replace (- e) with ((- e - j - 1) + (j + 1)) by lia.
  rewrite (Z.pow_add_r B (- e - j - 1) (j + 1)) by lia.
  pose proof (Bpos (j + 1) ltac:(lia)). pose proof (Bpos (- e - j - 1) ltac:(lia)).
  split; [|lia]. apply Z.mul_lt_mono_pos_r; lia.
Qed.

(** Repr::smaller_than_one has no false positives: |x| < 1/B^2, in particular |x| < 1/2 *)
Theorem smaller_than_one_sound s e : smaller_than_one digits_ub s e = true ->
  e < 0 /\ Z.abs s * B ^ 2 < B ^ (- e) /\ 2 * Z.abs s < B ^ (- e).
Proof.
  unfold smaller_than_one. intros H. apply Z.ltb_lt in H.
  destruct (small_bound s e 1 ltac:(lia) H) as [Hb He]. replace (1 + 1) with 2 in Hb by lia.
  split; [exact He|]. split; [exact Hb|]. rewrite Z.pow_2_r in Hb.
  pose proof (Z.abs_nonneg s). assert (4 <= B * B) by nia.
  assert (Z.abs s * 4 <= Z.abs s * (B * B)) by (apply Z.mul_le_mono_nonneg_l; lia). lia.
Qed.

(* ------------------------------------------------------------------ the specification itself *)

(** trunc(x) + fract(x) = x, |fract| < 1, fract has the sign of x *)
Theorem trunc_fract_sum s e : e < 0 ->
  int_spec B MZero s e * B ^ (- e) + fract_sig_spec B s e = s /\
  Z.abs (fract_sig_spec B s e) < B ^ (- e) /\
  (0 <= s -> 0 <= fract_sig_spec B s e) /\ (s <= 0 -> fract_sig_spec B s e <= 0).
Proof.
  intros He. unfold fract_sig_spec, int_spec. destruct (Z.leb_spec 0 e); [lia|]. cbn [spec_round].
  pose proof (Bpos (- e) ltac:(lia)) as Hp.
  pose proof (Z.quot_rem' s (B ^ (- e))) as E.
  pose proof (Z.rem_bound_abs s (B ^ (- e)) ltac:(lia)) as Hb.
  replace (s - Z.quot s (B ^ (- e)) * B ^ (- e)) with (Z.rem s (B ^ (- e))) by lia.
  split; [lia|]. split; [lia|]. split; intros Hs.
  - apply Z.rem_nonneg; lia.
  - apply Z.rem_nonpos; lia.
Qed.

(** every mode lands within one step of the truncated value, so one of the three flags is right *)
Theorem int_spec_adj_range m s e : -1 <= int_spec B m s e - int_spec B MZero s e <= 1.
Proof.
  unfold int_spec. destruct (Z.leb_spec 0 e); [lia|].
  pose proof (Bpos (- e) ltac:(lia)) as Hp.
  pose proof (spec_round_error m s (B ^ (- e)) Hp) as [E1 _].
  pose proof (spec_round_error MZero s (B ^ (- e)) Hp) as [E2 _]. cbv zeta in E1, E2. nia.
Qed.

(** the value is an integer exactly when every mode agrees with truncation *)
Theorem int_spec_exact m s e : is_int B s e = true -> int_spec B m s e = int_spec B MZero s e.
Proof.
  unfold is_int, int_spec. destruct (Z.leb_spec 0 e) as [He|He]; [reflexivity|]. cbn [orb]. intros H.
  apply Z.eqb_eq in H. pose proof (Bpos (- e) ltac:(lia)) as Hp.
  pose proof (spec_round_exact m s _ Hp H). pose proof (spec_round_exact MZero s _ Hp H). nia.
Qed.

(* ------------------------------------------------------------------ split_at_point_internal *)

Lemma split_internal_ok p s e : e < 0 ->
  let '(hi, lo, k) := split_internal B digits_ub false p s e in
  k = - e /\ hi = Z.quot s (B ^ k) /\ Z.abs lo < B ^ k /\ hi * B ^ k + lo = s.
Proof.
  intros He. unfold split_internal.
  destruct (smaller_than_one digits_ub s e) eqn:Hs.
  - destruct (smaller_than_one_sound s e Hs) as (_ & _ & H2).
    repeat split; try lia. symmetry; apply quot_small_abs; lia.
  - cbn [split_digits]. pose proof (Bpos (- e) ltac:(lia)) as Hp.
    repeat split.
    + pose proof (Z.rem_bound_abs s (B ^ (- e)) ltac:(lia)). lia.
    + pose proof (Z.quot_rem' s (B ^ (- e))). lia.
Qed.

Lemma normalize_int v q : int_valued (mk (normalize B v 0) q) v.
Proof.
  unfold int_valued, fsig, fexp, mk. pose proof (normalize_spec B B_ge_2 v 0) as H.
  destruct (normalize B v 0) as [s' e']. cbn [fst snd]. destruct H as [H0 H1].
  destruct (Z.eq_dec v 0) as [->|Hv].
  - destruct (H0 eq_refl) as [-> ->]. rewrite Z.pow_0_r. lia.
  - destruct (H1 Hv) as (_ & _ & k & Hk & -> & ->). split; [lia | reflexivity].
Qed.

Lemma normalize_frac v e q : frac_valued (mk (normalize B v e) q) e v.
Proof.
  unfold frac_valued, fsig, fexp, mk. pose proof (normalize_spec B B_ge_2 v e) as H.
  destruct (normalize B v e) as [s' e']. cbn [fst snd]. destruct H as [H0 H1].
  destruct (Z.eq_dec v 0) as [->|Hv].
  - left. destruct (H0 eq_refl) as [-> _]. auto.
  - right. destruct (H1 Hv) as (_ & _ & k & Hk & -> & ->). exists k. auto.
Qed.

(** the debug assertion of round_fract holds at every call site of round_ops.rs / to_int, and the
    rounded integer is the specification's *)
Lemma round_to_spec m p s e : e < 0 ->
  exists f, round_to B digits_ub false m p s e = Ok f /\ int_valued f (int_spec B m s e).
Proof.
  intros He. unfold round_to. pose proof (split_internal_ok p s e He) as H.
  destruct (split_internal B digits_ub false p s e) as [[hi lo] k].
  destruct H as (-> & Hhi & Hlo & Hsum). unfold round_fract_chk.
  destruct (Z.ltb_spec (Z.abs lo) (B ^ (- e))); [|lia]. cbn [rbind].
  eexists. split; [reflexivity|].
  rewrite (round_fract_spec B B_ge_2 m hi lo (- e)) by lia. rewrite Hsum.
  unfold int_spec. destruct (Z.leb_spec 0 e); [lia|]. apply normalize_int.
Qed.

(* ------------------------------------------------------------------ trunc / fract / split *)

Theorem trunc_asis_spec p s e :
  int_valued (trunc_asis B digits_ub p s e) (int_spec B MZero s e).
Proof.
  unfold trunc_asis, int_spec. destruct (Z.leb_spec 0 e).
  - split; [exact H | reflexivity].
  - cbn [spec_round]. destruct (smaller_than_one digits_ub s e) eqn:Hs.
    + destruct (smaller_than_one_sound s e Hs) as (_ & _ & H2).
      rewrite quot_small_abs by lia. split; cbn; lia.
    + apply normalize_int.
Qed.

Theorem fract_asis_spec p s e : e < 0 ->
  frac_valued (fract_asis B digits_ub false p s e) e (fract_sig_spec B s e).
Proof.
  intros He. unfold fract_asis. destruct (Z.leb_spec 0 e) as [He'|_]; [lia|].
  pose proof (split_internal_ok p s e He) as H.
  destruct (split_internal B digits_ub false p s e) as [[hi lo] k].
  destruct H as (-> & Hhi & Hlo & Hsum).
  replace (fract_sig_spec B s e) with lo; [apply normalize_frac|].
  unfold fract_sig_spec, int_spec. destruct (Z.leb_spec 0 e); [lia|]. cbn [spec_round]. lia.
Qed.

Theorem fract_asis_int p s e : 0 <= e -> fract_asis B digits_ub false p s e = FZERO.
Proof. intros He. unfold fract_asis. destruct (Z.leb_spec 0 e); [reflexivity | lia]. Qed.

(** split_at_point = (trunc, fract): the integral part is literally trunc's result *)
Theorem split_asis_trunc p s e : fst (split_asis B digits_ub p s e) = trunc_asis B digits_ub p s e.
Proof.
  unfold split_asis, trunc_asis. destruct (0 <=? e); [reflexivity|].
  destruct (smaller_than_one digits_ub s e); [reflexivity|]. cbn [split_digits fst]. reflexivity.
Qed.

Theorem split_asis_fract p s e : e < 0 ->
  frac_valued (snd (split_asis B digits_ub p s e)) e (fract_sig_spec B s e).
Proof.
  intros He. unfold split_asis. destruct (Z.leb_spec 0 e); [lia|].
  assert (Hf : forall lo, lo = Z.rem s (B ^ (- e)) -> fract_sig_spec B s e = lo).
  { intros lo ->. unfold fract_sig_spec, int_spec. destruct (Z.leb_spec 0 e); [lia|]. cbn [spec_round].
    pose proof (Z.quot_rem' s (B ^ (- e))). lia. }
  destruct (smaller_than_one digits_ub s e) eqn:Hs.
  - cbn [snd]. destruct (smaller_than_one_sound s e Hs) as (_ & _ & H2).
    rewrite (Hf s) by (pose proof (Z.quot_rem' s (B ^ (- e))) as Q;
                        rewrite (quot_small_abs s (B ^ (- e)) ltac:(lia)) in Q; lia).
    right. exists 0. unfold fsig, fexp. cbn [fst snd]. rewrite Z.pow_0_r. repeat split; lia.
  - cbn [split_digits snd]. rewrite (Hf _ eq_refl). apply normalize_frac.
Qed.

(* ------------------------------------------------------------------ floor / ceil / round *)

Theorem floor_asis_spec p s e :
  exists f, floor_asis B digits_ub false p s e = Ok f /\ int_valued f (int_spec B MDown s e).
Proof.
  unfold floor_asis. destruct (Z.leb_spec 0 e) as [He|He].
  - eexists. split; [reflexivity|]. unfold int_spec. destruct (Z.leb_spec 0 e); [|lia]. split; [exact He | reflexivity].
  - destruct (smaller_than_one digits_ub s e) eqn:Hs; [|apply round_to_spec; exact He].
    destruct (smaller_than_one_sound s e Hs) as (_ & _ & H2).
    pose proof (Bpos (- e) ltac:(lia)) as Hp.
    eexists. split; [reflexivity|]. unfold int_spec. destruct (Z.leb_spec 0 e); [lia|]. cbn [spec_round].
    destruct (Z.leb_spec 0 s).
    + rewrite Z.div_small by lia. split; cbn; lia.
    + rewrite <- (Z.div_unique s (B ^ (- e)) (-1) (s + B ^ (- e))) by lia. split; cbn; lia.
Qed.

Theorem ceil_asis_spec p s e : (e < 0 -> s <> 0) ->
  exists f, ceil_asis B digits_ub false p s e = Ok f /\ int_valued f (int_spec B MUp s e).
Proof.
  intros Hn. unfold ceil_asis. destruct (Z.leb_spec 0 e) as [He|He].
  - rewrite Bool.orb_true_r. eexists. split; [reflexivity|]. unfold int_spec.
    destruct (Z.leb_spec 0 e); [|lia]. split; [exact He | reflexivity].
  - destruct (Z.eqb_spec s 0) as [H0|H0]; [specialize (Hn He); contradiction|]. cbn [orb].
    destruct (smaller_than_one digits_ub s e) eqn:Hs; [|apply round_to_spec; exact He].
    destruct (smaller_than_one_sound s e Hs) as (_ & _ & H2).
    pose proof (Bpos (- e) ltac:(lia)) as Hp.
    eexists. split; [reflexivity|]. unfold int_spec. destruct (Z.leb_spec 0 e); [lia|]. cbn [spec_round].
    destruct (Z.leb_spec 0 s).
    + rewrite <- (Z.div_unique (- s) (B ^ (- e)) (-1) (- s + B ^ (- e))) by lia. split; cbn; lia.
    + rewrite Z.div_small by lia. split; cbn; lia.
Qed.

Theorem round_asis_spec p s e :
  exists f, round_asis B digits_ub false p s e = Ok f /\ int_valued f (int_spec B MHalfAway s e).
Proof.
  unfold round_asis. destruct (Z.leb_spec 0 e) as [He|He].
  - eexists. split; [reflexivity|]. unfold int_spec. destruct (Z.leb_spec 0 e); [|lia]. split; [exact He | reflexivity].
  - destruct (Z.ltb_spec (e + digits_ub s) (-2)) as [Hs|Hs]; [|apply round_to_spec; exact He].
    destruct (small_bound s e 2 ltac:(lia) Hs) as [Hb _]. replace (2 + 1) with 3 in Hb by lia.
    pose proof (Bpos (- e) ltac:(lia)) as Hp.
    assert (H2 : 2 * Z.abs s < B ^ (- e)).
    { replace 3 with (1 + 1 + 1) in Hb by lia. rewrite !Z.pow_add_r, Z.pow_1_r in Hb by lia.
      pose proof (Z.abs_nonneg s). assert (4 <= B * B) by nia. assert (8 <= B * B * B) by nia.
      assert (Z.abs s * 8 <= Z.abs s * (B * B * B)) by (apply Z.mul_le_mono_nonneg_l; lia). lia. }
    eexists. split; [reflexivity|]. unfold int_spec. destruct (Z.leb_spec 0 e); [lia|]. cbn [spec_round].
    rewrite Z.div_small by lia. split; cbn; lia.
Qed.

(* ------------------------------------------------------------------ to_int *)

Lemma not_int_of_normalized s e : e < 0 -> s mod B <> 0 -> is_int B s e = false.
Proof.
  intros He Hm. unfold is_int. destruct (Z.leb_spec 0 e); [lia|]. cbn [orb].
  apply Z.eqb_neq. intros Hz. pose proof (Bpos (- e) ltac:(lia)) as Hp.
  apply (normalized_low_nonzero B B_ge_2 s (- e) Hm ltac:(lia)).
  apply Z.rem_divide; [lia|]. apply Z.mod_divide; [lia | exact Hz].
Qed.

Theorem to_int_asis_spec m p s e : (e < 0 -> s mod B <> 0) ->
  to_int_asis B digits_ub false m p s e = Ok (to_int_spec B m s e).
Proof.
  intros Hn. unfold to_int_asis, to_int_spec. destruct (Z.leb_spec 0 e) as [He|He].
  - unfold is_int, int_spec. destruct (Z.leb_spec 0 e); [|lia]. reflexivity.
  - rewrite (not_int_of_normalized s e He (Hn He)).
    pose proof (split_internal_ok p s e He) as H.
    destruct (split_internal B digits_ub false p s e) as [[hi lo] k].
    destruct H as (-> & Hhi & Hlo & Hsum). unfold round_fract_chk.
    destruct (Z.ltb_spec (Z.abs lo) (B ^ (- e))); [|lia]. cbn [rbind].
    pose proof (round_fract_spec B B_ge_2 m hi lo (- e) ltac:(lia) Hlo) as E. rewrite Hsum in E.
    unfold int_spec. destruct (Z.leb_spec 0 e); [lia|]. cbn [spec_round]. rewrite <- Hhi, <- E.
    replace (hi + adj (round_fract B m hi lo (- e)) - hi) with (adj (round_fract B m hi lo (- e))) by lia.
    rewrite flag_of_adj_adj. reflexivity.
Qed.

Theorem repr_to_int_asis_spec s e : (e < 0 -> s mod B <> 0) ->
  repr_to_int_asis B digits_ub s e = to_int_spec B MZero s e.
Proof.
  intros Hn. unfold repr_to_int_asis, to_int_spec. destruct (Z.leb_spec 0 e) as [He|He].
  - unfold is_int, int_spec. destruct (Z.leb_spec 0 e); [|lia]. reflexivity.
  - rewrite (not_int_of_normalized s e He (Hn He)). rewrite Z.sub_diag. cbn [flag_of_adj Z.eqb].
    unfold int_spec. destruct (Z.leb_spec 0 e); [lia|]. cbn [spec_round].
    destruct (smaller_than_one digits_ub s e) eqn:Hs; [|reflexivity].
    destruct (smaller_than_one_sound s e Hs) as (_ & _ & H2). rewrite quot_small_abs by lia. reflexivity.
Qed.

(* ------------------------------------------------------------------ with_precision *)

Theorem with_precision_asis_spec m p s e np : 0 <= p -> 0 <= np -> (p = 0 \/ dlen B s <= p) ->
  with_precision_asis B false m p s e np = norm_approx B (with_precision_spec B m s e np).
Proof.
  intros Hp Hnp Hleg. unfold with_precision_asis, with_precision_spec.
  destruct (Z.eqb_spec p 0) as [P0|P0]; cbn [orb].
  2: destruct (Z.gtb_spec p np) as [G|G].
  3:{ (* 0 < p <= np: nothing to do *)
      destruct (Z.eqb_spec np 0); [lia|]. cbn [orb]. destruct (Z.leb_spec (dlen B s) np); [reflexivity | lia]. }
  all: f_equal.
  all: destruct (Z.eqb_spec np 0) as [N0|N0]; cbn [orb]; [subst np; apply repr_round_unlimited|].
  all: destruct (Z.leb_spec (dlen B s) np) as [D|D]; [apply (repr_round_exact B); exact D|].
  all: destruct (repr_round_spec B B_ge_2 np m s e ltac:(lia) D) as (a & E & Ea); rewrite E; f_equal.
  all: set (k := dlen B s - np) in *; pose proof (Bpos k ltac:(unfold k; lia)) as Hk.
  all: assert (Hrem : Z.abs (Z.rem s (B ^ k)) < B ^ k) by
         (pose proof (Z.rem_bound_abs s (B ^ k) ltac:(lia)); lia).
  all: pose proof (round_fract_spec B B_ge_2 m (Z.quot s (B ^ k)) (Z.rem s (B ^ k)) k ltac:(unfold k; lia) Hrem) as F.
  all: pose proof (Z.quot_rem' s (B ^ k)) as Q.
  all: replace (Z.quot s (B ^ k) * B ^ k + Z.rem s (B ^ k)) with s in F by lia.
  all: rewrite <- F, <- Ea.
  all: replace (Z.quot s (B ^ k) + adj a - Z.quot s (B ^ k)) with (adj a) by lia.
  all: symmetry; apply flag_of_adj_adj.
Qed.

(** what with_precision_spec delivers: at most np digits or the carry B^np, error below one unit of
    the last kept digit (half a unit for the nearest modes), on the side the mode names *)
Theorem with_precision_spec_props m s e np : 1 <= np -> np < dlen B s ->
  exists r f, with_precision_spec B m s e np = AInexact r (e + (dlen B s - np)) f /\
    let k := dlen B s - np in
    B ^ (np - 1) <= Z.abs r <= B ^ np /\ Z.abs (r * B ^ k - s) < B ^ k /\
    (is_half_mode m = true -> 2 * Z.abs (r * B ^ k - s) <= B ^ k) /\ side_ok m s (B ^ k) r /\
    adj f = r - Z.quot s (B ^ k).
Proof.
  intros Hnp D. unfold with_precision_spec.
  destruct (Z.eqb_spec np 0); [lia|]. cbn [orb]. destruct (Z.leb_spec (dlen B s) np); [lia|].
  do 2 eexists. split; [reflexivity|]. cbv zeta.
  pose proof (repr_round_digits B B_ge_2 np m s e Hnp D) as Hd.
  destruct (repr_round_spec B B_ge_2 np m s e Hnp D) as (a & E & _). rewrite E in Hd. cbn [approx_sig] in Hd.
  set (k := dlen B s - np) in *. pose proof (Bpos k ltac:(unfold k; lia)) as Hk.
  pose proof (spec_round_error m s (B ^ k) Hk) as [E1 E2]. cbv zeta in E1, E2.
  pose proof (spec_round_side m s (B ^ k) Hk) as S.
  repeat split; try assumption; try lia.
  apply adj_flag_of_adj.
  pose proof (spec_round_error MZero s (B ^ k) Hk) as [E3 _]. cbv zeta in E3. cbn [spec_round] in E3. nia.
Qed.

End Proofs.

(* ------------------------------------------------------------------ the pinned tree, refuted *)

(** DESIGN 5.1 #20: 0.0099 at 2 digits; the pinned split_at_point_internal scaled the fraction by the
    context precision.  With the exact digit count as digits_ub: *)
Theorem split_internal_pinned_refuted :
  to_int_asis 10 (dub_exact 10) true MHalfEven 2 99 (-4) = Ok (IInexact 1 AddOne) /\
  to_int_spec 10 MHalfEven 99 (-4) = IInexact 0 NoOp /\
  round_asis 10 (dub_exact 10) true 2 99 (-4) = Ok (1, 0, 0) /\
  int_spec 10 MHalfAway 99 (-4) = 0 /\
  to_int_asis 10 (dub_exact 10) true MHalfAway 0 1 (-3) = Panic Undocumented.
Proof. repeat split; vm_compute; reflexivity. Qed.

Theorem with_precision_pinned_refuted :
  with_precision_asis 10 true MHalfAway 0 12345 0 3 = AExact 12345 0 /\
  norm_approx 10 (with_precision_spec 10 MHalfAway 12345 0 3) = AInexact 123 2 NoOp.
Proof. repeat split; vm_compute; reflexivity. Qed.

(** non-vacuity: the exact digit count and the count plus one satisfy the digits_ub contract *)
Lemma dub_exact_sound B s : dlen B s <= dub_exact B s.
Proof. unfold dub_exact. lia. Qed.
Lemma dub_plus_sound B s : 2 <= B -> dlen B s <= dub_plus B s.
Proof.
  intros HB. unfold dub_plus. destruct (Z.eqb_spec s 0) as [->|]; [|lia].
  pose proof (dlen_zero B). lia.
Qed.

Example to_int_small_example :
  to_int_asis 10 (dub_exact 10) false MHalfEven 2 99 (-4) = Ok (IInexact 0 NoOp) /\
  round_asis 10 (dub_plus 10) false 2 99 (-4) = Ok (0, 0, 0) /\
  to_int_asis 10 (dub_exact 10) false MUp 2 99 (-4) = Ok (IInexact 1 AddOne) /\
  with_precision_asis 10 false MHalfAway 0 12345 0 3 = AInexact 123 2 NoOp.
Proof. repeat split; vm_compute; reflexivity. Qed.
