(** C10 round 4: the f32 pre-filter of Round::round_fract with 2^24 OR MORE digits after the radix point.

    Below 2^24 digits `precision as f32` is exact and monotonicity of the rounding alone makes the two coarse tests
    sound (C03: FilterProof.round_fract_f32_eq, F32Flocq.round_fract_flocq32).  From 2^24 on the conversion rounds
    (relative error 2^-24 either way), so soundness needs more than "the log2 bounds enclose the logarithm": it needs
    the slack that integer/src/log.rs log2_bounds_large builds in for numbers of more than two words,
        est_lb = (hi_lb + rem_bits as f32) * (1 - 2^-22),   est_ub = (hi_ub + rem_bits as f32) * (1 + 2^-22).
    Three roundings (conversion, sum, product) cost at most (1 + u)^3, u = 2^-24, and (1 + u)^3 (1 - 4u) < 1 - u:
    the lower bound lies below log2 |fract| * (1 - u), which absorbs the error of `precision as f32`; the upper bound
    lies above log2 |fract| * (1 + u - 9u^2) - 2^-30, which absorbs it as long as 9 u^2 log2 |fract| stays below the
    margin 0.001, i.e. for fractions of fewer than 2^34 bits (2 GiB).

    (A) the two coarse tests are sound for EVERY digit count >= 2^24 under these slack hypotheses (abstract f32
        arithmetic: monotone rounding, conversion within relative error u, literals within 0.9991 / 1.0009);
    (B) Flocq's binary32 rounding satisfies them;
    (C) the two products of log2_bounds_large, written with that rounding, have the slack - for any bounds of the top
        double word that enclose its logarithm;
    hence round_fract with its filter = the exact comparison for all digit counts (fractions below 2^34 bits). *)
From Coq Require Import ZArith QArith Reals Qreals Lra Lia Psatz.
From Flocq Require Import Core Relative.
From Dashu Require Import Base.Prelude Float.RoundSpec Float.Contract Float.Model Float.AddModel Float.DivMulModel
  Float.FilterProof Float.F32Flocq.
From DashuGen Require Import RoundTables FloatDivParams.
Open Scope R_scope.

Definition u32 : R := / 16777216.

(* ---------------------------------------------------------------- logarithms *)

Lemma log2R_lt x y : 0 < x -> x < y -> log2R x < log2R y.
Proof.
  intros Hx Hxy. unfold log2R. apply Rmult_lt_compat_r; [apply Rinv_0_lt_compat; exact ln2_pos|].
  apply ln_increasing; assumption.
Qed.

Lemma log2R_le x y : 0 < x -> x <= y -> log2R x <= log2R y.
Proof. intros Hx [H| ->]; [left; apply log2R_lt; assumption | right; reflexivity]. Qed.

Lemma log2R_pow2 n : (0 <= n)%Z -> log2R (IZR (2 ^ n)) = IZR n.
Proof. intros Hn. rewrite log2R_Zpow by lia. rewrite log2R_2. ring. Qed.

Lemma log2R_base_ge_1 B : (2 <= B)%Z -> 1 <= log2R (IZR B).
Proof. intros HB. rewrite <- log2R_2. apply log2R_le; [lra | apply IZR_le; exact HB]. Qed.

(** ln 2 >= 1/2 and log2 (x + 1) - log2 x <= 2 / x (elementary; as in Cross/XLog2Large.v) *)
Lemma ln2_ge_half : / 2 <= ln 2.
Proof.
  rewrite <- (ln_exp (/ 2)). left. apply ln_increasing; [apply exp_pos | ].
  assert (H : exp (/ 2) * exp (/ 2) = exp 1) by (rewrite <- exp_plus; f_equal; lra).
  pose proof exp_le_3 as E3. pose proof (exp_pos (/ 2)) as P.
  destruct (Rlt_or_le (exp (/ 2)) 2) as [ | C]; [assumption | exfalso].
  assert (2 * 2 <= exp (/ 2) * exp (/ 2)) by (apply Rmult_le_compat; lra). lra.
Qed.

Lemma log2R_succ x : 0 < x -> log2R (x + 1) <= log2R x + 2 / x.
Proof.
  intros Hx. assert (Hi : 0 < / x) by (apply Rinv_0_lt_compat; exact Hx).
  replace (x + 1) with (x * (1 + / x)) by (field; lra).
  rewrite log2R_mult by lra. apply Rplus_le_compat_l. unfold log2R.
  assert (H1 : ln (1 + / x) <= / x).
  { left. rewrite <- (ln_exp (/ x)) at 2. apply ln_increasing; [lra | ]. apply exp_ineq1. lra. }
  pose proof ln2_ge_half as H2.
  assert (H0 : 0 <= ln (1 + / x)) by (rewrite <- ln_1; left; apply ln_increasing; lra).
  unfold Rdiv. apply Rle_trans with (/ x * / ln 2).
  - apply Rmult_le_compat_r; [left; apply Rinv_0_lt_compat; lra | exact H1].
  - assert (H3 : / ln 2 <= / / 2) by (apply Rinv_le_contravar; lra).
    assert (H4 : / / 2 = 2) by field. rewrite H4 in H3. rewrite (Rmult_comm 2). apply Rmult_le_compat_l; lra.
Qed.

(* ---------------------------------------------------------------- (A) the coarse tests from 2^24 digits on *)

Section LargeSound.
Variable B : Z.
Hypothesis B_ge_2 : (2 <= B)%Z.
Variable fl : Q -> Q.
Variable cvt : Z -> Q.
Variable lb ub : Z -> Q.
Variable b_lb b_ub : Q.
Variable c999 c1001 : Q.

Hypothesis fl_mono : forall x y, (x <= y)%Q -> (fl x <= fl y)%Q.
(** [precision as f32] from 2^24 on: rounded, relative error at most 2^-24 *)
Hypothesis cvt_rel : forall k, (2 ^ 24 <= k)%Z -> IZR k * (1 - u32) <= Q2R (cvt k) <= IZR k * (1 + u32).
Hypothesis lb_ub_sound : forall f, (0 < f)%Z -> Q2R (lb f) <= log2R (IZR f) <= Q2R (ub f).
(** the slack of log2_bounds_large (numbers of more than two 64-bit words; part (C)) *)
Hypothesis lb_slack : forall f, (2 ^ 128 <= f)%Z -> Q2R (lb f) <= log2R (IZR f) * (1 - u32).
Hypothesis ub_slack : forall f, (2 ^ 128 <= f)%Z ->
  log2R (IZR f) * (1 + u32 - 9 * u32 * u32) - / 1073741824 <= Q2R (ub f).
Hypothesis b_sound : Q2R b_lb <= log2R (IZR B) <= Q2R b_ub.
Hypothesis c999_le : Q2R c999 <= 9991 / 10000.
Hypothesis c1001_ge : 10009 / 10000 <= Q2R c1001.

Lemma small_log f : (0 < f < 2 ^ 128)%Z -> log2R (IZR f) < 128.
Proof.
  intros Hf. change 128 with (IZR 128). rewrite <- (log2R_pow2 128) by lia.
  apply log2R_lt; [apply IZR_lt; lia | apply IZR_lt; lia].
Qed.

Theorem f32_gt_sound_large f k : (0 < f)%Z -> (2 ^ 24 <= k)%Z ->
  f32_gt fl cvt lb b_ub c999 f k = true -> (B ^ k < 2 * f)%Z.
Proof.
  intros Hf Hk H. unfold f32_gt in H. apply Bool.negb_true_iff in H.
  assert (Hlt : (b_ub * cvt k < lb f + c999)%Q).
  { apply Qnot_le_lt. intros Hle. apply fl_mono in Hle. apply Qle_bool_iff in Hle. congruence. }
  apply Qlt_Rlt in Hlt. rewrite Q2R_mult, Q2R_plus in Hlt.
  destruct (cvt_rel k Hk) as [Ck _]. destruct b_sound as [_ Hb]. destruct (lb_ub_sound f Hf) as [Hl _].
  pose proof (log2R_base_ge_1 B B_ge_2) as HB1.
  assert (Hk24 : 16777216 <= IZR k) by (change 16777216 with (IZR (2 ^ 24)); apply IZR_le; exact Hk).
  set (LB := log2R (IZR B)) in *. set (L := log2R (IZR f)) in *. set (c := Q2R (cvt k)) in *.
  assert (Hc0 : 0 <= c) by (unfold u32 in Ck; nra).
  (* T (1 - u) <= b_ub * cvt k *)
  assert (HT : IZR k * LB * (1 - u32) <= Q2R b_ub * c).
  { apply Rle_trans with (LB * c); [unfold u32 in *; nra | apply Rmult_le_compat_r; assumption]. }
  assert (Hgoal : IZR k * LB < 1 + L).
  { destruct (Z.lt_ge_cases f (2 ^ 128)) as [Hs|Hbig].
    - (* at most two words: the bound is below 128, the product above 2^24 - 1 *)
      pose proof (small_log f ltac:(lia)) as HS. fold L in HS. exfalso.
      assert (IZR k * LB >= 16777216) by nra. unfold u32 in HT. nra.
    - pose proof (lb_slack f Hbig) as SL. fold L in SL.
      assert (D : (IZR k * LB - L) * (1 - u32) < 9991 / 10000) by (unfold u32 in *; lra).
      unfold u32 in D. lra. }
  apply lt_IZR. apply log2R_lt_inv.
  - apply IZR_lt. apply Z.pow_pos_nonneg; lia.
  - apply IZR_lt. lia.
  - rewrite log2R_Zpow, log2R_2f by lia. fold LB L. exact Hgoal.
Qed.

Theorem f32_lt_sound_large f k : (0 < f)%Z -> (2 ^ 24 <= k)%Z -> (Z.log2 f < 2 ^ 34)%Z ->
  f32_lt fl cvt ub b_lb c1001 f k = true -> (2 * f < B ^ k)%Z.
Proof.
  intros Hf Hk HL34 H.
  destruct (Z.lt_ge_cases f (2 ^ 128)) as [Hs|Hbig].
  - (* at most two words: 2 f < 2^129 <= 2^k <= B^k, whatever the filter says *)
    assert (P1 : (2 ^ 129 <= 2 ^ k)%Z) by (apply Z.pow_le_mono_r; lia).
    assert (P2 : (2 ^ k <= B ^ k)%Z) by (apply Z.pow_le_mono_l; lia).
    change (2 ^ 129)%Z with (2 * 2 ^ 128)%Z in P1. lia.
  - unfold f32_lt in H. apply Bool.negb_true_iff in H.
    assert (Hlt : (ub f + c1001 < b_lb * cvt k)%Q).
    { apply Qnot_le_lt. intros Hle. apply fl_mono in Hle. apply Qle_bool_iff in Hle. congruence. }
    apply Qlt_Rlt in Hlt. rewrite Q2R_mult, Q2R_plus in Hlt.
    destruct (cvt_rel k Hk) as [Ck1 Ck]. destruct b_sound as [Hb _].
    pose proof (ub_slack f Hbig) as SU. pose proof (log2R_base_ge_1 B B_ge_2) as HB1.
    assert (Hk24 : 16777216 <= IZR k) by (change 16777216 with (IZR (2 ^ 24)); apply IZR_le; exact Hk).
    (* log2 f < 2^34 *)
    assert (HL : log2R (IZR f) < 17179869184).
    { change 17179869184 with (IZR (2 ^ 34)). pose proof (Z.log2_spec f Hf) as [_ L2].
      apply Rlt_le_trans with (log2R (IZR (2 ^ Z.succ (Z.log2 f)))).
      - apply log2R_lt; [apply IZR_lt; lia | apply IZR_lt; exact L2].
      - rewrite log2R_pow2 by (pose proof (Z.log2_nonneg f); lia). apply IZR_le. lia. }
    assert (HL0 : 128 <= log2R (IZR f)).
    { change 128 with (IZR 128). rewrite <- (log2R_pow2 128) by lia.
      apply log2R_le; [apply IZR_lt; lia | apply IZR_le; exact Hbig]. }
    set (LB := log2R (IZR B)) in *. set (L := log2R (IZR f)) in *. set (c := Q2R (cvt k)) in *.
    assert (Hc0 : 0 <= c) by (unfold u32 in Ck1; nra).
    assert (HT : Q2R b_lb * c <= IZR k * LB * (1 + u32)).
    { apply Rle_trans with (LB * c); [apply Rmult_le_compat_r; assumption | unfold u32 in *; nra]. }
    assert (Hgoal : 1 + L < IZR k * LB).
    { set (T := IZR k * LB) in *. unfold u32 in *. lra. }
    apply lt_IZR. apply log2R_lt_inv.
    + apply IZR_lt. lia.
    + apply IZR_lt. apply Z.pow_pos_nonneg; lia.
    + rewrite log2R_Zpow, log2R_2f by lia. fold LB L. exact Hgoal.
Qed.

(** round_fract as written = the exact comparison, from 2^24 digits on (fractions below 2^34 bits) *)
Theorem round_fract_f32_eq_large m i fract k : (2 ^ 24 <= k)%Z -> (Z.log2 (Z.abs fract) < 2 ^ 34)%Z ->
  round_fract_f32 fl cvt lb ub b_lb b_ub c999 c1001 B m i fract k = round_fract B m i fract k.
Proof.
  intros Hk HL. unfold round_fract_f32, round_fract_filtered, round_fract.
  destruct (Z.eqb_spec fract 0) as [|Hne]; [reflexivity|].
  f_equal. unfold half_test.
  assert (Hf : (0 < Z.abs fract)%Z) by lia.
  destruct (f32_gt fl cvt lb b_ub c999 (Z.abs fract) k) eqn:G.
  - symmetry. apply Z.compare_gt_iff. apply f32_gt_sound_large; assumption.
  - destruct (f32_lt fl cvt ub b_lb c1001 (Z.abs fract) k) eqn:L; [|reflexivity].
    symmetry. apply Z.compare_lt_iff. apply f32_lt_sound_large; assumption.
Qed.
End LargeSound.

(* ---------------------------------------------------------------- (B) Flocq's binary32 rounding *)

Lemma prec24_gt_0 : Prec_gt_0 24.
Proof. unfold Prec_gt_0. lia. Qed.

Lemma fl32R_rel x : 1 <= x -> x * (1 - u32) <= fl32R x <= x * (1 + u32).
Proof.
  intros Hx. unfold fl32R, fexp32.
  pose proof (relative_error_N_FLT radix2 (-149) 24 prec24_gt_0 (fun z => negb (Z.even z)) x) as H.
  assert (Hb : bpow radix2 (-149 + 24 - 1) <= Rabs x).
  { rewrite Rabs_pos_eq by lra. apply Rle_trans with 1; [|exact Hx].
    replace 1 with (bpow radix2 0) by reflexivity. apply bpow_le. lia. }
  specialize (H Hb). rewrite (Rabs_pos_eq x) in H by lra.
  replace (/ 2 * bpow radix2 (- (24) + 1)) with u32 in H by (unfold u32; simpl; lra).
  apply Rabs_le_inv in H. unfold u32 in *. lra.
Qed.

Lemma fl32R_le x y : x <= y -> fl32R x <= fl32R y.
Proof. intros H. apply round_le; [exact fexp32_valid | apply valid_rnd_N | exact H]. Qed.

Lemma fl32R_0 : fl32R 0 = 0.
Proof. apply round_0. apply valid_rnd_N. Qed.

Lemma fl32R_nonneg x : 0 <= x -> 0 <= fl32R x.
Proof. intros H. rewrite <- fl32R_0. apply fl32R_le. exact H. Qed.

Lemma cvt32_rel k : (2 ^ 24 <= k)%Z -> IZR k * (1 - u32) <= Q2R (cvt32 k) <= IZR k * (1 + u32).
Proof.
  intros Hk. unfold cvt32. rewrite Q2R_fl32, Q2R_inject_Z. apply fl32R_rel.
  change 1 with (IZR 1). apply IZR_le. lia.
Qed.

(** m * 2^e with |m| < 2^24 is a binary32 number *)
Lemma dyadic_fixed m e : (Z.abs m < 2 ^ 24)%Z -> (-149 <= e)%Z -> fl32R (IZR m * bpow radix2 e) = IZR m * bpow radix2 e.
Proof.
  intros Hm He. unfold fl32R. apply round_generic; [apply valid_rnd_N|].
  apply generic_format_FLT. exists (Float radix2 m e); [reflexivity | exact Hm | exact He].
Qed.

(** the two literals as f32: 0.999 <= 1023/1024 and 1025/1024 <= 1.001 are binary32 numbers *)
Lemma c_bounds_sharp : Q2R c999_32 <= 9991 / 10000 /\ 10009 / 10000 <= Q2R c1001_32.
Proof.
  unfold c999_32, c1001_32. rewrite !Q2R_fl32. split.
  - apply Rle_trans with (fl32R (IZR 1023 * bpow radix2 (-10))).
    + apply fl32R_le. unfold filter_c_gt_gen, Q2R. cbn [Qnum Qden]. simpl. lra.
    + rewrite dyadic_fixed by (cbn; lia). simpl. lra.
  - apply Rle_trans with (fl32R (IZR 1025 * bpow radix2 (-10))).
    + rewrite dyadic_fixed by (cbn; lia). simpl. lra.
    + apply fl32R_le. unfold filter_c_lt_gen, Q2R. cbn [Qnum Qden]. simpl. lra.
Qed.

(* ---------------------------------------------------------------- (C) the slack of log2_bounds_large *)

(** (hi_lb + rem_bits as f32) * (1. - ADJUST) and (hi_ub + rem_bits as f32) * (1. + ADJUST), ADJUST = 2^-22, in binary32 *)
Definition large_lb32 (hlb : Q) (rem : Z) : Q := fl32 (fl32 (hlb + cvt32 rem) * (1 - (1 # 4194304))).
Definition large_ub32 (hub : Q) (rem : Z) : Q := fl32 (fl32 (hub + cvt32 rem) * (1 + (1 # 4194304))).

Lemma Q2R_adj_lo : Q2R (1 - (1 # 4194304)) = 1 - / 4194304.
Proof. unfold Q2R. cbn. lra. Qed.
Lemma Q2R_adj_hi : Q2R (1 + (1 # 4194304)) = 1 + / 4194304.
Proof. unfold Q2R. cbn. lra. Qed.

Lemma large_lb32_slack hlb Lh rem : Q2R hlb <= Lh -> 32 <= Lh -> (32 <= rem)%Z ->
  Q2R (large_lb32 hlb rem) <= (Lh + IZR rem) * (1 - u32).
Proof.
  intros H1 H2 H3. unfold large_lb32, cvt32. rewrite Q2R_fl32, Q2R_mult, Q2R_fl32, Q2R_plus, Q2R_fl32, Q2R_inject_Z, Q2R_adj_lo.
  assert (Hr : 32 <= IZR rem) by (change 32 with (IZR 32); apply IZR_le; exact H3).
  pose proof (fl32R_rel (IZR rem) ltac:(lra)) as [_ R2].
  set (A := Lh + IZR rem * (1 + u32)).
  assert (HA : 1 <= A) by (unfold A, u32; nra).
  assert (HS : fl32R (Q2R hlb + fl32R (IZR rem)) <= A * (1 + u32)).
  { apply Rle_trans with (fl32R A); [apply fl32R_le; unfold A; lra | apply (fl32R_rel A HA)]. }
  set (S := fl32R (Q2R hlb + fl32R (IZR rem))) in *.
  assert (HX : 0 < (Lh + IZR rem) * (1 - u32)) by (unfold u32; nra).
  destruct (Rle_lt_dec S 0) as [Neg|Pos].
  - apply Rle_trans with (fl32R 0); [apply fl32R_le; nra | rewrite fl32R_0; lra].
  - set (Bv := A * (1 + u32) * (1 - / 4194304)).
    assert (HB : 1 <= Bv) by (unfold Bv, A, u32 in *; nra).
    apply Rle_trans with (fl32R Bv); [apply fl32R_le; unfold Bv; nra|].
    apply Rle_trans with (Bv * (1 + u32)); [apply (fl32R_rel Bv HB)|].
    unfold Bv, A, u32. nra.
Qed.

Lemma large_ub32_slack hub Lh rem : Lh <= Q2R hub -> 32 <= Lh -> (32 <= rem)%Z ->
  (Lh + IZR rem) * (1 + u32 - 9 * u32 * u32) <= Q2R (large_ub32 hub rem).
Proof.
  intros H1 H2 H3. unfold large_ub32, cvt32. rewrite Q2R_fl32, Q2R_mult, Q2R_fl32, Q2R_plus, Q2R_fl32, Q2R_inject_Z, Q2R_adj_hi.
  assert (Hr : 32 <= IZR rem) by (change 32 with (IZR 32); apply IZR_le; exact H3).
  pose proof (fl32R_rel (IZR rem) ltac:(lra)) as [R1 _].
  set (A := Lh + IZR rem * (1 - u32)).
  assert (HA : 1 <= A) by (unfold A, u32; nra).
  assert (HS : A * (1 - u32) <= fl32R (Q2R hub + fl32R (IZR rem))).
  { apply Rle_trans with (fl32R A); [apply (fl32R_rel A HA) | apply fl32R_le; unfold A; lra]. }
  set (S := fl32R (Q2R hub + fl32R (IZR rem))) in *.
  set (Bv := A * (1 - u32) * (1 + / 4194304)).
  assert (HB : 1 <= Bv) by (unfold Bv, A, u32 in *; nra).
  apply Rle_trans with (fl32R Bv); [|apply fl32R_le; unfold Bv; unfold u32 in *; nra].
  apply Rle_trans with (Bv * (1 - u32)); [|apply (fl32R_rel Bv HB)].
  unfold Bv, A, u32. nra.
Qed.

(** TypedReprRef::log2_bounds of a UBig with 64-bit words: [lbs]/[ubs] are the bounds of a double word
    (impl_log2_bounds_for_uint), applied to the number itself below 2^128 and to its top double word otherwise *)
Section UbigBounds.
Variable lbs ubs : Z -> Q.
Hypothesis dword_sound : forall h, (0 < h < 2 ^ 128)%Z -> Q2R (lbs h) <= log2R (IZR h) <= Q2R (ubs h).

Definition rem_bits64 (f : Z) : Z := ((Z.log2 f + 1 + 63) / 64 - 2) * 64.
Definition ubig_lb32 (f : Z) : Q :=
  if (f <? 2 ^ 128)%Z then lbs f else large_lb32 (lbs (Z.shiftr f (rem_bits64 f))) (rem_bits64 f).
Definition ubig_ub32 (f : Z) : Q :=
  if (f <? 2 ^ 128)%Z then ubs f else large_ub32 (ubs (Z.shiftr f (rem_bits64 f))) (rem_bits64 f).

(** the shape of the split: at least one word below, a top part of 65..128 bits *)
Lemma large_shape64 f : (2 ^ 128 <= f)%Z ->
  let rem := rem_bits64 f in let hi := Z.shiftr f rem in
  (64 <= rem /\ 2 ^ 64 <= hi < 2 ^ 128 /\ hi * 2 ^ rem <= f < (hi + 1) * 2 ^ rem)%Z.
Proof.
  intros Hf rem hi. assert (F0 : (0 < f)%Z) by (assert (0 < 2 ^ 128)%Z by reflexivity; lia).
  pose proof (Z.log2_spec f F0) as [L1 L2].
  assert (HL : (128 <= Z.log2 f)%Z) by (apply Z.log2_le_pow2; lia).
  set (l := Z.log2 f) in *.
  pose proof (Z.div_mod (l + 64) 64 ltac:(lia)) as Hdm. pose proof (Z.mod_pos_bound (l + 64) 64 ltac:(lia)) as Hmb.
  assert (Er : rem = (((l + 64) / 64 - 2) * 64)%Z) by (unfold rem, rem_bits64; fold l; f_equal; f_equal; f_equal; lia).
  set (q := ((l + 64) / 64)%Z) in *.
  assert (Hrem : (64 <= rem /\ l - 127 <= rem <= l - 64)%Z) by lia.
  assert (Prem : (0 < 2 ^ rem)%Z) by (apply Z.pow_pos_nonneg; lia).
  unfold hi. rewrite Z.shiftr_div_pow2 by lia.
  pose proof (Z.div_mod f (2 ^ rem) ltac:(lia)) as Df. pose proof (Z.mod_pos_bound f (2 ^ rem) Prem) as Mf.
  set (h := (f / 2 ^ rem)%Z) in *.
  assert (Hlo : (2 ^ 64 <= h)%Z).
  { apply Z.div_le_lower_bound; [exact Prem|]. rewrite <- Z.pow_add_r by lia.
    apply Z.le_trans with (2 ^ l)%Z; [apply Z.pow_le_mono_r; lia | exact L1]. }
  assert (Hhi : (h < 2 ^ 128)%Z).
  { apply Z.div_lt_upper_bound; [exact Prem|]. rewrite <- Z.pow_add_r by lia.
    apply Z.lt_le_trans with (2 ^ Z.succ l)%Z; [exact L2 | apply Z.pow_le_mono_r; lia]. }
  split; [lia|]. split; [lia|]. nia.
Qed.

Lemma log2R_scaled h rem : (0 < h)%Z -> (0 <= rem)%Z -> log2R (IZR (h * 2 ^ rem)) = log2R (IZR h) + IZR rem.
Proof.
  intros Hh Hr. rewrite mult_IZR, log2R_mult; [rewrite log2R_pow2 by exact Hr; reflexivity | apply IZR_lt; exact Hh |].
  apply IZR_lt. apply Z.pow_pos_nonneg; lia.
Qed.

Theorem ubig_bounds_sound f : (0 < f)%Z -> Q2R (ubig_lb32 f) <= log2R (IZR f) <= Q2R (ubig_ub32 f).
Proof.
  intros Hf. unfold ubig_lb32, ubig_ub32. destruct (Z.ltb_spec f (2 ^ 128)) as [Hs|Hbig]; [apply dword_sound; lia|].
  destruct (large_shape64 f Hbig) as (R1 & (H1 & H2) & (S1 & S2)).
  set (rem := rem_bits64 f) in *. set (hi := Z.shiftr f rem) in *.
  assert (P64 : (0 < 2 ^ 64)%Z) by reflexivity.
  destruct (dword_sound hi ltac:(lia)) as [Dl Du].
  assert (HLh : 32 <= log2R (IZR hi)).
  { change 32 with (IZR 32). rewrite <- (log2R_pow2 32) by lia. apply log2R_le; [apply IZR_lt; reflexivity|].
    apply IZR_le. assert (2 ^ 32 <= 2 ^ 64)%Z by (apply Z.pow_le_mono_r; lia). lia. }
  pose proof (large_lb32_slack _ _ rem Dl HLh ltac:(lia)) as SL.
  pose proof (large_ub32_slack _ _ rem Du HLh ltac:(lia)) as SU.
  assert (Prem : (0 < 2 ^ rem)%Z) by (apply Z.pow_pos_nonneg; lia).
  assert (Lo : log2R (IZR hi) + IZR rem <= log2R (IZR f)).
  { rewrite <- log2R_scaled by lia. apply log2R_le; [apply IZR_lt; nia | apply IZR_le; lia]. }
  assert (Up : log2R (IZR f) <= log2R (IZR hi) + IZR rem + / 2147483648).
  { apply Rle_trans with (log2R (IZR (hi + 1)) + IZR rem).
    - rewrite <- log2R_scaled by lia. apply log2R_le; [apply IZR_lt; lia | apply IZR_le; lia].
    - rewrite plus_IZR. assert (Phi : 0 < IZR hi) by (apply IZR_lt; lia).
      pose proof (log2R_succ (IZR hi) Phi) as HS.
      assert (HQ : 2 / IZR hi <= / 2147483648).
      { assert (Hge : IZR (2 ^ 32) <= IZR hi) by (apply IZR_le; assert (2 ^ 32 <= 2 ^ 64)%Z by (apply Z.pow_le_mono_r; lia); lia).
        replace (IZR (2 ^ 32)) with 4294967296 in Hge by (simpl; lra).
        unfold Rdiv. replace (/ 2147483648) with (2 * / 4294967296) by lra.
        apply Rmult_le_compat_l; [lra | ]. apply Rinv_le_contravar; lra. }
      lra. }
  set (X := log2R (IZR hi) + IZR rem) in *.
  assert (HX : 64 <= X) by (unfold X; assert (64 <= IZR rem) by (change 64 with (IZR 64); apply IZR_le; lia); lra).
  split.
  - apply Rle_trans with (1 := SL). unfold u32. nra.
  - apply Rle_trans with (2 := SU). unfold u32. nra.
Qed.

Theorem ubig_lb_slack f : (2 ^ 128 <= f)%Z -> Q2R (ubig_lb32 f) <= log2R (IZR f) * (1 - u32).
Proof.
  intros Hbig. unfold ubig_lb32. destruct (Z.ltb_spec f (2 ^ 128)) as [Hs|_]; [lia|].
  destruct (large_shape64 f Hbig) as (R1 & (H1 & H2) & (S1 & S2)).
  set (rem := rem_bits64 f) in *. set (hi := Z.shiftr f rem) in *.
  assert (P64 : (0 < 2 ^ 64)%Z) by reflexivity.
  destruct (dword_sound hi ltac:(lia)) as [Dl _].
  assert (HLh : 32 <= log2R (IZR hi)).
  { change 32 with (IZR 32). rewrite <- (log2R_pow2 32) by lia. apply log2R_le; [apply IZR_lt; reflexivity|].
    apply IZR_le. assert (2 ^ 32 <= 2 ^ 64)%Z by (apply Z.pow_le_mono_r; lia). lia. }
  pose proof (large_lb32_slack _ _ rem Dl HLh ltac:(lia)) as SL.
  assert (Lo : log2R (IZR hi) + IZR rem <= log2R (IZR f)).
  { rewrite <- log2R_scaled by lia. apply log2R_le; [apply IZR_lt; nia | apply IZR_le; lia]. }
  apply Rle_trans with (1 := SL). apply Rmult_le_compat_r; [unfold u32; lra | exact Lo].
Qed.

Theorem ubig_ub_slack f : (2 ^ 128 <= f)%Z ->
  log2R (IZR f) * (1 + u32 - 9 * u32 * u32) - / 1073741824 <= Q2R (ubig_ub32 f).
Proof.
  intros Hbig. unfold ubig_ub32. destruct (Z.ltb_spec f (2 ^ 128)) as [Hs|_]; [lia|].
  destruct (large_shape64 f Hbig) as (R1 & (H1 & H2) & (S1 & S2)).
  set (rem := rem_bits64 f) in *. set (hi := Z.shiftr f rem) in *.
  assert (P64 : (0 < 2 ^ 64)%Z) by reflexivity.
  destruct (dword_sound hi ltac:(lia)) as [_ Du].
  assert (HLh : 32 <= log2R (IZR hi)).
  { change 32 with (IZR 32). rewrite <- (log2R_pow2 32) by lia. apply log2R_le; [apply IZR_lt; reflexivity|].
    apply IZR_le. assert (2 ^ 32 <= 2 ^ 64)%Z by (apply Z.pow_le_mono_r; lia). lia. }
  pose proof (large_ub32_slack _ _ rem Du HLh ltac:(lia)) as SU.
  assert (Prem : (0 < 2 ^ rem)%Z) by (apply Z.pow_pos_nonneg; lia).
  assert (Up : log2R (IZR f) <= log2R (IZR hi) + IZR rem + / 2147483648).
  { apply Rle_trans with (log2R (IZR (hi + 1)) + IZR rem).
    - rewrite <- log2R_scaled by lia. apply log2R_le; [apply IZR_lt; lia | apply IZR_le; lia].
    - rewrite plus_IZR. assert (Phi : 0 < IZR hi) by (apply IZR_lt; lia).
      pose proof (log2R_succ (IZR hi) Phi) as HS.
      assert (HQ : 2 / IZR hi <= / 2147483648).
      { assert (Hge : IZR (2 ^ 32) <= IZR hi) by (apply IZR_le; assert (2 ^ 32 <= 2 ^ 64)%Z by (apply Z.pow_le_mono_r; lia); lia).
        replace (IZR (2 ^ 32)) with 4294967296 in Hge by (simpl; lra).
        unfold Rdiv. replace (/ 2147483648) with (2 * / 4294967296) by lra.
        apply Rmult_le_compat_l; [lra | ]. apply Rinv_le_contravar; lra. }
      lra. }
  apply Rle_trans with (2 := SU).
  set (X := log2R (IZR hi) + IZR rem) in *. set (L := log2R (IZR f)) in *. unfold u32. lra.
Qed.

(** Round::round_fract as written, binary32 arithmetic of Flocq, log2 bounds of the fraction as
    TypedReprRef::log2_bounds computes them from ANY sound bounds of a double word: the exact comparison, for every
    digit count (fractions below 2^34 bits) *)
Theorem round_fract_flocq32_all B : (2 <= B)%Z -> forall b_lb b_ub : Q,
  Q2R b_lb <= log2R (IZR B) <= Q2R b_ub ->
  forall m i fract k, (0 <= k)%Z -> (Z.log2 (Z.abs fract) < 2 ^ 34)%Z ->
  round_fract_f32 fl32 cvt32 ubig_lb32 ubig_ub32 b_lb b_ub c999_32 c1001_32 B m i fract k = round_fract B m i fract k.
Proof.
  intros HB b_lb b_ub Hb m i fract k Hk HL.
  destruct (Z.lt_ge_cases k (2 ^ 24)) as [Hs|Hbig].
  - apply round_fract_flocq32; [exact HB | exact ubig_bounds_sound | exact Hb | lia].
  - destruct c_bounds_sharp as [C1 C2].
    apply (round_fract_f32_eq_large B HB fl32 cvt32 ubig_lb32 ubig_ub32 b_lb b_ub c999_32 c1001_32
             fl32_mono cvt32_rel ubig_bounds_sound ubig_lb_slack ubig_ub_slack Hb C1 C2); assumption.
Qed.
End UbigBounds.

(** non-vacuity: exact dyadic bounds for powers of two; a fraction of 4 words against 2^24 + 1 binary digits *)
Example filter_large_nonvacuous :
  (rem_bits64 (2 ^ 200) = 128)%Z /\ (Z.shiftr (2 ^ 200) (rem_bits64 (2 ^ 200)) = 2 ^ 72)%Z /\
  (forall k, (2 ^ 24 <= k)%Z -> IZR k * (1 - u32) <= Q2R (cvt32 k) <= IZR k * (1 + u32)).
Proof. split; [vm_compute; reflexivity|]. split; [vm_compute; reflexivity | exact cvt32_rel]. Qed.
