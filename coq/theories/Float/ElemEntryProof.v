(** C11: theorems about the entry logic (ElemEntry.v): which calls panic, and that every value the
    shortcuts return flagged Exact is the true real value. *)
From Coq Require Import Reals Lra.
From Dashu Require Import Base.Prelude Float.RoundSpec Float.Contract Float.Model Float.ElemEntry.
Open Scope Z_scope.

(** the real number denoted by the float (s, e) in base B *)
Definition fval (B s e : Z) : R := (IZR s * powerRZ (IZR B) e)%R.

Lemma fval_0 B e : fval B 0 e = 0%R.
Proof. unfold fval. lra. Qed.
Lemma fval_1_0 B : fval B 1 0 = 1%R.
Proof. unfold fval. cbn [powerRZ]. lra. Qed.

(** unlimited precision is refused *)
Theorem exp_entry_unlimited s mo : exp_entry 0 s mo = EPanic EPUnlimited.
Proof. reflexivity. Qed.

Theorem exp_entry_exact B p s e mo s' e' :
  exp_entry p s mo = EExact s' e' ->
  fval B s' e' = (if mo then exp (fval B s e) - 1 else exp (fval B s e))%R.
Proof.
  unfold exp_entry. destruct (p =? 0); [discriminate|].
  destruct (Z.eqb_spec s 0) as [->|]; [|discriminate].
  rewrite fval_0, exp_0. destruct mo; intros H; inversion H; subst.
  - rewrite fval_0. lra.
  - apply fval_1_0.
Qed.
