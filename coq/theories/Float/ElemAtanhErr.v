(** C11 round 5, piece (ii) of C11_exp_nearest_1ulp_partial, real-analysis layer: the series
        atanh z = z + z^3/3 + z^5/5 + ...   (log.rs Context::iacoth with z = 1/n, ln_internal with
        z = (x-1)/(x+1)),
    and the loop that sums it with rounded operations.

      atanh_tail        A_K(z) <= atanh z <= A_K(z) + t_(K+1)(z) / (1 - z^2)   for 0 <= z < 1
                        (A_K = partial sum, t_j = z^(2j+1)/(2j+1): first neglected term; atanh z =
                        (ln(1+z) - ln(1-z))/2).  No power-series theory: both inequalities are
                        monotonicity of a function whose derivative has a closed form
                        (1/(1-y^2) - sum_(j<=K) y^(2j) = y^(2K+2)/(1-y^2)), mean value theorem.
      ln2_atanh, ln10_atanh   the two Machin-like formulas of log.rs: ln 2 = 4 atanh(1/6) + 2 atanh(1/99),
                        ln 10 = 3 ln 2 + 2 atanh(1/9).
      AtTrace           the states (j, pow_j, sum_j) of
                            pow_(j+1) = fl(pow_j * z2),  inc_(j+1) = fl(pow_(j+1) / fl(2j+3)),
                            stop and return sum_j if inc_(j+1) < threshold, else sum_(j+1) = fl(sum_j + inc_(j+1))
                        started at pow_0 = sum_0 = zc, where zc approximates z with c0 roundings and z2
                        approximates z^2 with c2 roundings, every fl with relative error <= u <= 1/2.
      at_trace_RA       pow_j = z^(2j+1) (1+-u)^(c0 + j d),  sum_j = A_j(z) (1+-u)^(c0 + j d + 4),  d = c2 + 1
      at_series_error   |sum_K - atanh z| (1 - y) <= atanh z * y + 2 thr,  y = (c0 + (K+1) d + 3) u,
                        when the loop stops at K because the next increase is at most thr (z <= 1/3). *)
From Coq Require Import ZArith Reals Lra Lia Psatz.
From Coquelicot Require Import Coquelicot.
From Flocq Require Import Raux.
From Dashu Require Import Float.ElemPowiProof Float.ElemSeriesErr.
Open Scope R_scope.

(* ---------------------------------------------------------------- calculus *)
Lemma incr_from_deriv (f df : R -> R) (z : R) : 0 <= z ->
  (forall y, 0 <= y <= z -> is_derive f y (df y)) -> (forall y, 0 <= y <= z -> 0 <= df y) -> f 0 <= f z.
Proof.
  intros Hz Hd Hp.
  destruct (MVT_gen f 0 z df) as (c & Hc & E).
  - intros x Hx. apply Hd. rewrite Rmin_left, Rmax_right in Hx by lra. lra.
  - intros x Hx. rewrite Rmin_left, Rmax_right in Hx by lra.
    apply continuity_pt_filterlim. apply (ex_derive_continuous f x). exists (df x). apply Hd. lra.
  - rewrite Rmin_left, Rmax_right in Hc by lra. specialize (Hp c Hc). nra.
Qed.

Definition atanhR (z : R) : R := / 2 * (ln (1 + z) - ln (1 - z)).
Definition aterm (z : R) (j : nat) : R := z ^ S (2 * j) / INR (S (2 * j)).
Definition An (z : R) (K : nat) : R := sum_f_R0 (aterm z) K.
Definition dAn (y : R) (K : nat) : R := sum_f_R0 (fun j => y ^ (2 * j)) K.

Lemma atanhR_0 : atanhR 0 = 0.
Proof. unfold atanhR. rewrite Rplus_0_r, Rminus_0_r, ln_1. ring. Qed.

Lemma aterm_0 j : aterm 0 j = 0.
Proof. unfold aterm. rewrite pow_i by lia. unfold Rdiv. ring. Qed.

Lemma aterm_z0 z : aterm z 0 = z.
Proof. unfold aterm. change (S (2 * 0)) with 1%nat. cbn [pow INR]. field. Qed.

Lemma An_0 K : An 0 K = 0.
Proof. unfold An. induction K; cbn [sum_f_R0]; [apply aterm_0 | rewrite IHK, aterm_0; ring]. Qed.

Lemma aterm_nonneg z j : 0 <= z -> 0 <= aterm z j.
Proof.
  intros Hz. unfold aterm, Rdiv. apply Rmult_le_pos; [apply pow_le; exact Hz|].
  left. apply Rinv_0_lt_compat, lt_0_INR. lia.
Qed.

Lemma An_nonneg z K : 0 <= z -> 0 <= An z K.
Proof. intros Hz. unfold An. apply cond_pos_sum. intros j. apply aterm_nonneg. exact Hz. Qed.

Lemma An_S z K : An z (S K) = An z K + aterm z (S K).
Proof. reflexivity. Qed.

Lemma is_derive_powdiv n y : is_derive (fun y => y ^ S n / INR (S n)) y (y ^ n).
Proof.
  auto_derive; [trivial|]. cbn [Init.Nat.pred].
  assert (INR (S n) <> 0) by (apply not_0_INR; lia). field. assumption.
Qed.

Lemma is_derive_An K y : is_derive (fun y => An y K) y (dAn y K).
Proof.
  induction K as [|K IH].
  - unfold An, dAn. cbn [sum_f_R0]. unfold aterm. apply is_derive_powdiv.
  - unfold dAn. cbn [sum_f_R0]. fold (dAn y K).
    apply (is_derive_ext (fun y => plus (An y K) (aterm y (S K)))); [intros t; reflexivity|].
    apply (is_derive_plus (fun y => An y K) (fun y => aterm y (S K)) y (dAn y K) (y ^ (2 * S K))).
    + exact IH.
    + unfold aterm. apply is_derive_powdiv.
Qed.

Lemma dAn_geo y K : dAn y K * (1 - y * y) = 1 - y ^ (2 * S K).
Proof.
  induction K as [|K IH].
  - unfold dAn. cbn [sum_f_R0 Nat.mul Nat.add pow]. ring.
  - unfold dAn in *. cbn [sum_f_R0]. rewrite Rmult_plus_distr_r, IH.
    replace (2 * S (S K))%nat with (S (S (2 * S K))) by lia. cbn [pow]. ring.
Qed.

Lemma is_derive_atanhR y : -1 < y < 1 -> is_derive atanhR y (/ (1 - y * y)).
Proof. intros H. unfold atanhR. auto_derive; [lra|]. field. nra. Qed.

(** partial sums from below, the first neglected term over 1 - z^2 from above *)
Theorem atanh_tail z K : 0 <= z < 1 -> An z K <= atanhR z <= An z K + aterm z (S K) / (1 - z * z).
Proof.
  intros Hz. assert (Hzz : 0 < 1 - z * z) by nra. split.
  - (* f y = atanh y - A_K y is increasing *)
    pose proof (incr_from_deriv (fun y => atanhR y - An y K) (fun y => / (1 - y * y) - dAn y K) z (proj1 Hz)) as H.
    cbv beta in H. rewrite atanhR_0, An_0 in H.
    assert (0 - 0 <= atanhR z - An z K); [|lra]. apply H.
    + intros y Hy. apply (is_derive_minus atanhR (fun y => An y K) y); [apply is_derive_atanhR; lra | apply is_derive_An].
    + intros y Hy. assert (Hyy : 0 < 1 - y * y) by nra. pose proof (dAn_geo y K) as G.
      assert (E : / (1 - y * y) - dAn y K = y ^ (2 * S K) / (1 - y * y)).
      { apply (Rmult_eq_reg_r (1 - y * y)); [|lra]. unfold Rdiv. rewrite Rmult_minus_distr_r, G, Rinv_l by lra.
        rewrite Rmult_assoc, Rinv_l by lra. ring. }
      rewrite E. unfold Rdiv. apply Rmult_le_pos; [apply pow_le; lra | left; apply Rinv_0_lt_compat; lra].
  - (* g y = c * t_(K+1)(y) - f y is increasing on [0, z], c = 1 / (1 - z^2) *)
    set (c := / (1 - z * z)).
    pose proof (incr_from_deriv (fun y => c * aterm y (S K) - (atanhR y - An y K))
                  (fun y => c * y ^ (2 * S K) - (/ (1 - y * y) - dAn y K)) z (proj1 Hz)) as H.
    cbv beta in H. rewrite atanhR_0, An_0, aterm_0 in H.
    assert (c * 0 - (0 - 0) <= c * aterm z (S K) - (atanhR z - An z K)); [|unfold Rdiv; fold c; lra]. apply H.
    + intros y Hy.
      apply (is_derive_minus (fun y => c * aterm y (S K)) (fun y => atanhR y - An y K) y).
      * apply (is_derive_scal (fun y => aterm y (S K)) y c). unfold aterm. apply is_derive_powdiv.
      * apply (is_derive_minus atanhR (fun y => An y K) y); [apply is_derive_atanhR; lra | apply is_derive_An].
    + intros y Hy. assert (Hyy : 0 < 1 - y * y) by nra. pose proof (dAn_geo y K) as G.
      assert (E : / (1 - y * y) - dAn y K = y ^ (2 * S K) / (1 - y * y)).
      { apply (Rmult_eq_reg_r (1 - y * y)); [|lra]. unfold Rdiv. rewrite Rmult_minus_distr_r, G, Rinv_l by lra.
        rewrite Rmult_assoc, Rinv_l by lra. ring. }
      rewrite E. unfold Rdiv.
      assert (Hp : 0 <= y ^ (2 * S K)) by (apply pow_le; lra).
      assert (Hc : / (1 - y * y) <= c).
      { unfold c. apply Rinv_le_contravar; [lra|]. nra. }
      nra.
Qed.

(* ---------------------------------------------------------------- the formulas of log.rs *)
Lemma atanhR_inv n : 1 < n -> atanhR (/ n) = / 2 * (ln (n + 1) - ln (n - 1)).
Proof.
  intros Hn. unfold atanhR. f_equal.
  replace (1 + / n) with ((n + 1) / n) by (field; lra). replace (1 - / n) with ((n - 1) / n) by (field; lra).
  unfold Rdiv. rewrite !ln_mult; try lra; try (apply Rinv_0_lt_compat; lra).
Qed.

Theorem ln2_atanh : ln 2 = 4 * atanhR (/ 6) + 2 * atanhR (/ 99).
Proof.
  rewrite !atanhR_inv by lra.
  replace (6 + 1) with 7 by ring. replace (6 - 1) with 5 by ring.
  replace (99 + 1) with (2 * 2 * (5 * 5)) by ring. replace (99 - 1) with (2 * (7 * 7)) by ring.
  rewrite !ln_mult by lra. lra.
Qed.

Theorem ln10_atanh : ln 10 = 3 * ln 2 + 2 * atanhR (/ 9).
Proof.
  rewrite atanhR_inv by lra.
  replace (9 + 1) with 10 by ring. replace (9 - 1) with (2 * (2 * 2)) by ring.
  rewrite !ln_mult by lra. lra.
Qed.

Lemma log_formulas : ln 2 = 4 * atanhR (/ 6) + 2 * atanhR (/ 99) /\ ln 10 = 3 * ln 2 + 2 * atanhR (/ 9).
Proof. split; [exact ln2_atanh | exact ln10_atanh]. Qed.

(* ---------------------------------------------------------------- the rounded loop *)
Section Trace.
Variable u : R.
Hypothesis u0 : 0 <= u.
Hypothesis uh : u <= / 2.
Let u1 : u <= 1. Proof. lra. Qed.

(** the reciprocal of a rounding factor costs two factors *)
Lemma RA_inv_factor th : Rabs (th - 1) <= u -> RA u 2 1 (/ th).
Proof.
  intros H. apply Rabs_le_inv in H. exists (/ th). split; [ring|]. cbn [pow]. rewrite !Rmult_1_r.
  assert (Ht : 0 < th) by lra. split.
  - apply (Rmult_le_reg_r th); [exact Ht|]. rewrite Rinv_l by lra. nra.
  - apply (Rmult_le_reg_r th); [exact Ht|]. rewrite Rinv_l by lra. nra.
Qed.

Variables zc z2c : R.

Inductive AtTrace : nat -> R -> R -> Prop :=
| AT_init : AtTrace 0 zc zc
| AT_step j pw sm th1 thk th2 th3 : AtTrace j pw sm ->
    Rabs (th1 - 1) <= u -> Rabs (thk - 1) <= u -> Rabs (th2 - 1) <= u -> Rabs (th3 - 1) <= u ->
    AtTrace (S j) (pw * z2c * th1) ((sm + pw * z2c * th1 / (INR (S (2 * S j)) * thk) * th2) * th3).

Definition at_increase (pw : R) (j : nat) (th1 thk th2 : R) : R := pw * z2c * th1 / (INR (S (2 * S j)) * thk) * th2.

Variable z : R.
Hypothesis z0 : 0 <= z.
Variables c0 c2 : nat.
Hypothesis Hzc : RA u c0 z zc.
Hypothesis Hz2 : RA u c2 (z * z) z2c.
Let d := S c2.

Lemma at_increase_RA j pw th1 thk th2 : RA u (c0 + j * d) (z ^ S (2 * j)) pw ->
  Rabs (th1 - 1) <= u -> Rabs (thk - 1) <= u -> Rabs (th2 - 1) <= u ->
  RA u (c0 + S j * d + 3) (aterm z (S j)) (at_increase pw j th1 thk th2).
Proof.
  intros Hp H1 Hk H2. unfold at_increase, aterm.
  assert (Hn : INR (S (2 * S j)) <> 0) by (apply not_0_INR; lia).
  assert (Htk : thk <> 0) by (apply Rabs_le_inv in Hk; lra).
  replace (z ^ S (2 * S j) / INR (S (2 * S j))) with (z ^ S (2 * j) * (z * z) * (/ INR (S (2 * S j)) * 1))
    by (replace (S (2 * S j)) with (S (S (S (2 * j)))) by lia; cbn [pow]; field; replace (S (S (S (2 * j)))) with (S (2 * S j)) by lia; exact Hn).
  replace (pw * z2c * th1 / (INR (S (2 * S j)) * thk) * th2) with (pw * z2c * th1 * (/ INR (S (2 * S j)) * / thk) * th2)
    by (field; split; assumption).
  replace (c0 + S j * d + 3)%nat with (S (S (c0 + j * d + c2) + 2)) by (unfold d; lia).
  apply (RA_step u u0 u1); [|exact H2].
  apply (RA_mul u u0 u1 (S (c0 + j * d + c2)) 2).
  - apply (RA_step u u0 u1); [|exact H1]. apply (RA_mul u u0 u1); assumption.
  - destruct (RA_inv_factor thk Hk) as (t & Et & Bt). exists t. split; [|exact Bt]. rewrite Et. ring.
Qed.

Theorem at_trace_RA j pw sm : AtTrace j pw sm ->
  RA u (c0 + j * d) (z ^ S (2 * j)) pw /\ RA u (c0 + j * d + 4) (An z j) sm.
Proof.
  intros T. induction T as [| j pw sm th1 thk th2 th3 T IH H1 Hk H2 H3].
  - cbn [Nat.mul Nat.add pow]. rewrite Nat.add_0_r, Rmult_1_r. split; [exact Hzc|].
    apply (RA_mono u u0 u1 c0); [lia|]. unfold An. cbn [sum_f_R0]. rewrite aterm_z0. exact Hzc.
  - destruct IH as (Hp & Hs). split.
    + replace (z ^ S (2 * S j)) with (z ^ S (2 * j) * (z * z)) by (replace (S (2 * S j)) with (S (S (S (2 * j)))) by lia; cbn [pow]; ring).
      replace (c0 + S j * d)%nat with (S (c0 + j * d + c2)) by (unfold d; lia).
      apply (RA_step u u0 u1); [|exact H1]. apply (RA_mul u u0 u1); assumption.
    + rewrite An_S. replace (c0 + S j * d + 4)%nat with (S (c0 + S j * d + 3)) by lia.
      apply (RA_step u u0 u1); [|exact H3].
      apply (RA_add u u0 u1).
      * apply An_nonneg. exact z0.
      * apply aterm_nonneg. exact z0.
      * apply (RA_mono u u0 u1 (c0 + j * d + 4)); [unfold d; lia | exact Hs].
      * apply (at_increase_RA j pw th1 thk th2 Hp H1 Hk H2).
Qed.

(** the value the loop returns when it stops after K additions because the next increase is at most thr *)
Theorem at_series_error K pw sm th1 thk th2 thr : z <= / 3 -> AtTrace K pw sm ->
  Rabs (th1 - 1) <= u -> Rabs (thk - 1) <= u -> Rabs (th2 - 1) <= u ->
  Rabs (at_increase pw K th1 thk th2) <= thr ->
  let c := (c0 + S K * d + 3)%nat in
  INR c * u < 1 ->
  Rabs (sm - atanhR z) * (1 - INR c * u) <= atanhR z * (INR c * u) + 2 * thr.
Proof.
  intros Hz3 T H1 Hk H2 Hthr c Hcu.
  destruct (at_trace_RA K pw sm T) as (Hp & Hs).
  pose proof (at_increase_RA K pw th1 thk th2 Hp H1 Hk H2) as Hi. fold c in Hi.
  pose proof (atanh_tail z K ltac:(lra)) as [TL TU].
  set (y := INR c * u) in *.
  assert (Hy0 : 0 <= y) by (unfold y; pose proof (pos_INR c); nra).
  assert (HT0 : 0 <= An z K) by (apply An_nonneg; exact z0).
  assert (Hs' : RA u c (An z K) sm) by (apply (RA_mono u u0 u1 (c0 + K * d + 4)); [unfold c, d; lia | exact Hs]).
  pose proof (RA_dist u u0 u1 c (An z K) sm Hcu Hs') as Hd. fold y in Hd. rewrite (Rabs_pos_eq (An z K)) in Hd by exact HT0.
  assert (Ha0 : 0 <= aterm z (S K)) by (apply aterm_nonneg; exact z0).
  assert (Ha : aterm z (S K) * (1 - y) <= thr).
  { destruct Hi as (th & E & L & _). rewrite E in Hthr.
    pose proof (bernoulli_minus u u1 c) as Bm. fold y in Bm.
    assert (0 <= th) by lra. rewrite Rabs_mult, (Rabs_pos_eq (aterm z (S K))), (Rabs_pos_eq th) in Hthr by assumption.
    nra. }
  assert (Htail : atanhR z - An z K <= 2 * aterm z (S K)).
  { assert (/ (1 - z * z) <= 2).
    { rewrite <- (Rinv_inv 2). apply Rinv_le_contravar; [lra|]. nra. }
    unfold Rdiv in TU. nra. }
  assert (Htri : Rabs (sm - atanhR z) <= Rabs (sm - An z K) + (atanhR z - An z K)).
  { replace (sm - atanhR z) with ((sm - An z K) + - (atanhR z - An z K)) by ring.
    eapply Rle_trans; [apply Rabs_triang|]. rewrite Rabs_Ropp, (Rabs_pos_eq (atanhR z - An z K)) by lra. lra. }
  pose proof (Rabs_pos (sm - An z K)).
  assert (Rabs (sm - atanhR z) * (1 - y) <= (Rabs (sm - An z K) + (atanhR z - An z K)) * (1 - y))
    by (apply Rmult_le_compat_r; lra).
  nra.
Qed.

End Trace.

Example at_series_error_example :
  AtTrace (/ 4) (/ 6) (/ 36) 0 (/ 6) (/ 6) /\ (0 <= / 3 <= / 3)%R /\ RA (/ 4) 0 (/ 6) (/ 6).
Proof. split; [apply AT_init|]. split; [lra | apply RA_refl]. Qed.
