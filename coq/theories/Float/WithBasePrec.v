(** C08: FBig::with_base chooses the target precision as
      (B^p).log2_bounds().0 / NewB.log2_bounds().1            (an f32 division)  as usize  (truncation).
    As-is model of the division (IEEE binary32, round to nearest even, normal range) and of the choice.
    Definitions only (proofs: WithBasePrecProof.v). *)
From Coq Require Import ZArith Bool.
Open Scope Z_scope.

(** a positive finite binary32 pattern as (m, e): the value m * 2^e *)
Definition f32_pos_decode (bits : Z) : option (Z * Z) :=
  let ex := (bits / 2 ^ 23) mod 256 in
  let fr := bits mod 2 ^ 23 in
  if (bits <=? 0) || (2 ^ 31 <=? bits) || (ex =? 255) then None
  else Some (if ex =? 0 then (fr, -149) else (fr + 2 ^ 23, ex - 150)).

(** the quotient of two positive dyadic numbers rounded to 24 significant bits, ties to even
    (no overflow / underflow: the quotients met here lie between 2^-3 and 2^32) *)
Definition f32_div_rne (m1 e1 m2 e2 : Z) : Z * Z :=
  let t := Z.max 0 (26 + Z.log2 m2 - Z.log2 m1) in
  let Q := (m1 * 2 ^ t) / m2 in
  let Rm := (m1 * 2 ^ t) mod m2 in
  let d := Z.log2 Q + 1 - 24 in
  let hi := Q / 2 ^ d in
  let lo := Q mod 2 ^ d in
  let half := 2 ^ (d - 1) in
  let up := (half <? lo) || ((lo =? half) && (negb (Rm =? 0) || Z.odd hi)) in
  ((if up then hi + 1 else hi), e1 - e2 - t + d).

(** [as usize] of a non-negative value m * 2^e *)
Definition dy_floor (m e : Z) : Z := if 0 <=? e then m * 2 ^ e else m / 2 ^ (- e).

(** are the two dyadic numbers equal? *)
Definition dy_eqb (m1 e1 m2 e2 : Z) : bool :=
  if e1 <=? e2 then m1 =? m2 * 2 ^ (e2 - e1) else m1 * 2 ^ (e1 - e2) =? m2.

(** the precision with_base chooses, from the bit patterns of the two bounds *)
Definition with_base_prec_code (lb_bits ub_bits : Z) : option (Z * Z * Z) :=
  match f32_pos_decode lb_bits, f32_pos_decode ub_bits with
  | Some (m1, e1), Some (m2, e2) =>
      let '(qm, qe) := f32_div_rne m1 e1 m2 e2 in Some (qm, qe, dy_floor qm qe)
  | _, _ => None
  end.

(** lb = m1 * 2^e1 and ub = m2 * 2^e2 at the common scale 2^T, T = max (0, -e1, -e2): lb / ub = wb_L / wb_U,
    both integers (used by WithBasePrecRule.v and by the oracle) *)
Definition wb_scale (e1 e2 : Z) : Z := Z.max 0 (Z.max (- e1) (- e2)).
Definition wb_L (m1 e1 e2 : Z) : Z := m1 * 2 ^ (e1 + wb_scale e1 e2).
Definition wb_U (e1 m2 e2 : Z) : Z := m2 * 2 ^ (e2 + wb_scale e1 e2).
