(** C03 round 3: Context::mul / sqr / cubic / div for operands LONGER than the precision.

    The pre-shrinking thresholds of the code (2p digits for mul and sqr, 3p for cubic, p + digits(rhs) for
    the dividend) are exactly the lengths up to which the operation is ONE rounding of the exact result:
    up to them the documented contract holds as for operands that fit ([rounded_sum] of the exact product,
    [rounded_quot] of the exact quotient); beyond them the operand is rounded first and the result is
    rounded a second time (finding overlong_operand_double_rounding, witnesses below). *)
From Dashu Require Import Base.Prelude Float.RoundSpec Float.RoundTablesProof Float.RoundSpecProof
  Float.Contract Float.Model Float.ModelProof Float.AddModel Float.AddModelProof Float.DivMulModel
  Float.DivMulProof Float.LongModel.
From DashuGen Require Import RoundTables.
From Coq Require Import ZifyBool.
Open Scope Z_scope.

Section MulDivLong.
Variable B : Z.
Hypothesis B_ge_2 : 2 <= B.

Theorem ctx_mul_long p m s1 e1 s2 e2 : 1 <= p -> mul_long_class B p s1 s2 = false ->
  ctx_mul B p m s1 e1 s2 e2 = (let '(s, e) := normalize B (s1 * s2) (e1 + e2) in repr_round B p m s e) /\
  rounded_sum B p m (s1 * s2) (e1 + e2) (ctx_mul B p m s1 e1 s2 e2).
Proof.
  intros Hp Hc. unfold mul_long_class in Hc.
  destruct (Z.eqb_spec p 0) as [|_]; [lia|]. cbn [negb andb] in Hc. apply Bool.orb_false_iff in Hc. destruct Hc as [H1 H2].
  assert (E : ctx_mul B p m s1 e1 s2 e2 = (let '(s, e) := normalize B (s1 * s2) (e1 + e2) in repr_round B p m s e)).
  { unfold ctx_mul, shrink. destruct (Z.eqb_spec p 0); [lia|]. rewrite H1, H2. reflexivity. }
  split; [exact E|]. rewrite E. apply (equal_exp_rounded B B_ge_2). exact Hp.
Qed.

Theorem ctx_sqr_long p m s e : 1 <= p -> sqr_long_class B p s = false ->
  ctx_sqr B p m s e = (let '(s', e') := normalize B (s * s) (2 * e) in repr_round B p m s' e') /\
  rounded_sum B p m (s * s) (2 * e) (ctx_sqr B p m s e).
Proof.
  intros Hp Hc. unfold sqr_long_class in Hc.
  destruct (Z.eqb_spec p 0) as [|_]; [lia|]. cbn [negb andb] in Hc.
  assert (E : ctx_sqr B p m s e = (let '(s', e') := normalize B (s * s) (2 * e) in repr_round B p m s' e')).
  { unfold ctx_sqr, shrink. destruct (Z.eqb_spec p 0); [lia|]. rewrite Hc. reflexivity. }
  split; [exact E|]. rewrite E. apply (equal_exp_rounded B B_ge_2). exact Hp.
Qed.

Theorem ctx_cubic_long p m s e : 1 <= p -> cubic_long_class B p s = false ->
  ctx_cubic B p m s e = (let '(s', e') := normalize B (s * s * s) (3 * e) in repr_round B p m s' e') /\
  rounded_sum B p m (s * s * s) (3 * e) (ctx_cubic B p m s e).
Proof.
  intros Hp Hc. unfold cubic_long_class in Hc.
  destruct (Z.eqb_spec p 0) as [|_]; [lia|]. cbn [negb andb] in Hc.
  assert (E : ctx_cubic B p m s e = (let '(s', e') := normalize B (s * s * s) (3 * e) in repr_round B p m s' e')).
  { unfold ctx_cubic, shrink. destruct (Z.eqb_spec p 0); [lia|]. rewrite Hc. reflexivity. }
  split; [exact E|]. rewrite E. apply (equal_exp_rounded B B_ge_2). exact Hp.
Qed.

(** Context::div: any divisor, a dividend of up to p + digits(divisor) digits, any digit estimates *)
Theorem ctx_div_long digits_ub digits_lb p m s1 e1 s2 e2 : 1 <= p -> s2 <> 0 -> div_long_class B p s1 s2 = false ->
  let k := repr_div_shift B p s1 s2 in
  0 <= k /\
  exists a, ctx_div B digits_ub digits_lb p m s1 e1 s2 e2 = Ok a /\ approx_exp a = e1 - e2 - k /\
    rounded_quot B p m (Z.sgn s2 * (s1 * B ^ k)) (Z.abs s2) a.
Proof.
  intros Hp Hs Hc. unfold div_long_class in Hc. rewrite Z.gtb_ltb in Hc. apply Z.ltb_ge in Hc.
  rewrite (ctx_div_eq B) by exact Hc. apply (repr_div_rounded B B_ge_2); assumption.
Qed.

(** beyond the thresholds the operand is rounded first, whatever the digit estimates say (they are sound) *)
Theorem ctx_div_long_shrinks digits_ub digits_lb p m s1 e1 s2 e2 :
  0 <= p -> (forall s, dlen B s <= digits_ub s) -> (forall s, digits_lb s <= dlen B s) ->
  div_long_class B p s1 s2 = true ->
  ctx_div B digits_ub digits_lb p m s1 e1 s2 e2 =
  (let '(s1', e1') := approx_val (repr_round B (dlen B s2 + p) m s1 e1) in repr_div B p m s1' e1' s2 e2).
Proof.
  intros Hp Hub Hlb Hc. unfold div_long_class in Hc. rewrite Z.gtb_ltb in Hc. apply Z.ltb_lt in Hc. unfold ctx_div.
  pose proof (dlen_nonneg B B_ge_2 s2).
  destruct (Z.eqb_spec s1 0) as [->|Hn]; [rewrite dlen_zero in Hc; lia|]. cbn [negb andb].
  destruct (Z.gtb_spec (digits_ub s1) (digits_lb s2 + p)) as [|Hle]; [reflexivity|].
  specialize (Hub s1). specialize (Hlb s2). lia.
Qed.

End MulDivLong.

(** finding overlong_operand_double_rounding: at one digit, ties to even, 149 * 1 = 2e2 (149 -> 15e1 -> 2e2; one
    rounding gives 1e2), 149 / 1 = 15e1 flagged Exact, 123^2 = 1e4 (15129 rounds to 2e4), 1145^3 = 1e9
    (1501123625 rounds to 2e9); none of them is the rounding of the exact result *)
Lemma overlong_double_rounding_refuted :
  mul_long_class 10 1 149 1 = true /\ ctx_mul 10 1 MHalfEven 149 0 1 0 = AInexact 2 2 AddOne /\
  ~ rounded_sum 10 1 MHalfEven (149 * 1) 0 (AInexact 2 2 AddOne) /\
  div_long_class 10 1 149 1 = true /\ ctx_div_x 10 1 MHalfEven 149 0 1 0 = Ok (AExact 15 1) /\ 15 * 10 ^ 1 <> 149 /\
  sqr_long_class 10 1 123 = true /\ ctx_sqr 10 1 MHalfEven 123 0 = AInexact 1 4 NoOp /\
  ~ rounded_sum 10 1 MHalfEven (123 * 123) 0 (AInexact 1 4 NoOp) /\
  cubic_long_class 10 1 1145 = true /\ ctx_cubic 10 1 MHalfEven 1145 0 = AInexact 1 9 NoOp /\
  ~ rounded_sum 10 1 MHalfEven (1145 * 1145 * 1145) 0 (AInexact 1 9 NoOp).
Proof.
  repeat split; try (vm_compute; reflexivity); try (vm_compute; discriminate);
    cbn [rounded_sum]; intros (_ & _ & H & _); revert H; vm_compute; discriminate.
Qed.

(** non-vacuity: operands longer than p but within the thresholds *)
Example mul_long_nonvacuous :
  mul_long_class 10 2 1234 567 = false /\ ctx_mul 10 2 MHalfEven 1234 0 567 0 = AInexact 70 4 AddOne /\
  sqr_long_class 10 2 1234 = false /\ cubic_long_class 10 2 123456 = false /\
  div_long_class 10 2 12345 678 = false /\ ctx_div_x 10 2 MHalfEven 12345 0 678 0 = Ok (AInexact 18 0 NoOp).
Proof. vm_compute. repeat split; discriminate. Qed.
