(** As-is models, definitions only (proofs: FilterProof.v, DivMulProof.v):
    - Round::round_fract WITH its f32 log2 pre-filter (float/src/round.rs),
    - Context::div (with the pre-shrinking of an over-long dividend), Context::inv (float/src/div.rs),
    - the FBig operator bodies of [*] (float/src/mul.rs) and [/] (float/src/div.rs) in every ownership
      form, with Context::max of the two operand precisions, and the conversion FBig::from of a
      primitive / big-integer operand (float/src/convert.rs, fbig.rs from_parts).
    A float is (s, e) = s * B^e; IBig arithmetic is Z arithmetic. *)
From Coq Require Import QArith.
From Dashu Require Import Base.Prelude Float.RoundSpec Float.Contract Float.Model Float.AddModel.
From DashuGen Require Import RoundTables.
Open Scope Z_scope.

(* ------------------------------------------------------------------ round_fract with its pre-filter *)
Section Filter.
Variable B : Z.
(** what the two f32 comparisons of the closure [test] answer for (|fract|, precision):
      lb + 0.999 > b_ub * precision        (coarse "greater than one half")
      ub + 1.001 < b_lb * precision        (coarse "less than one half")                     *)
Variable coarse_gt coarse_lt : Z -> Z -> bool.

(** the closure [test] of Round::round_fract: coarse comparison first, exact comparison otherwise *)
Definition half_test (fmag k : Z) : comparison :=
  if coarse_gt fmag k then Gt
  else if coarse_lt fmag k then Lt
  else (2 * fmag ?= B ^ k).

Definition round_fract_filtered (m : mode) (i fract k : Z) : rounding :=
  if fract =? 0 then NoOp
  else round_low_part m i (sign_of fract) (half_test (Z.abs fract) k).
End Filter.

(** the coarse comparisons as the code computes them.  f32 values are dyadic rationals, so Q carries
    them exactly; [fl] is the rounding of an exact sum / product to f32 (IEEE round-to-nearest),
    [cvt] is [precision as f32], [lb]/[ub] are UBig::log2_bounds of |fract|, [b_lb]/[b_ub] are
    Word::log2_bounds of the base, [c999]/[c1001] the two literals. *)
Section F32Filter.
Variable fl : Q -> Q.
Variable cvt : Z -> Q.
Variable lb ub : Z -> Q.
Variable b_lb b_ub : Q.
Variable c999 c1001 : Q.

Definition f32_gt (fmag k : Z) : bool :=            (* lb + 0.999 > b_ub * precision as f32 *)
  negb (Qle_bool (fl (lb fmag + c999)) (fl (b_ub * cvt k))).
Definition f32_lt (fmag k : Z) : bool :=            (* ub + 1.001 < b_lb * precision as f32 *)
  negb (Qle_bool (fl (b_lb * cvt k)) (fl (ub fmag + c1001))).

Definition round_fract_f32 (B : Z) := round_fract_filtered B f32_gt f32_lt.
End F32Filter.

(* ------------------------------------------------------------------ division, inverse, operators *)
Section DivMul.
Variable B : Z.
(** Repr::digits_ub / Repr::digits_lb: fast estimates through f32 log2 bounds, abstract here *)
Variable digits_ub digits_lb : Z -> Z.

Definition map_val (r : result approx) : result (Z * Z) :=       (* .value() under the Result *)
  match r with Ok a => Ok (approx_val a) | Panic c => Panic c | Err c => Err c | OutOfFuel => OutOfFuel end.

(** Context::div: an over-long dividend is first rounded to digits(rhs) + precision digits *)
Definition ctx_div (p : Z) (m : mode) (s1 e1 s2 e2 : Z) : result approx :=
  let '(s1', e1') :=
    if negb (s1 =? 0) && (digits_ub s1 >? digits_lb s2 + p)
    then approx_val (repr_round B (dlen B s2 + p) m s1 e1)
    else (s1, e1) in
  repr_div B p m s1' e1' s2 e2.

(** Context::inv *)
Definition ctx_inv (p : Z) (m : mode) (s e : Z) : result approx := repr_div B p m 1 0 s e.

(** FBig * FBig, the four hand-written bodies (val*val, val*ref, ref*val, ref*ref are the same
    expression up to borrowing): Repr::new of the exact product, one repr_round at Context::max *)
Definition fbig_mul (p1 p2 : Z) (m : mode) (s1 e1 s2 e2 : Z) : Z * Z :=
  let p := ctx_max p1 p2 in
  let '(s, e) := normalize B (s1 * s2) (e1 + e2) in
  approx_val (repr_round B p m s e).
Definition mul_val_val := fbig_mul.
Definition mul_val_ref := fbig_mul.
Definition mul_ref_val := fbig_mul.
Definition mul_ref_ref := fbig_mul.

(** FBig / FBig, macro impl_div_or_rem_for_fbig: repr_div at Context::max, in all four forms (the
    forms differ only in which operand is cloned) *)
Definition fbig_div (p1 p2 : Z) (m : mode) (s1 e1 s2 e2 : Z) : result (Z * Z) :=
  map_val (repr_div B (ctx_max p1 p2) m s1 e1 s2 e2).
Definition div_val_val := fbig_div.
Definition div_val_ref := fbig_div.
Definition div_ref_val := fbig_div.
Definition div_ref_ref := fbig_div.

(** FBig::from(n) for a primitive / UBig / IBig operand = from_parts(n, 0): precision
    max(digits n, 1), significand normalised by Repr::new *)
Definition prim_prec (n : Z) : Z := Z.max (dlen B n) 1.
Definition prim_repr (n : Z) : Z * Z := normalize B n 0.

Definition mul_float_prim (p : Z) (m : mode) (s e n : Z) : Z * Z :=
  let '(sn, en) := prim_repr n in fbig_mul p (prim_prec n) m s e sn en.
Definition mul_prim_float (p : Z) (m : mode) (n s e : Z) : Z * Z :=
  let '(sn, en) := prim_repr n in fbig_mul (prim_prec n) p m sn en s e.
Definition div_float_prim (p : Z) (m : mode) (s e n : Z) : result (Z * Z) :=
  let '(sn, en) := prim_repr n in fbig_div p (prim_prec n) m s e sn en.
Definition div_prim_float (p : Z) (m : mode) (n s e : Z) : result (Z * Z) :=
  let '(sn, en) := prim_repr n in fbig_div (prim_prec n) p m sn en s e.
End DivMul.

(** instances for the oracle: exact digit count, and the worst admissible estimates
    (over-estimate + 1, under-estimate 0) *)
Definition ctx_div_x (B : Z) := ctx_div B (dlen B) (dlen B).
Definition ctx_div_x1 (B : Z) := ctx_div B (fun s => dlen B s + 1) (fun _ => 0).
(** round_fract with the loosest filter (never decides) and with the sharpest sound filter (always
    decides when the comparison is strict) *)
Definition round_fract_sharp (B : Z) :=
  round_fract_filtered B (fun f k => B ^ k <? 2 * f) (fun f k => 2 * f <? B ^ k).
