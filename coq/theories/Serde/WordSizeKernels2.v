(** C19 (deepening round 3) - word-size independence, continued: bit operations / shifts / counts (C09),
    radix conversion and bytes (C07), the modular ring (C13), the square root (C12).  See WordSizeKernels.v. *)
From Dashu Require Import Base.Prelude Base.Words Int.BitsSpec Int.BitsSign Int.BitsWords
  Int.BitsKernels Int.BitsKernelsBase Int.BitsLogicProofs Int.BitsShiftProofs
  Int.BitsMiscProofs Int.BitsCountProofs Int.BitsSignedProofs Int.BitsTrailProofs.
From Dashu Require Import Int.IoSpec Int.IoModel Int.IoPow2 Int.IoBytes Int.IoTop Int.IoBytesAsIs Int.IoChunks Int.IoBytesBEModel Int.IoBytesBE.
From Dashu Require Import Int.ModRingSpec Int.ModRingPowModel Int.ModRingModel Int.ModRingProofs
  Int.DivNumModular Int.ModRingNumModular.
From Dashu Require Import Int.GrlSpec Int.GrlKsqrt Int.GrlKsqrtProof.
From Dashu Require Import Serde.WordRunsModel.
Open Scope Z_scope.

(** ** C09 *)
Section Bits.
Variables w1 w2 : Z.
Hypothesis H1 : 0 < w1.
Hypothesis H2 : 0 < w2.

(** & | ^ and_not of magnitudes: Small/Large dispatch (inline = at most TWO WORDS, i.e. 128 resp. 64 bits),
    which buffer is kept, truncation - the value does not depend on it *)
Theorem repr_bitops_ws_independent : forall o1 o2 a1 b1 a2 b2,
  brepr_ok w1 a1 -> brepr_ok w1 b1 -> brepr_ok w2 a2 -> brepr_ok w2 b2 ->
  bvalue w1 a1 = bvalue w2 a2 -> bvalue w1 b1 = bvalue w2 b2 ->
  bvalue w1 (repr_bitand w1 o1 a1 b1) = bvalue w2 (repr_bitand w2 o2 a2 b2) /\
  bvalue w1 (repr_bitor w1 o1 a1 b1) = bvalue w2 (repr_bitor w2 o2 a2 b2) /\
  bvalue w1 (repr_bitxor w1 o1 a1 b1) = bvalue w2 (repr_bitxor w2 o2 a2 b2) /\
  bvalue w1 (repr_and_not w1 a1 b1) = bvalue w2 (repr_and_not w2 a2 b2).
Proof.
  intros o1 o2 a1 b1 a2 b2 A1 B1 A2 B2 Ea Eb.
  rewrite (proj1 (repr_bitand_correct w1 H1 o1 a1 b1 A1 B1)), (proj1 (repr_bitand_correct w2 H2 o2 a2 b2 A2 B2)).
  rewrite (proj1 (repr_bitor_correct w1 H1 o1 a1 b1 A1 B1)), (proj1 (repr_bitor_correct w2 H2 o2 a2 b2 A2 B2)).
  rewrite (proj1 (repr_bitxor_correct w1 H1 o1 a1 b1 A1 B1)), (proj1 (repr_bitxor_correct w2 H2 o2 a2 b2 A2 B2)).
  rewrite (proj1 (repr_and_not_correct w1 H1 a1 b1 A1 B1)), (proj1 (repr_and_not_correct w2 H2 a2 b2 A2 B2)).
  rewrite Ea, Eb. repeat split; reflexivity.
Qed.

(** IBig & | ^ (two's complement through the sign tables over the word-level kernels) *)
Theorem ibig_bitops_ws_independent : forall o1 o2 s0 s1 a1 b1 a2 b2,
  mag_ok w1 s0 a1 -> mag_ok w1 s1 b1 -> mag_ok w2 s0 a2 -> mag_ok w2 s1 b2 ->
  bvalue w1 a1 = bvalue w2 a2 -> bvalue w1 b1 = bvalue w2 b2 ->
  ibig_bitand_asis w1 o1 s0 a1 s1 b1 = ibig_bitand_asis w2 o2 s0 a2 s1 b2 /\
  ibig_bitor_asis w1 o1 s0 a1 s1 b1 = ibig_bitor_asis w2 o2 s0 a2 s1 b2 /\
  ibig_bitxor_asis w1 o1 s0 a1 s1 b1 = ibig_bitxor_asis w2 o2 s0 a2 s1 b2.
Proof.
  intros o1 o2 s0 s1 a1 b1 a2 b2 A1 B1 A2 B2 Ea Eb.
  destruct (ibig_bitops_asis_correct w1 H1 o1 s0 a1 s1 b1 A1 B1) as (P1 & Q1 & R1).
  destruct (ibig_bitops_asis_correct w2 H2 o2 s0 a2 s1 b2 A2 B2) as (P2 & Q2 & R2).
  rewrite P1, P2, Q1, Q2, R1, R2, Ea, Eb. repeat split; reflexivity.
Qed.

(** << and >>: the shift count is split into rhs / WORD_BITS whole words and rhs % WORD_BITS bits *)
Theorem shifts_ws_independent : forall cap1 cap2 s r1 r2 n, 0 <= n -> brepr_ok w1 r1 -> brepr_ok w2 r2 ->
  bvalue w1 r1 = bvalue w2 r2 ->
  bvalue w1 (repr_shl w1 cap1 r1 n) = bvalue w2 (repr_shl w2 cap2 r2 n) /\
  bvalue w1 (repr_shr w1 r1 n) = bvalue w2 (repr_shr w2 r2 n) /\
  ibig_shl_asis w1 s cap1 r1 n = ibig_shl_asis w2 s cap2 r2 n /\
  ibig_shr_asis w1 s r1 n = ibig_shr_asis w2 s r2 n /\
  are_low_bits_nonzero w1 r1 n = are_low_bits_nonzero w2 r2 n.
Proof.
  intros cap1 cap2 s r1 r2 n Hn R1 R2 E.
  rewrite (proj1 (repr_shl_correct w1 H1 cap1 r1 n Hn R1)), (proj1 (repr_shl_correct w2 H2 cap2 r2 n Hn R2)).
  rewrite (proj1 (repr_shr_correct w1 H1 r1 n Hn R1)), (proj1 (repr_shr_correct w2 H2 r2 n Hn R2)).
  rewrite (ibig_shl_asis_correct w1 H1 s cap1 r1 n Hn R1), (ibig_shl_asis_correct w2 H2 s cap2 r2 n Hn R2).
  rewrite (proj1 (ibig_shr_asis_correct w1 H1 s r1 n Hn R1)), (proj1 (ibig_shr_asis_correct w2 H2 s r2 n Hn R2)).
  rewrite (are_low_bits_nonzero_correct w1 H1 r1 n Hn R1), (are_low_bits_nonzero_correct w2 H2 r2 n Hn R2).
  rewrite E. repeat split; reflexivity.
Qed.

(** bit length, counts, trailing zeros / ones, power-of-two tests, single bits *)
Theorem bit_queries_ws_independent : forall r1 r2 n, 0 <= n -> brepr_ok w1 r1 -> brepr_ok w2 r2 ->
  bvalue w1 r1 = bvalue w2 r2 ->
  repr_bit_len w1 r1 = repr_bit_len w2 r2 /\ repr_count_ones r1 = repr_count_ones r2 /\
  repr_trailing_zeros w1 r1 = repr_trailing_zeros w2 r2 /\ repr_trailing_ones w1 r1 = repr_trailing_ones w2 r2 /\
  repr_is_power_of_two r1 = repr_is_power_of_two r2 /\
  bvalue w1 (repr_next_power_of_two w1 r1) = bvalue w2 (repr_next_power_of_two w2 r2) /\
  repr_bit w1 r1 n = repr_bit w2 r2 n /\
  bvalue w1 (repr_set_bit w1 r1 n) = bvalue w2 (repr_set_bit w2 r2 n) /\
  bvalue w1 (repr_clear_bit w1 r1 n) = bvalue w2 (repr_clear_bit w2 r2 n) /\
  bvalue w1 (repr_clear_high_bits w1 r1 n) = bvalue w2 (repr_clear_high_bits w2 r2 n).
Proof.
  intros r1 r2 n Hn R1 R2 E.
  rewrite (repr_bit_len_correct w1 H1 r1 R1), (repr_bit_len_correct w2 H2 r2 R2).
  rewrite (repr_count_ones_correct w1 H1 r1 R1), (repr_count_ones_correct w2 H2 r2 R2).
  rewrite (repr_trailing_zeros_correct w1 H1 r1 R1), (repr_trailing_zeros_correct w2 H2 r2 R2).
  rewrite (repr_is_power_of_two_correct w1 H1 r1 R1), (repr_is_power_of_two_correct w2 H2 r2 R2).
  rewrite (proj1 (repr_next_power_of_two_correct w1 H1 r1 R1)), (proj1 (repr_next_power_of_two_correct w2 H2 r2 R2)).
  rewrite (repr_bit_correct w1 H1 r1 n Hn R1), (repr_bit_correct w2 H2 r2 n Hn R2).
  rewrite (proj1 (repr_set_bit_correct w1 H1 r1 n Hn R1)), (proj1 (repr_set_bit_correct w2 H2 r2 n Hn R2)).
  rewrite (proj1 (repr_clear_bit_correct w1 H1 r1 n Hn R1)), (proj1 (repr_clear_bit_correct w2 H2 r2 n Hn R2)).
  rewrite (proj1 (repr_clear_high_bits_correct w1 H1 r1 n Hn R1)), (proj1 (repr_clear_high_bits_correct w2 H2 r2 n Hn R2)).
  pose proof (repr_trailing_ones_correct w1 H1 r1 R1) as T1. pose proof (repr_trailing_ones_correct w2 H2 r2 R2) as T2.
  rewrite E in *. rewrite T1 in T2. injection T2 as T2. rewrite T2. repeat split; reflexivity.
Qed.
End Bits.

(** ** C07: text in a radix and bytes.  digits per word (radix_info: 19 decimal digits per 64-bit word, 9 per
    32-bit word), the chunk lengths counted in words, the SWAR chunk of WORD_BYTES digits all depend on the
    word size; the text does not *)
Definition io_w_ok (w : Z) : Prop := 0 < w /\ w mod 2 = 0 /\ 36 < Bw w.

Theorem text_ws_independent : forall w1 w2, io_w_ok w1 -> io_w_ok w2 ->
  (forall k f v, fmt_asis w1 k f v = fmt_asis w2 k f v) /\
  (forall sg r s, from_str_radix_asis w1 sg r s = from_str_radix_asis w2 sg r s) /\
  (forall sg default s, 2 <= default <= 36 -> from_str_prefix_asis w1 sg default s = from_str_prefix_asis w2 sg default s).
Proof.
  intros w1 w2 (A1 & B1 & C1) (A2 & B2 & C2). split; [|split].
  - intros. rewrite (fmt_asis_correct w1 k f v A1 B1 C1), (fmt_asis_correct w2 k f v A2 B2 C2). reflexivity.
  - intros. rewrite (from_str_radix_asis_correct w1 sg r s A1 B1 C1), (from_str_radix_asis_correct w2 sg r s A2 B2 C2). reflexivity.
  - intros sg d s Hd. rewrite (from_str_prefix_asis_correct w1 sg d s A1 B1 C1 Hd), (from_str_prefix_asis_correct w2 sg d s A2 B2 C2 Hd). reflexivity.
Qed.

Theorem bytes_ws_independent : forall w1 w2, 0 < w1 -> w1 mod 8 = 0 -> 0 < w2 -> w2 mod 8 = 0 ->
  (forall m, 0 <= m -> to_le_bytes_asis w1 m = to_le_bytes_asis w2 m /\ to_be_bytes_asis w1 m = to_be_bytes_asis w2 m) /\
  (forall v, to_signed_le_bytes_asis w1 v = to_signed_le_bytes_asis w2 v /\
             to_signed_be_bytes_asis w1 v = to_signed_be_bytes_asis w2 v) /\
  (forall bs, from_le_bytes_asis w1 bs = from_le_bytes_asis w2 bs /\ from_be_bytes_asis w1 bs = from_be_bytes_asis w2 bs) /\
  (forall bs, bytes_ok bs -> from_signed_le_bytes_asis w1 bs = from_signed_le_bytes_asis w2 bs /\
                             from_signed_be_bytes_asis w1 bs = from_signed_be_bytes_asis w2 bs) /\
  (forall v cb, 0 <= v -> 0 < cb -> to_chunks_asis w1 v cb = to_chunks_asis w2 v cb) /\
  (forall cb cs, 0 <= cb -> from_chunks_asis w1 cb cs = from_chunks_asis w2 cb cs).
Proof.
  intros w1 w2 A1 B1 A2 B2. repeat split; intros.
  - rewrite (to_le_bytes_asis_correct w1 A1 B1 m H), (to_le_bytes_asis_correct w2 A2 B2 m H). reflexivity.
  - rewrite (to_be_bytes_asis_correct w1 m A1 B1 H), (to_be_bytes_asis_correct w2 m A2 B2 H). reflexivity.
  - rewrite (to_signed_le_bytes_asis_correct w1 A1 B1 v), (to_signed_le_bytes_asis_correct w2 A2 B2 v). reflexivity.
  - rewrite (to_signed_be_bytes_asis_correct w1 v A1 B1), (to_signed_be_bytes_asis_correct w2 v A2 B2). reflexivity.
  - rewrite (from_le_bytes_asis_correct w1 bs), (from_le_bytes_asis_correct w2 bs). reflexivity.
  - rewrite (from_be_bytes_asis_correct w1 bs ltac:(lia)), (from_be_bytes_asis_correct w2 bs ltac:(lia)). reflexivity.
  - rewrite (from_signed_le_bytes_asis_correct w1 A1 bs B1 H), (from_signed_le_bytes_asis_correct w2 A2 bs B2 H). reflexivity.
  - rewrite (from_signed_be_bytes_asis_correct w1 bs A1 B1 H), (from_signed_be_bytes_asis_correct w2 bs A2 B2 H). reflexivity.
  - rewrite (to_chunks_asis_correct w1 A1 v cb H H0), (to_chunks_asis_correct w2 A2 v cb H H0). reflexivity.
  - rewrite (from_chunks_asis_correct w1 A1 cb cs H), (from_chunks_asis_correct w2 A2 cb cs H). reflexivity.
Qed.

(** ** C13: the reduced ring.  ConstDivisor::new picks the single-word / double-word / multi-word representation
    by comparing the modulus with 2^w and 2^2w, the shift that normalises the divisor depends on w, the residues
    do not.  The pipelines below are what the harness ops modmul / modpow do (ring, reduce, operate, residue),
    with num-modular's reciprocal division transcribed. *)
Theorem ws_modmul_spec : forall w, 2 <= w -> forall m x y, 1 <= m -> ws_modmul w m x y = Ok ((x * y) mod m).
Proof.
  intros w Hw m x y Hm. unfold ws_modmul.
  destruct (nm_reduce w Hw 0 m x Hm) as (r & a & Er & Hwf & Erm & _ & Ea & Ra & _).
  destruct (nm_reduce w Hw 0 m y Hm) as (r' & b & Er' & _ & _ & _ & Eb & Rb & _).
  rewrite Er in Er'. injection Er' as <-. rewrite Er. cbn [rbind]. rewrite Ea. cbn [rbind]. rewrite Eb. cbn [rbind].
  destruct (nm_ring_ops w Hw r x y a b Hwf Ra Rb) as (_ & _ & (c & Ec & Rc) & _).
  rewrite Ec. cbn [rbind]. rewrite (proj1 (residue_ok w Hw r (x * y) c Hwf Rc)). unfold reduce_spec. rewrite Erm. reflexivity.
Qed.

Theorem ws_modpow_spec : forall w, 2 <= w -> forall m x e, 1 <= m -> 0 <= e -> ws_modpow w m x e = Ok ((x ^ e) mod m).
Proof.
  intros w Hw m x e Hm He. unfold ws_modpow.
  destruct (nm_reduce w Hw 0 m x Hm) as (r & a & Er & Hwf & Erm & _ & Ea & Ra & _).
  rewrite Er. cbn [rbind]. rewrite Ea. cbn [rbind].
  destruct (nm_pow w Hw r x a e Hwf Ra He) as (c & Ec & Rc).
  rewrite Ec. cbn [rbind]. rewrite (proj1 (residue_ok w Hw r (x ^ e) c Hwf Rc)). unfold reduce_spec. rewrite Erm. reflexivity.
Qed.

Theorem modular_ws_independent : forall w1 w2, 2 <= w1 -> 2 <= w2 -> forall m x y e, 1 <= m -> 0 <= e ->
  ws_modmul w1 m x y = ws_modmul w2 m x y /\ ws_modpow w1 m x e = ws_modpow w2 m x e.
Proof.
  intros w1 w2 H1 H2 m x y e Hm He.
  rewrite (ws_modmul_spec w1 H1 m x y Hm), (ws_modmul_spec w2 H2 m x y Hm).
  rewrite (ws_modpow_spec w1 H1 m x e Hm He), (ws_modpow_spec w2 H2 m x e Hm He). split; reflexivity.
Qed.

(** ** C12: sqrt_rem of an integer of three or more words (normalising shift by an even number of bits computed
    from the leading zeros of the top WORD, Karatsuba square root on 2n words, 4-word base case) *)
Theorem sqrt_ws_independent : forall w1 w2, 2 <= w1 -> w1 mod 2 = 0 -> 2 <= w2 -> w2 mod 2 = 0 ->
  forall x, (2 ^ w1) ^ 2 <= x -> (2 ^ w2) ^ 2 <= x ->
  sqrt_rem_large_asis w1 x = sqrt_rem_large_asis w2 x /\ sqrt_rem_large_asis w1 x = Ok (sqrt_rem_spec x).
Proof.
  intros w1 w2 A1 B1 A2 B2 x X1 X2.
  rewrite (sqrt_rem_large_asis_correct w1 A1 B1 x X1), (sqrt_rem_large_asis_correct w2 A2 B2 x X2). split; reflexivity.
Qed.

Example ws_kernels2_nonvacuous :
  brepr_ok 64 (BLarge [5; 0; 1]) /\ brepr_ok 32 (BLarge [5; 0; 0; 0; 1]) /\
  bvalue 64 (BLarge [5; 0; 1]) = bvalue 32 (BLarge [5; 0; 0; 0; 1]) /\
  io_w_ok 64 /\ io_w_ok 32 /\ io_w_ok 16 /\
  ws_modmul 32 (2 ^ 40 + 15) (2 ^ 50) 3 = ws_modmul 64 (2 ^ 40 + 15) (2 ^ 50) 3 /\
  (2 ^ 64) ^ 2 <= 2 ^ 200 /\ (2 ^ 32) ^ 2 <= 2 ^ 200.
Proof.
  assert (B5 : forall w, 3 <= w -> 0 <= 5 < B w) by (intros; unfold B; split; [lia|]; apply (Z.lt_le_trans _ (2 ^ 3)); [lia | apply Z.pow_le_mono_r; lia]).
  assert (B1 : forall w, 3 <= w -> 0 <= 1 < B w) by (intros; unfold B; split; [lia|]; apply (Z.lt_le_trans _ (2 ^ 3)); [lia | apply Z.pow_le_mono_r; lia]).
  assert (B0 : forall w, 3 <= w -> 0 <= 0 < B w) by (intros; unfold B; split; [lia|]; apply Z.pow_pos_nonneg; lia).
  split; [cbn [brepr_ok]; split; [repeat (apply wf_cons; split; [first [apply B5 | apply B1 | apply B0]; lia|]); constructor | split; cbn; lia]|].
  split; [cbn [brepr_ok]; split; [repeat (apply wf_cons; split; [first [apply B5 | apply B1 | apply B0]; lia|]); constructor | split; cbn; lia]|].
  split; [vm_compute; reflexivity|].
  split; [unfold io_w_ok, Bw; repeat split; try lia; reflexivity|].
  split; [unfold io_w_ok, Bw; repeat split; try lia; reflexivity|].
  split; [unfold io_w_ok, Bw; repeat split; try lia; reflexivity|].
  split; [vm_compute; reflexivity|]. split; vm_compute; discriminate.
Qed.
