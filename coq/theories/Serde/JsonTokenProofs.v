(** C19 (deepening round 4) - theorems about Serde/JsonTokenModel.v: arbitrary JSON token streams into the
    human-readable deserializers, and the repaired text form of floats (all bases 2..36). *)
From Dashu Require Import Base.Prelude Int.IoSpec Int.IoModel Float.RoundSpec Float.TextIoSpec Float.TextIoModel.
From Dashu Require Import Serde.WireModel Serde.WireProofs Serde.JsonModel Serde.JsonProofs Serde.JsonTokenModel.
From DashuGen Require Import SerdeVisitorsGen.
Open Scope Z_scope.

(* ---------------------------------------------------------------------------------------------- *)
(** * the string lexer *)
Lemma hex4_length s n t : hex4 s = Some (n, t) -> (length s = 4 + length t)%nat.
Proof.
  unfold hex4. destruct s as [|a [|b [|c [|d t']]]]; try discriminate.
  destruct (hexval a), (hexval b), (hexval c), (hexval d); try discriminate. intros H. injection H as _ <-. reflexivity.
Qed.

Theorem jstr_total : forall fuel s acc, (length s < fuel)%nat -> jstr fuel s acc <> OutOfFuel.
Proof.
  induction fuel as [|k IH]; intros s acc Hf; [lia|]. cbn [jstr].
  destruct s as [|c t]; [discriminate|]. cbn [length] in Hf.
  destruct (c =? 34); [discriminate|]. destruct (c =? 92).
  - destruct t as [|e t']; [discriminate|]. cbn [length] in Hf. destruct (e =? 117).
    + destruct (hex4 t') as [[n t2]|] eqn:H4; [|discriminate]. apply hex4_length in H4.
      destruct ((56320 <=? n) && (n <=? 57343)); [discriminate|].
      destruct ((n <? 55296) || (56319 <? n)); [apply IH; lia|].
      destruct t2 as [|b1 [|b2 t3]]; try discriminate. cbn [length] in H4.
      destruct ((b1 =? 92) && (b2 =? 117)); [|discriminate].
      destruct (hex4 t3) as [[n2 t4]|] eqn:H5; [|discriminate]. apply hex4_length in H5.
      destruct ((56320 <=? n2) && (n2 <=? 57343)); [apply IH; lia | discriminate].
    + destruct (simple_escape e); [apply IH; lia | discriminate].
  - destruct (c <? 32); [discriminate | apply IH; lia].
Qed.

Theorem json_str_token_total : forall inp, json_str_token inp <> OutOfFuel.
Proof.
  intros inp. unfold json_str_token. destruct (skip_ws inp) as [|c t]; [discriminate|].
  destruct (c =? 34); [|discriminate].
  pose proof (jstr_total (S (length t)) t [] ltac:(lia)) as T.
  destruct (jstr (S (length t)) t []) as [[b r]|?|?|]; cbn [rbind fst snd]; try discriminate; [|congruence].
  destruct (skip_ws r); [destruct (existsb _ b)|]; discriminate.
Qed.

(** a body without quote, backslash, control and non-ASCII bytes is copied as it is *)
Lemma jstr_plain : forall body fuel rest acc, Forall plain_char body -> (length body < fuel)%nat ->
  jstr fuel (body ++ 34 :: rest) acc = Ok (rev acc ++ body, rest).
Proof.
  induction body as [|c t IH]; intros fuel rest acc Hp Hf.
  - destruct fuel; [cbn in Hf; lia|]. cbn [app jstr]. rewrite Z.eqb_refl, app_nil_r. reflexivity.
  - destruct fuel; [cbn in Hf; lia|]. inversion Hp as [|? ? [Hc [H34 H92]] Ht]; subst. cbn [app jstr length] in *.
    destruct (Z.eqb_spec c 34); [lia|]. destruct (Z.eqb_spec c 92); [lia|]. destruct (Z.ltb_spec c 32); [lia|].
    rewrite (IH fuel rest (c :: acc) Ht ltac:(lia)). cbn [rev]. rewrite <- app_assoc. reflexivity.
Qed.

Definition all_ws (l : list Z) : Prop := Forall (fun c => is_ws c = true) l.
Lemma skip_ws_app l r : all_ws l -> skip_ws (l ++ r) = skip_ws r.
Proof. induction 1 as [|c t Hc _ IH]; [reflexivity|]. cbn [app skip_ws]. rewrite Hc. exact IH. Qed.
Lemma skip_ws_all l : all_ws l -> skip_ws l = [].
Proof. intros H. rewrite <- (app_nil_r l), (skip_ws_app l [] H). reflexivity. Qed.

Lemma plain_no_high body : Forall plain_char body -> existsb (fun c => 128 <=? c) body = false.
Proof.
  induction 1 as [|c t [Hc _] _ IH]; [reflexivity|]. cbn [existsb]. rewrite IH. destruct (Z.leb_spec 128 c); [lia | reflexivity].
Qed.

(** the text a serializer writes for a string that needs no escape, with any whitespace around it, reaches visit_str
    unchanged (this is the case the round-3 model covered) *)
Theorem json_str_token_plain : forall w1 body w2, all_ws w1 -> all_ws w2 -> Forall plain_char body ->
  json_str_token (w1 ++ json_quote body ++ w2) = Ok body.
Proof.
  intros w1 body w2 H1 H2 Hp. unfold json_str_token, json_quote. rewrite (skip_ws_app w1 _ H1).
  assert (S1 : skip_ws ((34 :: body ++ [34]) ++ w2) = 34 :: (body ++ 34 :: w2)).
  { cbn [app]. rewrite <- app_assoc. reflexivity. }
  rewrite S1. replace (34 =? 34) with true by reflexivity.
  rewrite (jstr_plain body _ w2 [] Hp) by (rewrite app_length; cbn [length]; lia).
  cbn [rbind fst snd rev app]. rewrite (skip_ws_all w2 H2), (plain_no_high body Hp). reflexivity.
Qed.

(** a token stream whose first non-blank byte is not a double quote (a number, null, true, false, an array, an object,
    garbage, nothing at all) is an error for every type: numbers are NOT converted, null is NOT zero *)
Theorem json_non_string_rejected : forall inp,
  (skip_ws inp = [] \/ exists c t, skip_ws inp = c :: t /\ c <> 34) ->
  json_str_token inp = Err E_Json /\
  (forall sg, json_tok_int sg inp = Err E_Json) /\ (forall rl, json_tok_rat rl inp = Err E_Json) /\ (forall B, json_tok_float B inp = Err E_Json).
Proof.
  intros inp H. assert (E : json_str_token inp = Err E_Json).
  { unfold json_str_token. destruct H as [->|(c & t & -> & Hc)]; [reflexivity|]. destruct (Z.eqb_spec c 34); [contradiction | reflexivity]. }
  unfold json_tok_int, json_tok_rat, json_tok_float. rewrite E. repeat split.
Qed.

(* ---------------------------------------------------------------------------------------------- *)
(** * through the medium: serialize, quote, lex, visit_str *)
Lemma int_text_plain v t : json_int_text v = Ok t -> Forall plain_char t.
Proof.
  rewrite json_int_text_shape. intros H. injection H as <-. apply Forall_app. split.
  - destruct (v <? 0); constructor; [unfold plain_char; lia | constructor].
  - eapply Forall_impl; [|exact (dec_text_chars (Z.abs v) (Z.abs_nonneg v))]. unfold dec_char, plain_char. intros; lia.
Qed.

Theorem json_tok_int_roundtrip : forall v t w1 w2, all_ws w1 -> all_ws w2 -> json_int_text v = Ok t ->
  json_tok_int true (w1 ++ json_quote t ++ w2) = Ok v /\ (0 <= v -> json_tok_int false (w1 ++ json_quote t ++ w2) = Ok v).
Proof.
  intros v t w1 w2 H1 H2 Ht. unfold json_tok_int.
  rewrite (json_str_token_plain w1 t w2 H1 H2 (int_text_plain v t Ht)). cbn [rbind]. exact (json_int_roundtrip v t Ht).
Qed.

Theorem json_tok_rbig_roundtrip : forall n d t w1 w2, all_ws w1 -> all_ws w2 -> rat_canon n d -> json_rat_text n d = Ok t ->
  json_tok_rat false (w1 ++ json_quote t ++ w2) = Ok (n, d).
Proof.
  intros n d t w1 w2 H1 H2 Hc Ht. unfold json_tok_rat.
  assert (Hp : Forall plain_char t).
  { unfold json_rat_text in Ht. destruct (d =? 1); [exact (int_text_plain n t Ht)|].
    destruct (json_int_text n) as [tn|?|?|] eqn:En; cbn [rbind] in Ht; try discriminate.
    destruct (json_int_text d) as [td|?|?|] eqn:Ed; cbn [rbind] in Ht; try discriminate. injection Ht as <-.
    apply Forall_app. split; [exact (int_text_plain n tn En)|]. constructor; [unfold plain_char; lia | exact (int_text_plain d td Ed)]. }
  rewrite (json_str_token_plain w1 t w2 H1 H2 Hp). cbn [rbind]. exact (json_rbig_roundtrip n d t Hc Ht).
Qed.

(** whatever the token stream: an accepted rational is in lowest terms with a positive denominator, and the lexer never
    runs out of fuel (decoders never loop) *)
Theorem json_tok_rbig_canonical : forall inp n d, json_tok_rat false inp = Ok (n, d) -> rat_canon n d.
Proof.
  intros inp n d. unfold json_tok_rat. destruct (json_str_token inp) as [t|?|?|]; cbn [rbind]; try discriminate.
  apply json_rbig_de_canonical.
Qed.

(* ---------------------------------------------------------------------------------------------- *)
(** * floats: the repaired text form round trips in EVERY base 2..36 *)
Lemma json_float_de_gen_eq B t : json_float_de_gen B t = json_float_de B t.
Proof.
  unfold json_float_de_gen, json_float_de, gen_inf_tokens. cbn [inf_lookup].
  change [105; 110; 102] with txt_inf. change [45; 105; 110; 102] with txt_ninf. unfold txt_ninf.
  destruct (list_eqb t txt_inf); [reflexivity|]. destruct (list_eqb t (45 :: txt_inf)); reflexivity.
Qed.

Lemma is_inf_token_eq t : is_inf_token t = list_eqb t txt_inf || list_eqb t txt_ninf.
Proof. unfold is_inf_token, gen_inf_tokens. cbn [existsb fst]. rewrite orb_false_r. reflexivity. Qed.

Theorem json_float_ser_roundtrip : forall B s e, 2 <= B <= 36 ->
  s mod B <> 0 \/ (s = 0 /\ e = 0) -> in_isize e = true -> json_float_de_gen B (json_float_ser B s e) = Ok (s, e).
Proof.
  intros B s e HB Hn He. rewrite json_float_de_gen_eq.
  assert (Hfin : (s =? 0) && negb (e =? 0) = false).
  { destruct Hn as [Hn|[-> ->]]; [|reflexivity]. destruct (Z.eqb_spec s 0) as [->|]; [|reflexivity]. rewrite Z.mod_0_l in Hn by lia. lia. }
  destruct (json_inf_collision B s e) eqn:C.
  - destruct (json_inf_collision_class B s e HB C) as (HB24 & -> & Hs).
    assert (HBs : B = 24 \/ B = 25 \/ B = 26 \/ B = 27 \/ B = 28 \/ B = 29 \/ B = 30 \/ B = 31 \/ B = 32 \/ B = 33 \/ B = 34 \/ B = 35 \/ B = 36) by lia.
    assert (Hss : s = 18 * B * B + 23 * B + 15 \/ s = - (18 * B * B + 23 * B + 15)) by lia.
    clear - HBs Hss.
    repeat (destruct HBs as [->|HBs]; [destruct Hss as [->| ->]; vm_compute; reflexivity|]).
    subst B. destruct Hss as [->| ->]; vm_compute; reflexivity.
  - assert (E : json_float_ser B s e = json_float_text B s e).
    { unfold json_float_ser. unfold json_inf_collision in C. rewrite Hfin in C. cbn [negb andb] in C.
      rewrite Hfin, is_inf_token_eq, C. cbn [negb andb]. rewrite andb_false_r. reflexivity. }
    rewrite E. apply json_float_roundtrip; assumption.
Qed.

(** the infinities are written as before *)
Theorem json_float_ser_inf : forall B e, e <> 0 -> json_float_de_gen B (json_float_ser B 0 e) = Ok (0, Z.sgn e).
Proof.
  intros B e He. rewrite json_float_de_gen_eq. unfold json_float_ser. cbn [Z.eqb andb].
  destruct (Z.eqb_spec e 0); [contradiction|]. cbn [negb andb]. rewrite andb_false_r. apply json_float_inf_roundtrip. exact He.
Qed.

(** the former witnesses of the open finding now round trip, and the escape is not applied where no collision exists *)
Example json_float_ser_nonvacuous :
  json_float_ser 36 24171 0 = [105; 110; 102; 64; 48] /\ json_float_de_gen 36 (json_float_ser 36 24171 0) = Ok (24171, 0) /\
  json_float_de_gen 36 (json_float_ser 36 (-24171) 0) = Ok (-24171, 0) /\ json_float_ser 36 0 1 = txt_inf /\
  json_float_ser 10 15 (-1) = [49; 46; 53] /\ in_isize 0 = true /\
  json_tok_float 10 [32; 34; 49; 92; 117; 48; 48; 50; 101; 53; 34; 10] = Ok (15, -1) /\
  json_tok_int true [34; 92; 117; 48; 48; 51; 49; 50; 34] = Ok 12 /\ json_tok_int true [49; 50] = Err E_Json /\
  json_tok_int true [110; 117; 108; 108] = Err E_Json /\ json_tok_int true [34; 49; 10; 34] = Err E_Json /\
  json_tok_rat false [34; 50; 92; 47; 52; 34] = Ok (1, 2) /\ all_ws [32; 10] /\ plain_char 47.
Proof. repeat match goal with |- _ /\ _ => split end; try (vm_compute; reflexivity); [repeat constructor | unfold plain_char; lia]. Qed.
