(** C19 (deepening round 3) - "result value is independent of the word size" for each public
    operation family, as corollaries of the word-level theorems of C01 (multiplication dispatch incl.
    the fully word-level Toom-3, squares, cubes, powers, add/sub), C02 (division with every kernel
    transcribed), C09 (bit operations, shifts, counts), C07 (radix conversion both ways, bytes),
    C13 (modular ring on words) and C12 (square root with the Karatsuba kernel inside).
    Those theorems (imported read-only; only lemmas behind pinned statements are cited) hold for an
    arbitrary word size [w] and their right-hand sides do not mention [w]; hence two builds with
    different word sizes - different thresholds counted in words, different chunk lengths, different
    digits per word - return the same numbers, the same texts and the same panics. *)
From Dashu Require Import Base.Prelude Base.Words Int.RingSpec Int.RingSign Int.RingAdd Int.RingAddProofs
  Int.RingMul Int.RingDispatchProofs Int.RingOps Int.RingOpsProofs Int.RingOpsMulProofs Int.RingPowProofs Int.RingTop
  Int.DivWordModel Int.DivWordProofs Int.RingMulW Int.RingMulWProofs Int.RingOpsW Int.RingOpsWProofs Int.RingTopW.
From Dashu Require Import Int.DivWordInst Int.DivContracts Int.DivNumModular Int.DivNumModularProofs Int.DivSrcInst Int.DivSrcInstProofs.
From DashuGen Require Import Params.
Open Scope Z_scope.

(** ** C01: multiplication *)
Section Mul.
Variables w1 w2 : Z.
Hypothesis H1 : 8 <= w1.
Hypothesis H2 : 8 <= w2.
Variables d1 d2 : Z -> Z -> Z * Z.
Hypothesis D1 : contract_2by1 w1 d1.
Hypothesis D2 : contract_2by1 w2 d2.

(** mul::multiply over the word-level kernels (schoolbook / Karatsuba / Toom-3 slice by slice, thresholds of
    the source counted in words: a 30-word operand of the 32-bit build takes Karatsuba where the same number
    is 15 words and schoolbook in the 64-bit build) *)
Theorem multiply_w_ws_independent : forall a1 b1 a2 b2, wf w1 a1 -> wf w1 b1 -> wf w2 a2 -> wf w2 b2 ->
  value w1 a1 = value w2 a2 -> value w1 b1 = value w2 b2 ->
  exists r1 r2, multiply_w w1 d1 src_T_simple src_T_kara src_CHUNK a1 b1 = Ok r1 /\
                multiply_w w2 d2 src_T_simple src_T_kara src_CHUNK a2 b2 = Ok r2 /\ value w1 r1 = value w2 r2.
Proof.
  intros a1 b1 a2 b2 Wa1 Wb1 Wa2 Wb2 Ea Eb.
  destruct (multiply_w_source_correct w1 H1 d1 D1 a1 b1 Wa1 Wb1) as (r1 & E1 & _ & _ & V1).
  destruct (multiply_w_source_correct w2 H2 d2 D2 a2 b2 Wa2 Wb2) as (r2 & E2 & _ & _ & V2).
  exists r1, r2. repeat split; try assumption. rewrite V1, V2, Ea, Eb. reflexivity.
Qed.

(** the accumulate-with-sign kernel the division and the float code call *)
Theorem add_signed_mul_w_ws_independent : forall c1 a1 b1 c2 a2 b2 s,
  wf w1 c1 /\ wf w1 a1 /\ wf w1 b1 /\ length c1 = (length a1 + length b1)%nat ->
  wf w2 c2 /\ wf w2 a2 /\ wf w2 b2 /\ length c2 = (length a2 + length b2)%nat ->
  value w1 c1 = value w2 c2 -> value w1 a1 = value w2 a2 -> value w1 b1 = value w2 b2 ->
  exists r1 k1 r2 k2,
    add_signed_mul_w w1 d1 src_T_simple src_T_kara src_CHUNK c1 s a1 b1 = Ok (r1, k1) /\
    add_signed_mul_w w2 d2 src_T_simple src_T_kara src_CHUNK c2 s a2 b2 = Ok (r2, k2) /\
    value w1 r1 + k1 * B w1 ^ len c1 = value w2 r2 + k2 * B w2 ^ len c2.
Proof.
  intros c1 a1 b1 c2 a2 b2 s P1 P2 Ec Ea Eb.
  destruct (add_signed_mul_w_source_ok w1 H1 d1 D1 c1 s a1 b1 P1) as (r1 & k1 & E1 & _ & _ & _ & V1).
  destruct (add_signed_mul_w_source_ok w2 H2 d2 D2 c2 s a2 b2 P2) as (r2 & k2 & E2 & _ & _ & _ & V2).
  exists r1, k1, r2, k2. repeat split; try assumption. rewrite V1, V2, Ec, Ea, Eb. reflexivity.
Qed.

Theorem sqr_w_ws_independent : forall a1 a2, wf w1 a1 -> wf w2 a2 -> value w1 a1 = value w2 a2 ->
  exists r1 r2, sqr_w w1 d1 src_T_simple src_T_kara src_SQR a1 = Ok r1 /\
                sqr_w w2 d2 src_T_simple src_T_kara src_SQR a2 = Ok r2 /\ value w1 r1 = value w2 r2.
Proof.
  intros a1 a2 W1 W2 E.
  destruct (sqr_kernel_w_exact w1 H1 d1 D1 a1 W1) as (r1 & E1 & _ & _ & V1).
  destruct (sqr_kernel_w_exact w2 H2 d2 D2 a2 W2) as (r2 & E2 & _ & _ & V2).
  exists r1, r2. repeat split; try assumption. rewrite V1, V2, E. reflexivity.
Qed.

(** the operators UBig * UBig, IBig * IBig, sqr, cubic over typed representations (inline <= 2 words) *)
Theorem ubig_mul_ws_independent : forall x1 y1 x2 y2, tok w1 x1 -> tok w1 y1 -> tok w2 x2 -> tok w2 y2 ->
  repr_value w1 x1 = repr_value w2 x2 -> repr_value w1 y1 = repr_value w2 y2 ->
  exists r1 r2, repr_mul_w w1 d1 src_T_simple src_T_kara src_CHUNK src_SQR x1 y1 = Ok r1 /\
                repr_mul_w w2 d2 src_T_simple src_T_kara src_CHUNK src_SQR x2 y2 = Ok r2 /\
                repr_value w1 r1 = repr_value w2 r2.
Proof.
  intros x1 y1 x2 y2 X1 Y1 X2 Y2 Ex Ey.
  destruct (ubig_mul_w_exact w1 H1 d1 D1 x1 y1 X1 Y1) as (r1 & E1 & V1 & _).
  destruct (ubig_mul_w_exact w2 H2 d2 D2 x2 y2 X2 Y2) as (r2 & E2 & V2 & _).
  exists r1, r2. repeat split; try assumption.
  unfold ubig_mul_spec in V1, V2. rewrite Ex, Ey in V1. rewrite <- V2 in V1. now injection V1.
Qed.

Theorem ibig_mul_ws_independent : forall s0 s1 x1 y1 x2 y2, tok w1 x1 -> tok w1 y1 -> tok w2 x2 -> tok w2 y2 ->
  repr_value w1 x1 = repr_value w2 x2 -> repr_value w1 y1 = repr_value w2 y2 ->
  exists r1 r2, ibig_mul_asis_w w1 d1 src_T_simple src_T_kara src_CHUNK src_SQR s0 x1 s1 y1 = Ok r1 /\
                ibig_mul_asis_w w2 d2 src_T_simple src_T_kara src_CHUNK src_SQR s0 x2 s1 y2 = Ok r2 /\
                srepr_value w1 r1 = srepr_value w2 r2.
Proof.
  intros s0 s1 x1 y1 x2 y2 X1 Y1 X2 Y2 Ex Ey.
  destruct (ibig_mul_w_exact w1 H1 d1 D1 s0 x1 s1 y1 X1 Y1) as (r1 & E1 & V1 & _).
  destruct (ibig_mul_w_exact w2 H2 d2 D2 s0 x2 s1 y2 X2 Y2) as (r2 & E2 & V2 & _).
  exists r1, r2. repeat split; try assumption. rewrite V1, V2, Ex, Ey. reflexivity.
Qed.

Theorem sqr_ws_independent : forall x1 x2, tok w1 x1 -> tok w2 x2 -> repr_value w1 x1 = repr_value w2 x2 ->
  exists r1 r2, repr_sqr_w w1 d1 src_T_simple src_T_kara src_SQR x1 = Ok r1 /\
                repr_sqr_w w2 d2 src_T_simple src_T_kara src_SQR x2 = Ok r2 /\ repr_value w1 r1 = repr_value w2 r2.
Proof.
  intros x1 x2 X1 X2 E.
  destruct (sqr_w_exact w1 H1 d1 D1 x1 X1) as (r1 & E1 & V1 & _).
  destruct (sqr_w_exact w2 H2 d2 D2 x2 X2) as (r2 & E2 & V2 & _).
  exists r1, r2. repeat split; try assumption. rewrite V1, V2, E. reflexivity.
Qed.

Theorem ibig_cubic_ws_independent : forall s x1 x2, tok w1 x1 -> tok w2 x2 -> repr_value w1 x1 = repr_value w2 x2 ->
  exists r1 r2, ibig_cubic_asis_w w1 d1 src_T_simple src_T_kara src_CHUNK src_SQR s x1 = Ok r1 /\
                ibig_cubic_asis_w w2 d2 src_T_simple src_T_kara src_CHUNK src_SQR s x2 = Ok r2 /\
                srepr_value w1 r1 = srepr_value w2 r2.
Proof.
  intros s x1 x2 X1 X2 E.
  destruct (ibig_cubic_w_exact w1 H1 d1 D1 s x1 X1) as (r1 & E1 & V1 & _).
  destruct (ibig_cubic_w_exact w2 H2 d2 D2 s x2 X2) as (r2 & E2 & V2 & _).
  exists r1, r2. repeat split; try assumption. rewrite V1, V2, E. reflexivity.
Qed.
End Mul.

(** ** C01: + and - of UBig / IBig (Small/Large arms, four ownership forms each side), powers *)
Theorem ubig_add_ws_independent : forall w1 w2, 8 <= w1 -> 8 <= w2 -> forall o1 o2 x1 y1 x2 y2,
  twf w1 x1 -> twf w1 y1 -> twf w2 x2 -> twf w2 y2 ->
  repr_value w1 x1 = repr_value w2 x2 -> repr_value w1 y1 = repr_value w2 y2 ->
  repr_value w1 (repr_add w1 o1 x1 y1) = repr_value w2 (repr_add w2 o2 x2 y2).
Proof.
  intros w1 w2 H1 H2 o1 o2 x1 y1 x2 y2 X1 Y1 X2 Y2 Ex Ey.
  destruct (ubig_add_exact w1 H1 o1 x1 y1 X1 Y1) as [V1 _]. destruct (ubig_add_exact w2 H2 o2 x2 y2 X2 Y2) as [V2 _].
  unfold ubig_add_spec in V1, V2. rewrite Ex, Ey in V1. rewrite <- V2 in V1. now injection V1.
Qed.

(** the same value, or the same (documented) panic, in both builds *)
Theorem ubig_sub_ws_independent : forall w1 w2, 8 <= w1 -> 8 <= w2 -> forall o1 o2 x1 y1 x2 y2,
  twf w1 x1 -> twf w1 y1 -> twf w2 x2 -> twf w2 y2 ->
  repr_value w1 x1 = repr_value w2 x2 -> repr_value w1 y1 = repr_value w2 y2 ->
  match repr_sub w1 o1 x1 y1, repr_sub w2 o2 x2 y2 with
  | Ok r1, Ok r2 => repr_value w1 r1 = repr_value w2 r2
  | Panic NegativeUBig, Panic NegativeUBig => True
  | _, _ => False
  end.
Proof.
  intros w1 w2 H1 H2 o1 o2 x1 y1 x2 y2 X1 Y1 X2 Y2 Ex Ey.
  pose proof (ubig_sub_exact w1 H1 o1 x1 y1 X1 Y1) as V1. pose proof (ubig_sub_exact w2 H2 o2 x2 y2 X2 Y2) as V2.
  rewrite Ex, Ey in V1. unfold ubig_sub_spec in V1, V2.
  destruct (repr_value w2 x2 <? repr_value w2 y2).
  - destruct (repr_sub w1 o1 x1 y1) as [r1|p1| |]; try contradiction.
    destruct (repr_sub w2 o2 x2 y2) as [r2|p2| |]; try contradiction.
    destruct p1; try contradiction. destruct p2; try contradiction. exact I.
  - destruct (repr_sub w1 o1 x1 y1) as [r1|p1| |]; try contradiction; [|destruct p1; contradiction].
    destruct (repr_sub w2 o2 x2 y2) as [r2|p2| |]; try contradiction; [|destruct p2; contradiction].
    destruct V1 as [V1 _], V2 as [V2 _]. congruence.
Qed.

Theorem ibig_add_sub_ws_independent : forall w1 w2, 8 <= w1 -> 8 <= w2 -> forall o1 o2 s0 s1 x1 y1 x2 y2,
  twf w1 x1 -> twf w1 y1 -> twf w2 x2 -> twf w2 y2 ->
  repr_value w1 x1 = repr_value w2 x2 -> repr_value w1 y1 = repr_value w2 y2 ->
  (exists r1 r2, ibig_add_asis w1 o1 s0 x1 s1 y1 = Ok r1 /\ ibig_add_asis w2 o2 s0 x2 s1 y2 = Ok r2 /\
                 srepr_value w1 r1 = srepr_value w2 r2) /\
  (exists r1 r2, ibig_sub_asis w1 o1 s0 x1 s1 y1 = Ok r1 /\ ibig_sub_asis w2 o2 s0 x2 s1 y2 = Ok r2 /\
                 srepr_value w1 r1 = srepr_value w2 r2).
Proof.
  intros w1 w2 H1 H2 o1 o2 s0 s1 x1 y1 x2 y2 X1 Y1 X2 Y2 Ex Ey. split.
  - destruct (ibig_add_exact w1 H1 o1 s0 x1 s1 y1 X1 Y1) as (r1 & E1 & V1 & _).
    destruct (ibig_add_exact w2 H2 o2 s0 x2 s1 y2 X2 Y2) as (r2 & E2 & V2 & _).
    exists r1, r2. repeat split; try assumption. rewrite V1, V2, Ex, Ey. reflexivity.
  - destruct (ibig_sub_exact w1 H1 o1 s0 x1 s1 y1 X1 Y1) as (r1 & E1 & V1 & _).
    destruct (ibig_sub_exact w2 H2 o2 s0 x2 s1 y2 X2 Y2) as (r2 & E2 & V2 & _).
    exists r1, r2. repeat split; try assumption. rewrite V1, V2, Ex, Ey. reflexivity.
Qed.

(** pow.rs: max_exp_in_word(base) depends on Word::BITS (10^19 fits a 64-bit word, 10^9 a 32-bit one), so the
    two builds split base^e differently into word-power and repeated squaring - the value is the same *)
Theorem pow_ws_independent : forall w1 w2, 8 <= w1 -> 8 <= w2 -> forall s x1 x2 e, tok w1 x1 -> tok w2 x2 -> 0 <= e ->
  repr_value w1 x1 = repr_value w2 x2 ->
  (exists r1 r2, ubig_pow_asis w1 src_T_simple src_T_kara src_CHUNK src_SQR x1 e = Ok r1 /\
                 ubig_pow_asis w2 src_T_simple src_T_kara src_CHUNK src_SQR x2 e = Ok r2 /\
                 repr_value w1 r1 = repr_value w2 r2) /\
  (exists r1 r2, ibig_pow_asis w1 src_T_simple src_T_kara src_CHUNK src_SQR s x1 e = Ok r1 /\
                 ibig_pow_asis w2 src_T_simple src_T_kara src_CHUNK src_SQR s x2 e = Ok r2 /\
                 srepr_value w1 r1 = srepr_value w2 r2).
Proof.
  intros w1 w2 H1 H2 s x1 x2 e X1 X2 He E. split.
  - destruct (ubig_pow_exact w1 H1 x1 e X1 He) as (r1 & E1 & V1). destruct (ubig_pow_exact w2 H2 x2 e X2 He) as (r2 & E2 & V2).
    exists r1, r2. repeat split; try assumption. rewrite V1, V2, E. reflexivity.
  - destruct (ibig_pow_exact w1 H1 s x1 e X1 He) as (r1 & E1 & V1). destruct (ibig_pow_exact w2 H2 s x2 e X2 He) as (r2 & E2 & V2).
    exists r1, r2. repeat split; try assumption. rewrite V1, V2, E. reflexivity.
Qed.

(** ** C02: DivRem / Div / Rem of two magnitudes and division through a prepared ConstDivisor with every kernel
    transcribed (div_by_word, div_by_dword, Knuth schoolbook, Burnikel-Ziegler behind THRESHOLD_SIMPLE counted in
    words, num-modular's reciprocals, C01's multiplier): the answers do not mention [w] at all *)
Theorem division_ws_independent : forall w1 w2, 8 <= w1 -> 8 <= w2 -> forall a b, 0 <= a -> 0 < b ->
  s_repr_div_rem w1 a b = s_repr_div_rem w2 a b /\ s_repr_div w1 a b = s_repr_div w2 a b /\
  s_repr_rem w1 a b = s_repr_rem w2 a b /\ s_const_div_rem w1 a b = s_const_div_rem w2 a b /\
  s_const_rem w1 a b = s_const_rem w2 a b /\ s_repr_div_rem w1 a b = Ok (a / b, a mod b).
Proof.
  intros w1 w2 H1 H2 a b Ha Hb.
  destruct (s_division_unconditional w1 H1 a b Ha Hb) as (A1 & B1 & C1 & D1 & E1).
  destruct (s_division_unconditional w2 H2 a b Ha Hb) as (A2 & B2 & C2 & D2 & E2).
  rewrite D1, D2, E1, E2, A1, A2, B1, B2, C1, C2. repeat split; reflexivity.
Qed.

Example ws_kernels_nonvacuous :
  wf 64 [5; 0; 1] /\ wf 32 [5; 0; 0; 0; 1] /\ value 64 [5; 0; 1] = value 32 [5; 0; 0; 0; 1] /\
  contract_2by1 64 x2by1 /\ contract_2by1 32 x2by1 /\
  tok 64 (Large [5; 0; 1]) /\ tok 32 (Large [5; 0; 0; 0; 1]) /\ twf 64 (Small 7) /\ twf 32 (Small 7) /\
  s_repr_div_rem 32 1000 7 = Ok (142, 6).
Proof.
  assert (W64 : wf 64 [5; 0; 1]) by (repeat constructor; cbn; lia).
  assert (W32 : wf 32 [5; 0; 0; 0; 1]) by (repeat constructor; cbn; lia).
  repeat split; try assumption; try (cbn; lia); try (intros d a _ _; reflexivity); try (vm_compute; reflexivity).
Qed.
