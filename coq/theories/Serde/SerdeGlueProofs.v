(** C19 (deepening round 4) - the regenerated serde glue (coq/gen/SerdeVisitorsGen.v, tools/translate_c19_r4.py) is what
    Serde/JsonTokenModel.v assumes: an edit of the three third_party/serde.rs files that changes which Visitor method a
    human readable deserializer reaches, which parser visit_str calls, the infinity tokens or the escape of
    collect_float_str breaks this obligation. *)
From Dashu Require Import Serde.JsonModel.
From DashuGen Require Import SerdeVisitorsGen.
Require Import ZArith List Bool String.
Import ListNotations.
Local Open Scope string_scope.
Local Open Scope bool_scope.
Local Open Scope Z_scope.

(* ---------------------------------------------------------------------------------------------- *)
(** * the regenerated glue is what the model assumes *)
Definition str_in (x : String.string) (l : list String.string) : bool := existsb (String.eqb x) l.

(** every Deserialize impl hands a human readable deserializer the hint [deserialize_str] with a visitor that implements
    visit_str and overrides neither visit_borrowed_str nor visit_string (serde's defaults forward both to visit_str) *)
Definition hints_ok : bool :=
  forallb (fun h => let '(c, v, hr, _) := h in
    String.eqb hr "str" &&
    existsb (fun x => let '(c', v', ms) := x in String.eqb c c' && String.eqb v v' && str_in "visit_str" ms &&
                      negb (str_in "visit_borrowed_str" ms) && negb (str_in "visit_string" ms)) gen_visitors) gen_deser_hints
  && (5 <=? Z.of_nat (List.length gen_deser_hints))%Z.

(** visit_str of the integer and rational visitors is from_str_with_radix_prefix; of the float visitors the infinity tokens
    first, then from_str_native; the float serializers go through collect_float_str, the others through collect_str *)
Definition visit_str_ok : bool :=
  forallb (fun x => let '(c, _, cs) := x in
    if String.eqb c "float" then
      match cs with [a; b] => String.eqb a "infinity_from_str" && String.eqb b "from_str_native" | _ => false end
    else match cs with [a] => String.eqb a "from_str_with_radix_prefix" | _ => false end) gen_visit_str
  && forallb (fun x => let '(c, _, f) := x in String.eqb f (if String.eqb c "float" then "collect_float_str" else "collect_str")) gen_ser_human.

Theorem serde_glue_is_modelled : hints_ok = true /\ visit_str_ok = true /\
  gen_inf_tokens = [(txt_inf, 1); (txt_ninf, -1)] /\ gen_inf_escape_min_base <= 24 /\ gen_inf_escape_suffix = [64; 48].
Proof. repeat split; vm_compute; solve [reflexivity | discriminate]. Qed.

