(** C19 (deepening round 4) - what reaches the Visitor of a dashu type when serde_json decodes an ARBITRARY token
    stream (not only a plain string), and the repaired text form of floats.  DEFINITIONS ONLY.

    Deserialize (all three third_party/serde.rs): [if deserializer.is_human_readable() { deserializer.deserialize_str(V) }].
    serde_json::Deserializer::deserialize_str: skip whitespace; if the next byte is the double quote parse a JSON string (escapes
    decoded) and call V.visit_str / visit_borrowed_str (default: forwards to visit_str); ANY other token (number, null,
    true, false, array, object, garbage, end of input) is answered by serde_json itself with an error - the Visitor is
    not consulted, visit_u64 / visit_i64 / visit_f64 / visit_unit / visit_seq / visit_map are unreachable in this mode
    (the list of implemented methods and the hints are regenerated into coq/gen/SerdeVisitorsGen.v).
    serde_json::from_slice then demands only whitespace up to the end of the input.
    String syntax (serde_json read.rs, SliceRead::parse_str with validate = true, parse_escape, parse_unicode_escape):
    control bytes below 0x20 are rejected, escapes are quote, backslash, slash, b f n r t and uXXXX (hex digits of either
    case); a lone trailing surrogate, a leading surrogate that is not followed by an escaped trailing one are rejected.
    Bytes from 0x80 on: either the input is not UTF-8 (serde_json rejects it) or the decoded string holds a non-ASCII
    character, which no parser of the library accepts as a digit, sign, point, separator or scale marker: an error
    either way (this last step is a modelling decision compared by the run, generators feed both kinds). *)
From Dashu Require Import Base.Prelude Int.IoSpec Float.RoundSpec Float.TextIoSpec Float.TextIoModel Serde.WireModel Serde.JsonModel.
From DashuGen Require Import SerdeVisitorsGen.
Open Scope Z_scope.

Definition E_Json : Z := 9.

Definition is_ws (c : Z) : bool := (c =? 32) || (c =? 10) || (c =? 9) || (c =? 13).
Fixpoint skip_ws (s : list Z) : list Z :=
  match s with
  | [] => []
  | c :: t => if is_ws c then skip_ws t else s
  end.

Definition hexval (c : Z) : option Z :=
  if (48 <=? c) && (c <=? 57) then Some (c - 48)
  else if (97 <=? c) && (c <=? 102) then Some (c - 87)
  else if (65 <=? c) && (c <=? 70) then Some (c - 55)
  else None.

(** decode_hex_escape: exactly four hex digits *)
Definition hex4 (s : list Z) : option (Z * list Z) :=
  match s with
  | a :: b :: c :: d :: t =>
      match hexval a, hexval b, hexval c, hexval d with
      | Some x, Some y, Some z, Some u => Some (((x * 16 + y) * 16 + z) * 16 + u, t)
      | _, _, _, _ => None
      end
  | _ => None
  end.

(** push_wtf8_codepoint *)
Definition utf8 (n : Z) : list Z :=
  if n <? 128 then [n]
  else if n <? 2048 then [192 + n / 64; 128 + n mod 64]
  else if n <? 65536 then [224 + n / 4096; 128 + (n / 64) mod 64; 128 + n mod 64]
  else [240 + n / 262144; 128 + (n / 4096) mod 64; 128 + (n / 64) mod 64; 128 + n mod 64].

Definition simple_escape (e : Z) : option Z :=
  if e =? 34 then Some 34 else if e =? 92 then Some 92 else if e =? 47 then Some 47
  else if e =? 98 then Some 8 else if e =? 102 then Some 12 else if e =? 110 then Some 10
  else if e =? 114 then Some 13 else if e =? 116 then Some 9 else None.

(** the bytes after the opening quote: (decoded bytes, what follows the closing quote); [acc] is reversed *)
Fixpoint jstr (fuel : nat) (s acc : list Z) : result (list Z * list Z) :=
  match fuel with
  | O => OutOfFuel
  | S k =>
    match s with
    | [] => Err E_Json                                            (* EofWhileParsingString *)
    | c :: t =>
      if c =? 34 then Ok (rev acc, t)
      else if c =? 92 then
        match t with
        | [] => Err E_Json
        | e :: t' =>
          if e =? 117 then
            match hex4 t' with
            | None => Err E_Json
            | Some (n, t2) =>
              if (56320 <=? n) && (n <=? 57343) then Err E_Json     (* lone trailing surrogate *)
              else if (n <? 55296) || (56319 <? n) then jstr k t2 (rev (utf8 n) ++ acc)
              else
                match t2 with
                | b1 :: b2 :: t3 =>
                  if (b1 =? 92) && (b2 =? 117) then
                    match hex4 t3 with
                    | Some (n2, t4) =>
                      if (56320 <=? n2) && (n2 <=? 57343)
                      then jstr k t4 (rev (utf8 ((n - 55296) * 1024 + (n2 - 56320) + 65536)) ++ acc)
                      else Err E_Json
                    | None => Err E_Json
                    end
                  else Err E_Json
                | _ => Err E_Json
                end
            end
          else match simple_escape e with
               | Some b => jstr k t' (b :: acc)
               | None => Err E_Json                                (* InvalidEscape *)
               end
        end
      else if c <? 32 then Err E_Json                             (* ControlCharacterWhileParsingString *)
      else jstr k t (c :: acc)
    end
  end.

(** the string handed to visit_str, or the error of serde_json *)
Definition json_str_token (inp : list Z) : result (list Z) :=
  match skip_ws inp with
  | [] => Err E_Json                                              (* EofWhileParsingValue *)
  | c :: t =>
      if c =? 34 then
        rbind (jstr (S (length t)) t []) (fun r =>
          match skip_ws (snd r) with
          | [] => if existsb (fun c => 128 <=? c) (fst r) then Err E_Json else Ok (fst r)
          | _ :: _ => Err E_Json                                  (* TrailingCharacters *)
          end)
      else Err E_Json                                             (* invalid type: number / null / bool / array / map *)
  end.

(** ** the decoders of the five types on an arbitrary token stream *)
Definition json_tok_int (signed_ : bool) (inp : list Z) : result Z := rbind (json_str_token inp) (json_int_de signed_).
Definition json_tok_rat (relaxed : bool) (inp : list Z) : result (Z * Z) := rbind (json_str_token inp) (json_rat_de relaxed).
Definition json_tok_float (B : Z) (inp : list Z) : result (Z * Z) := rbind (json_str_token inp) (json_float_de B).

(** the text serde_json writes for a str that needs no escaping *)
Definition json_quote (t : list Z) : list Z := 34 :: t ++ [34].
Definition plain_char (c : Z) : Prop := 32 <= c < 128 /\ c <> 34 /\ c <> 92.

(** ** the repaired human-readable form of Repr<B> / FBig<R, B> (collect_float_str, fix of finding fbig_json_inf_collision):
    a FINITE number whose Display text is one of the infinity tokens gets the explicit scale @0 appended, in the bases
    where that can happen (the constants are regenerated from float/src/third_party/serde.rs) *)
Definition is_inf_token (t : list Z) : bool := existsb (fun tok => list_eqb t (fst tok)) gen_inf_tokens.

Definition json_float_ser (B s e : Z) : list Z :=
  let text := json_float_text B s e in
  if (gen_inf_escape_min_base <=? B) && negb ((s =? 0) && negb (e =? 0)) && is_inf_token text
  then text ++ gen_inf_escape_suffix else text.

(** infinity_from_str as regenerated: the first matching token decides *)
Fixpoint inf_lookup (toks : list (list Z * Z)) (t : list Z) : option Z :=
  match toks with
  | [] => None
  | (tok, sg) :: rest => if list_eqb t tok then Some sg else inf_lookup rest t
  end.
Definition json_float_de_gen (B : Z) (t : list Z) : result (Z * Z) :=
  match inf_lookup gen_inf_tokens t with
  | Some sg => Ok (0, sg)
  | None => rbind (parse_asis B t) (fun x => let '(s, e, _) := x in Ok (s, e))
  end.
