(** C19 - open finding F06: FBig<_, B> -> f32 / f64 for B <> 2 in debug and release builds.
    to_f64 converts to base 2 with Context::<HalfEven>::new(53).convert_base and hands the result to
    Repr::into_f64_internal, which starts with [debug_assert!(significand.bit_len() <= 53)].  On the
    division route of convert_base (-38 <= exponent < 0) the result comes from repr_div, whose
    quotient has p or p + 1 digits, so the assertion is not a theorem: debug builds panic, release
    builds go on and let f64::encode round a second time.  (to_f32: the same with 24 and the number's
    own rounding mode.)  [repr_div] is C03's as-is model (Float/Model.v), imported read-only. *)
From Dashu Require Import Base.Prelude Float.RoundSpec Float.Model Serde.WireModel.
Open Scope Z_scope.

(** convert_base::<B, 2> of s * B^e on the division route: repr_div of the two normalised base-2
    representations of s and B^-e *)
Definition conv_div_route (p : Z) (m : mode) (B s e : Z) : result approx :=
  let '(s1, e1) := fnormalize 2 s 0 in                   (* Repr::<2>::new(significand, 0) *)
  let '(s2, e2) := fnormalize 2 (B ^ (- e)) 0 in         (* Repr::<2>::new(B^-e, 0) *)
  repr_div 2 p m s1 e1 s2 e2.

(** bit length of the significand handed over (Repr::new strips the trailing zero bits) *)
Definition handed_bits (a : approx) : Z :=
  sblen (Z.abs (fst (fnormalize 2 (approx_sig a) (approx_exp a)))).
Definition wide (p : Z) (a : approx) : bool := p <? handed_bits a.

(** the class of F06, as the harness observes it through with_base_and_precision::<2>(p) *)
Definition wide_class (p : Z) (m : mode) (B s e : Z) : bool :=
  if (e <? 0) && (- 38 <=? e) && negb (s =? 0)
     && (ndigits 2 (fst (fnormalize 2 s 0)) <=? p + ndigits 2 (fst (fnormalize 2 (B ^ (- e)) 0)))
        (* the digit counts of the NORMALISED operands (Repr::new strips the trailing zero bits first); else: exact
           division, rounded once *)
  then match conv_div_route p m B s e with Ok a => wide p a | _ => false end
  else false.

(** into_f64_internal / into_f32_internal up to the assertion: [debug] = debug assertions on *)
Definition into_ieee_asis (debug : bool) (p : Z) (a : approx) : result approx :=
  if debug && wide p a then Panic Undocumented else Ok a.

(** the debug assertion is refuted: DBig 4899e-7 -> f64 (54 bits) and DBig 1.2 -> f32 (25 bits);
    debug and release builds part ways exactly there *)
Theorem to_f64_debug_assert_refuted :
  exists a, conv_div_route 53 MHalfEven 10 4899 (-7) = Ok a /\ handed_bits a = 54 /\
            into_ieee_asis true 53 a = Panic Undocumented /\ into_ieee_asis false 53 a = Ok a.
Proof. eexists. repeat split; vm_compute; reflexivity. Qed.

Theorem to_f32_debug_assert_refuted :
  exists a, conv_div_route 24 MZero 10 12 (-1) = Ok a /\ handed_bits a = 25 /\
            into_ieee_asis true 24 a = Panic Undocumented /\ into_ieee_asis false 24 a = Ok a.
Proof. eexists. repeat split; vm_compute; reflexivity. Qed.

(** outside the class the two builds agree (for all inputs) *)
Theorem into_ieee_debug_release_agree p a : wide p a = false -> into_ieee_asis true p a = into_ieee_asis false p a.
Proof. intros H. unfold into_ieee_asis. rewrite H. reflexivity. Qed.
