(** C19 - proofs about the binary serde formats (Serde/WireModel.v).  Every statement is for all
    inputs; WORD_BYTES = k is an arbitrary positive number (k = 8, 4, 2 are 64-, 32-, 16-bit words). *)
From Dashu Require Import Base.Prelude Base.Words Serde.WireModel.
Open Scope Z_scope.

Local Ltac ediv := Z.to_euclidean_division_equations.

Lemma pos8 : 0 < 8. Proof. lia. Qed.
Lemma B8 : B 8 = 256. Proof. reflexivity. Qed.
Lemma B_mul k : 0 <= k -> B 8 ^ k = B (8 * k).
Proof. intros Hk. unfold B. rewrite <- Z.pow_mul_r by lia. reflexivity. Qed.

(* ---------------------------------------------------------------------------------------------- *)
(** * bit and byte lengths *)

Lemma sblen_nonneg v : 0 <= sblen v.
Proof. unfold sblen. destruct (Z.leb_spec v 0); [lia|]. pose proof (Z.log2_nonneg v). lia. Qed.

Lemma sblen_spec v : 0 < v -> 2 ^ (sblen v - 1) <= v < 2 ^ sblen v.
Proof.
  intros Hv. unfold sblen. destruct (Z.leb_spec v 0); [lia|].
  replace (Z.log2 v + 1 - 1) with (Z.log2 v) by lia.
  pose proof (Z.log2_spec v Hv) as H1. unfold Z.succ in H1. exact H1.
Qed.

Lemma sbyte_len_nonneg v : 0 <= sbyte_len v.
Proof. unfold sbyte_len. pose proof (sblen_nonneg v). ediv. lia. Qed.

Lemma sbyte_len_bound v : 0 <= v -> v < 256 ^ sbyte_len v.
Proof.
  intros Hv. pose proof (sbyte_len_nonneg v) as Hn.
  replace 256 with (2 ^ 8) by reflexivity. rewrite <- Z.pow_mul_r by lia.
  destruct (Z.eq_dec v 0) as [->|Hne].
  - apply Z.pow_pos_nonneg; lia.
  - pose proof (sblen_spec v ltac:(lia)) as [_ H2].
    apply Z.lt_le_trans with (2 ^ sblen v); [exact H2|].
    apply Z.pow_le_mono_r; [lia|]. unfold sbyte_len. ediv. lia.
Qed.

(** the bit length of lo + 2^a * h is a + the bit length of h *)
Lemma log2_shift_add lo a h : 0 <= a -> 0 <= lo < 2 ^ a -> 0 < h -> Z.log2 (lo + 2 ^ a * h) = a + Z.log2 h.
Proof.
  intros Ha Hlo Hh. pose proof (Z.log2_spec h Hh) as [H1 H2]. unfold Z.succ in H2.
  pose proof (Z.log2_nonneg h) as Hl.
  apply Z.log2_unique; [lia|]. unfold Z.succ.
  replace (a + Z.log2 h + 1) with (a + (Z.log2 h + 1)) by lia.
  rewrite !Z.pow_add_r by lia.
  assert (HP : 0 < 2 ^ a) by (apply Z.pow_pos_nonneg; lia).
  assert (H3 : 2 ^ a * 2 ^ Z.log2 h <= 2 ^ a * h) by (apply Z.mul_le_mono_nonneg_l; lia).
  assert (H4 : 2 ^ a * (h + 1) <= 2 ^ a * (2 ^ Z.log2 h * 2 ^ 1)).
  { apply Z.mul_le_mono_nonneg_l; [lia|]. rewrite <- Z.pow_add_r by lia. lia. }
  lia.
Qed.

Lemma sblen_shift_add lo a h : 0 <= a -> 0 <= lo < 2 ^ a -> 0 < h -> sblen (lo + 2 ^ a * h) = a + sblen h.
Proof.
  intros Ha Hlo Hh. assert (0 < 2 ^ a) by (apply Z.pow_pos_nonneg; lia).
  unfold sblen. destruct (Z.leb_spec (lo + 2 ^ a * h) 0); [nia|]. destruct (Z.leb_spec h 0); [lia|].
  rewrite log2_shift_add by lia. lia.
Qed.

(* ---------------------------------------------------------------------------------------------- *)
(** * specification level: decode (encode v) = v *)

Lemma sle_bytes_value v : 0 <= v -> sle_value (sle_bytes v) = v.
Proof.
  intros Hv. unfold sle_value, sle_bytes. apply (value_to_words 8 pos8).
  rewrite Z2Nat.id by apply sbyte_len_nonneg. rewrite B8. split; [lia | apply sbyte_len_bound; lia].
Qed.

Lemma sle_bytes_wf v : wf 8 (sle_bytes v).
Proof. apply (to_words_wf 8 pos8). Qed.

Lemma sle_bytes_len v : len (sle_bytes v) = sbyte_len v.
Proof. unfold len, sle_bytes. rewrite to_words_length, Z2Nat.id by apply sbyte_len_nonneg. reflexivity. Qed.

Theorem ubig_roundtrip v : 0 <= v -> ubig_dec (ubig_enc v) = v.
Proof. exact (sle_bytes_value v). Qed.

Lemma odd_len_snoc bs x : odd_len (bs ++ [x]) = negb (odd_len bs).
Proof.
  unfold odd_len, len. rewrite app_length. cbn [length]. rewrite Nat2Z.inj_add.
  change (Z.of_nat 1) with 1. rewrite Z.odd_add. cbn. now rewrite xorb_true_r.
Qed.

Lemma value_snoc_zero w bs : value w (bs ++ [0]) = value w bs.
Proof. rewrite value_app. cbn [value]. lia. Qed.

Theorem ibig_roundtrip v : ibig_dec (ibig_enc v) = v.
Proof.
  unfold ibig_enc, ibig_dec. destruct (Z.eqb_spec v 0) as [->|Hne]; [reflexivity|].
  pose proof (sle_bytes_value (Z.abs v) ltac:(lia)) as Hval. unfold sle_value in *.
  destruct (Bool.eqb (odd_len (sle_bytes (Z.abs v))) (v <? 0)) eqn:E.
  - apply eqb_prop in E. rewrite E, Hval. destruct (Z.ltb_spec v 0); unfold signed, sgnz; lia.
  - apply eqb_false_iff in E. rewrite odd_len_snoc, value_snoc_zero, Hval.
    destruct (odd_len (sle_bytes (Z.abs v))), (Z.ltb_spec v 0); cbn [negb]; unfold signed, sgnz; try lia; congruence.
Qed.

(** the sign is the parity of the length *)
Theorem ibig_enc_parity v : v <> 0 -> odd_len (ibig_enc v) = (v <? 0).
Proof.
  intros Hne. unfold ibig_enc. destruct (Z.eqb_spec v 0); [lia|].
  destruct (Bool.eqb (odd_len (sle_bytes (Z.abs v))) (v <? 0)) eqn:E.
  - now apply eqb_prop in E.
  - apply eqb_false_iff in E. rewrite odd_len_snoc. destruct (odd_len (sle_bytes (Z.abs v))), (v <? 0); cbn; congruence.
Qed.

Theorem ibig_enc_injective v1 v2 : ibig_enc v1 = ibig_enc v2 -> v1 = v2.
Proof. intros E. rewrite <- (ibig_roundtrip v1), <- (ibig_roundtrip v2), E. reflexivity. Qed.

(** every byte string decodes to an integer whose canonical encoding decodes to the same integer *)
Theorem ibig_dec_canonical bs : ibig_dec (ibig_enc (ibig_dec bs)) = ibig_dec bs.
Proof. apply ibig_roundtrip. Qed.

Lemma ubig_dec_nonneg bs : wf 8 bs -> 0 <= ubig_dec bs.
Proof. intros H. apply (value_nonneg 8 pos8 bs H). Qed.

Theorem ubig_dec_canonical bs : wf 8 bs -> ubig_dec (ubig_enc (ubig_dec bs)) = ubig_dec bs.
Proof. intros H. apply ubig_roundtrip, ubig_dec_nonneg, H. Qed.

(* ---------------------------------------------------------------------------------------------- *)
(** * as-is encoder: words_to_le_bytes for WORD_BYTES = k is the shortest byte string of the value *)
Section Encoder.
Variable k : Z.
Hypothesis k_pos : 0 < k.
Let w := 8 * k.
Lemma w_pos : 0 < w. Proof. unfold w. lia. Qed.

Lemma Bw : B w = 256 ^ k.
Proof. unfold w. rewrite <- B_mul by lia. now rewrite B8. Qed.

Lemma word_bytes_value x : 0 <= x < B w -> value 8 (word_bytes k x) = x.
Proof.
  intros Hx. unfold word_bytes. apply (value_to_words 8 pos8). rewrite Z2Nat.id by lia. rewrite B8, <- Bw. exact Hx.
Qed.

Lemma word_bytes_len x : len (word_bytes k x) = k.
Proof. unfold len, word_bytes. rewrite to_words_length, Z2Nat.id by lia. reflexivity. Qed.

Lemma flat_bytes_wf ws : wf 8 (flat_map (word_bytes k) ws).
Proof.
  induction ws as [|x r IH]; cbn [flat_map]; [apply wf_nil|].
  apply wf_app. split; [apply (to_words_wf 8 pos8) | exact IH].
Qed.

Lemma flat_bytes_len ws : len (flat_map (word_bytes k) ws) = k * len ws.
Proof.
  induction ws as [|x r IH]; [unfold len; cbn; lia|].
  cbn [flat_map]. unfold len in *. rewrite app_length, Nat2Z.inj_add. cbn [length]. rewrite Nat2Z.inj_succ.
  fold (len (word_bytes k x)). rewrite word_bytes_len. lia.
Qed.

Lemma flat_bytes_value ws : wf w ws -> value 8 (flat_map (word_bytes k) ws) = value w ws.
Proof.
  induction ws as [|x r IH]; intros H; [reflexivity|].
  apply wf_cons in H. destruct H as [Hx Hr]. cbn [flat_map value].
  rewrite value_app, word_bytes_value, word_bytes_len, IH by assumption.
  rewrite B8, <- Bw. reflexivity.
Qed.

Lemma firstn_to_words ww : forall m n v, (m <= n)%nat -> firstn m (to_words ww n v) = to_words ww m v.
Proof.
  induction m as [|m IH]; intros n v H; [reflexivity|].
  destruct n as [|n]; [lia|]. cbn [to_words firstn]. f_equal. apply IH. lia.
Qed.

Theorem words_to_le_bytes_spec ws :
  normalized w ws -> ws <> [] -> words_to_le_bytes k ws = sle_bytes (value w ws).
Proof.
  intros [Hwf Hn] Hne. destruct Hn as [->|Hlast]; [congruence|].
  pose proof w_pos as Hw. pose proof (B_pos w Hw) as HB.
  rewrite (app_removelast_last 0 Hne) in Hwf. apply wf_app in Hwf. destruct Hwf as [Hi Hl].
  apply wf_cons in Hl. destruct Hl as [Hl _].
  set (init := removelast ws) in *. set (l := last ws 0) in *.
  assert (Hlpos : 0 < l) by lia.
  (* the value *)
  assert (HV : value w ws = value w init + 2 ^ (w * len init) * l).
  { rewrite (app_removelast_last 0 Hne). fold init l. rewrite value_app. cbn [value].
    unfold B. rewrite <- Z.pow_mul_r by (unfold len; lia). lia. }
  pose proof (value_bounds w Hw init Hi) as Hvi. unfold B in Hvi. rewrite <- Z.pow_mul_r in Hvi by (unfold len; lia).
  assert (Hlen0 : 0 <= len init) by (unfold len; lia).
  (* bit and byte lengths *)
  assert (Hbl : 1 <= sblen l <= w).
  { pose proof (sblen_spec l Hlpos) as [H1 H2]. pose proof (sblen_nonneg l). split.
    - destruct (Z.eq_dec (sblen l) 0) as [E|]; [rewrite E in H2; cbn in H2; lia | lia].
    - destruct (Z.le_gt_cases (sblen l) w); [assumption|].
      assert (2 ^ w <= 2 ^ (sblen l - 1)) by (apply Z.pow_le_mono_r; lia). unfold B in Hl. lia. }
  assert (Hskip : k - (wbits k - sblen l) / 8 = sbyte_len l).
  { unfold wbits, sbyte_len. fold w. unfold w in *. ediv. lia. }
  assert (HbV : sbyte_len (value w ws) = k * len init + sbyte_len l).
  { rewrite HV. unfold sbyte_len. rewrite sblen_shift_add by nia. unfold w. ediv. nia. }
  unfold words_to_le_bytes. fold init l. rewrite Hskip.
  unfold word_bytes at 2. rewrite firstn_to_words.
  2:{ pose proof (sbyte_len_nonneg l). apply Z2Nat.inj_le; [lia | lia |]. unfold sbyte_len, w in *. ediv. lia. }
  (* both sides are well-formed byte lists of the same length and value *)
  apply (value_inj 8 pos8).
  - apply wf_app. split; [apply flat_bytes_wf | apply (to_words_wf 8 pos8)].
  - apply sle_bytes_wf.
  - apply Nat2Z.inj. fold (len (flat_map (word_bytes k) init ++ to_words 8 (Z.to_nat (sbyte_len l)) l)).
    fold (len (sle_bytes (value w ws))). rewrite sle_bytes_len, HbV.
    unfold len. rewrite app_length, Nat2Z.inj_add. fold (len (flat_map (word_bytes k) init)).
    rewrite flat_bytes_len, to_words_length, Z2Nat.id by apply sbyte_len_nonneg. reflexivity.
  - rewrite value_app, flat_bytes_value, flat_bytes_len by assumption.
    fold (sle_bytes l). fold (sle_value (sle_bytes l)). rewrite sle_bytes_value by lia.
    fold (sle_value (sle_bytes (value w ws))). rewrite sle_bytes_value.
    2:{ pose proof (value_nonneg w Hw ws). apply H. rewrite (app_removelast_last 0 Hne). apply wf_app. split; [assumption|].
        apply wf_cons. split; [assumption | apply wf_nil]. }
    rewrite HV, B8. replace 256 with (2 ^ 8) by reflexivity. rewrite <- Z.pow_mul_r by lia.
    replace (8 * (k * len init)) with (w * len init) by (unfold w; ring). reflexivity.
Qed.

Lemma normalized_value_pos ws : normalized w ws -> ws <> [] -> 0 < value w ws.
Proof.
  intros [Hwf Hn] Hne. destruct Hn as [->|Hlast]; [congruence|].
  pose proof w_pos as Hw. pose proof (B_pos w Hw) as HB.
  rewrite (app_removelast_last 0 Hne) in Hwf |- *. apply wf_app in Hwf. destruct Hwf as [Hi Hl].
  apply wf_cons in Hl. destruct Hl as [Hl _].
  rewrite value_app. cbn [value]. pose proof (value_nonneg w Hw _ Hi).
  assert (0 < B w ^ len (removelast ws)) by (apply Z.pow_pos_nonneg; unfold len; lia). nia.
Qed.

(** the binary form of a UBig does not depend on the word size: it is a function of the value *)
Theorem ubig_ser_asis_spec ws : normalized w ws -> ubig_ser_asis k ws = ubig_enc (value w ws).
Proof.
  intros Hn. unfold ubig_ser_asis, ubig_enc. destruct ws as [|x r]; [reflexivity|].
  apply words_to_le_bytes_spec; [assumption | discriminate].
Qed.

Theorem ibig_ser_asis_spec s ws : normalized w ws -> ibig_ser_asis k s ws = ibig_enc (signed s (value w ws)).
Proof.
  intros Hn. unfold ibig_ser_asis, ibig_enc. destruct ws as [|x r].
  - cbn [value]. unfold signed. rewrite Z.mul_0_r. reflexivity.
  - assert (Hne : x :: r <> []) by discriminate.
    pose proof (normalized_value_pos _ Hn Hne) as Hpos.
    rewrite (words_to_le_bytes_spec _ Hn Hne).
    destruct s; unfold signed, sgnz.
    + destruct (Z.eqb_spec (1 * value w (x :: r)) 0); [lia|].
      replace (Z.abs (1 * value w (x :: r))) with (value w (x :: r)) by lia.
      destruct (Z.ltb_spec (1 * value w (x :: r)) 0); [lia|].
      destruct (odd_len (sle_bytes (value w (x :: r)))); reflexivity.
    + destruct (Z.eqb_spec (-1 * value w (x :: r)) 0); [lia|].
      replace (Z.abs (-1 * value w (x :: r))) with (value w (x :: r)) by lia.
      destruct (Z.ltb_spec (-1 * value w (x :: r)) 0); [|lia].
      destruct (odd_len (sle_bytes (value w (x :: r)))); reflexivity.
Qed.

(* ---------------------------------------------------------------------------------------------- *)
(** * as-is decoder: from_le_bytes for WORD_BYTES = k is the little-endian value *)

Lemma chunk_words_nil f : chunk_words k f [] = [].
Proof. destruct f; reflexivity. Qed.

Lemma chunk_words_value : forall f bs, (length bs <= f)%nat -> value w (chunk_words k f bs) = value 8 bs.
Proof.
  induction f as [|f IH]; intros bs Hlen.
  - destruct bs; [reflexivity | cbn in Hlen; lia].
  - destruct bs as [|b t]; [reflexivity|].
    cbn [chunk_words]. set (bs := b :: t) in *. cbn [value].
    assert (Hk : (1 <= Z.to_nat k)%nat) by lia.
    rewrite <- (firstn_skipn (Z.to_nat k) bs) at 3. rewrite value_app.
    destruct (Nat.le_gt_cases (Z.to_nat k) (length bs)) as [Hge|Hlt].
    + rewrite IH.
      2:{ rewrite skipn_length. subst bs. cbn [length] in *. lia. }
      unfold len. rewrite firstn_length_le by assumption. rewrite Z2Nat.id by lia. rewrite B8, Bw. reflexivity.
    + rewrite skipn_all2 by lia. rewrite chunk_words_nil. cbn [value]. lia.
Qed.

Theorem from_le_bytes_asis_spec bs : from_le_bytes_asis k bs = sle_value bs.
Proof.
  unfold from_le_bytes_asis, sle_value. destruct (len bs <=? 2 * k); [reflexivity|].
  fold w. apply chunk_words_value. lia.
Qed.

Theorem ubig_de_asis_spec bs : ubig_de_asis k bs = ubig_dec bs.
Proof. apply from_le_bytes_asis_spec. Qed.

Theorem ibig_de_asis_spec bs : ibig_de_asis k bs = ibig_dec bs.
Proof. unfold ibig_de_asis, ibig_dec, odd_len. now rewrite from_le_bytes_asis_spec. Qed.
End Encoder.

(** two builds with different word sizes write the same bytes for the same number *)
Corollary ubig_bytes_word_size_independent k1 k2 ws1 ws2 :
  0 < k1 -> 0 < k2 -> normalized (8 * k1) ws1 -> normalized (8 * k2) ws2 ->
  value (8 * k1) ws1 = value (8 * k2) ws2 -> ubig_ser_asis k1 ws1 = ubig_ser_asis k2 ws2.
Proof. intros H1 H2 N1 N2 E. rewrite !ubig_ser_asis_spec by assumption. now rewrite E. Qed.

Corollary ibig_bytes_word_size_independent k1 k2 s ws1 ws2 :
  0 < k1 -> 0 < k2 -> normalized (8 * k1) ws1 -> normalized (8 * k2) ws2 ->
  value (8 * k1) ws1 = value (8 * k2) ws2 -> ibig_ser_asis k1 s ws1 = ibig_ser_asis k2 s ws2.
Proof. intros H1 H2 N1 N2 E. rewrite !ibig_ser_asis_spec by assumption. now rewrite E. Qed.

Example word_size_nonvacuous :
  normalized 64 [5; 0; 1] /\ normalized 32 [5; 0; 0; 0; 1] /\ value 64 [5; 0; 1] = value 32 [5; 0; 0; 0; 1] /\
  ubig_ser_asis 8 [5; 0; 1] = [5; 0; 0; 0; 0; 0; 0; 0; 0; 0; 0; 0; 0; 0; 0; 0; 1] /\
  ubig_ser_asis 4 [5; 0; 0; 0; 1] = [5; 0; 0; 0; 0; 0; 0; 0; 0; 0; 0; 0; 0; 0; 0; 0; 1].
Proof.
  repeat split; try (repeat constructor; cbn; lia); try (right; cbn; lia); reflexivity.
Qed.

(* ---------------------------------------------------------------------------------------------- *)
(** * postcard: varints, zigzag, byte strings *)

Lemma varint_loop_roundtrip : forall f i acc n rest,
  Z.of_nat f + i = 10 -> 0 <= i -> 0 <= n < 2 ^ (64 - 7 * i) ->
  varint_dec_loop f i acc (varint_enc_fuel f n ++ rest) = Some (acc + n * 2 ^ (7 * i), rest).
Proof.
  induction f as [|f IH]; intros i acc n rest Hf Hi Hn.
  - cbn [Z.of_nat] in Hf. assert (i = 10) by lia. subst i. cbn in Hn. lia.
  - rewrite Nat2Z.inj_succ in Hf. cbn [varint_enc_fuel].
    destruct (Z.ltb_spec n 128) as [Hlt|Hge].
    + cbn [app varint_dec_loop]. rewrite Z.mod_small by lia.
      destruct (Z.ltb_spec n 128); [|lia].
      destruct (Z.eqb_spec i 9) as [->|Hne]; cbn [andb]; [|reflexivity].
      cbn in Hn. destruct (Z.ltb_spec 1 n); [lia | reflexivity].
    + assert (Hi8 : i <= 8).
      { destruct (Z.le_gt_cases i 8); [assumption|]. assert (i = 9) by lia. subst i. cbn in Hn. lia. }
      cbn [app varint_dec_loop].
      assert (Hm : 0 <= n mod 128 < 128) by (apply Z.mod_pos_bound; lia).
      destruct (Z.ltb_spec (n mod 128 + 128) 128); [lia|].
      replace ((n mod 128 + 128) mod 128) with (n mod 128).
      2:{ replace (n mod 128 + 128) with (n mod 128 + 1 * 128) by lia. rewrite Z.mod_add by lia. rewrite Z.mod_mod by lia. reflexivity. }
      rewrite IH.
      * f_equal. f_equal. replace (7 * (i + 1)) with (7 * i + 7) by lia. rewrite Z.pow_add_r by lia.
        change (2 ^ 7) with 128. pose proof (Z.div_mod n 128 ltac:(lia)). nia.
      * lia.
      * lia.
      * split; [apply Z.div_pos; lia|]. apply Z.div_lt_upper_bound; [lia|].
        replace (64 - 7 * i) with (7 + (64 - 7 * (i + 1))) in Hn by lia. rewrite Z.pow_add_r in Hn by lia.
        change (2 ^ 7) with 128 in Hn. lia.
Qed.

Theorem varint_roundtrip n rest : 0 <= n < 2 ^ 64 -> varint_dec (varint_enc n ++ rest) = Some (n, rest).
Proof.
  intros Hn. unfold varint_dec, varint_enc. rewrite varint_loop_roundtrip; [| reflexivity | lia | exact Hn].
  f_equal. f_equal. cbn. lia.
Qed.

Theorem zigzag_roundtrip n : unzigzag (zigzag n) = n /\ 0 <= zigzag n.
Proof.
  unfold zigzag, unzigzag. destruct (Z.ltb_spec n 0).
  - replace (-2 * n - 1) with (1 + 2 * (- n - 1)) by lia. rewrite Z.even_add_mul_2. cbn [Z.even].
    split; [|lia]. replace (1 + 2 * (- n - 1) + 1) with ((- n) * 2) by lia. rewrite Z.div_mul by lia. lia.
  - rewrite Z.even_mul. cbn [Z.even orb]. split; [|lia]. rewrite Z.mul_comm, Z.div_mul by lia. reflexivity.
Qed.

(** an isize exponent fits the u64 varint *)
Lemma zigzag_range n : - 2 ^ 63 <= n < 2 ^ 63 -> 0 <= zigzag n < 2 ^ 64.
Proof. intros H. unfold zigzag. destruct (Z.ltb_spec n 0); lia. Qed.

Lemma firstn_len_app {A} (a b : list A) : firstn (Z.to_nat (len a)) (a ++ b) = a.
Proof.
  unfold len. rewrite Nat2Z.id. rewrite firstn_app, Nat.sub_diag, firstn_all. cbn [firstn]. apply app_nil_r.
Qed.
Lemma skipn_len_app {A} (a b : list A) : skipn (Z.to_nat (len a)) (a ++ b) = b.
Proof.
  unfold len. rewrite Nat2Z.id. rewrite skipn_app, Nat.sub_diag, skipn_all. reflexivity.
Qed.

Theorem bytes_roundtrip bs rest : len bs < 2 ^ 64 -> bytes_dec (bytes_enc bs ++ rest) = Some (bs, rest).
Proof.
  intros Hl. unfold bytes_dec, bytes_enc. rewrite <- app_assoc.
  rewrite varint_roundtrip by (unfold len in *; lia).
  destruct (Z.leb_spec (len bs) (len (bs ++ rest))) as [_|H].
  - now rewrite firstn_len_app, skipn_len_app.
  - unfold len in H. rewrite app_length, Nat2Z.inj_add in H. lia.
Qed.

Theorem w_ubig_roundtrip v rest : 0 <= v -> sbyte_len v < 2 ^ 64 -> w_ubig_dec (w_ubig_enc v ++ rest) = Some (v, rest).
Proof.
  intros Hv Hl. unfold w_ubig_dec, w_ubig_enc. rewrite bytes_roundtrip.
  - now rewrite ubig_roundtrip.
  - unfold ubig_enc. now rewrite sle_bytes_len.
Qed.

Theorem w_ibig_roundtrip v rest : len (ibig_enc v) < 2 ^ 64 -> w_ibig_dec (w_ibig_enc v ++ rest) = Some (v, rest).
Proof.
  intros Hl. unfold w_ibig_dec, w_ibig_enc. rewrite bytes_roundtrip by assumption. now rewrite ibig_roundtrip.
Qed.

(* ---------------------------------------------------------------------------------------------- *)
(** * rationals *)

Lemma rat_reduce_canon n d : 0 < d -> let '(n', d') := rat_reduce n d in rat_canon n' d' /\ n' * d = n * d'.
Proof.
  intros Hd. unfold rat_reduce. destruct (Z.eqb_spec n 0) as [->|Hn].
  - split; [split; [lia | reflexivity] | lia].
  - set (g := Z.gcd n d). assert (Hg : 0 < g).
    { pose proof (Z.gcd_nonneg n d). destruct (Z.eq_dec g 0) as [E|]; [|lia]. apply Z.gcd_eq_0_r in E. lia. }
    destruct (Z.gcd_divide_l n d) as [a Ha]. destruct (Z.gcd_divide_r n d) as [b Hb]. fold g in Ha, Hb.
    assert (En : n / g = a) by (rewrite Ha at 1; apply Z.div_mul; lia).
    assert (Ed : d / g = b) by (rewrite Hb at 1; apply Z.div_mul; lia).
    split; [split|].
    + rewrite Ed. nia.
    + apply Z.gcd_div_gcd; [lia | reflexivity].
    + rewrite En, Ed. clearbody g. rewrite Ha, Hb. ring.
Qed.

(** every pair of fields is rejected or decoded to a rational in lowest terms with a positive
    denominator (after the repair; the denominator of a UBig field is never negative) *)
Theorem rbig_of_fields_canonical n d v : 0 <= d -> rbig_of_fields true n d = Ok v -> rat_canon (fst v) (snd v).
Proof.
  intros Hd. unfold rbig_of_fields. cbn [andb]. destruct (Z.eqb_spec d 0); [discriminate|].
  intros E. injection E as <-. pose proof (rat_reduce_canon n d ltac:(lia)) as H.
  destruct (rat_reduce n d) as [n' d']. exact (proj1 H).
Qed.

Theorem rbig_of_fields_value n d v : 0 <= d -> rbig_of_fields true n d = Ok v -> fst v * d = n * snd v.
Proof.
  intros Hd. unfold rbig_of_fields. cbn [andb]. destruct (Z.eqb_spec d 0); [discriminate|].
  intros E. injection E as <-. pose proof (rat_reduce_canon n d ltac:(lia)) as H.
  destruct (rat_reduce n d) as [n' d']. exact (proj2 H).
Qed.

Theorem rbig_of_fields_roundtrip n d : rat_canon n d -> rbig_of_fields true n d = Ok (n, d).
Proof.
  intros [Hd Hg]. unfold rbig_of_fields. cbn [andb]. destruct (Z.eqb_spec d 0); [lia|].
  unfold rat_reduce. destruct (Z.eqb_spec n 0) as [->|Hn].
  - rewrite Z.gcd_0_l in Hg. assert (d = 1) by lia. subst d. reflexivity.
  - rewrite Hg, !Z.div_1_r. reflexivity.
Qed.

(** the defect repaired by F01 stays refuted: without the test a zero denominator is constructed
    (RBig) resp. the decoder panics (Relaxed) *)
Theorem rbig_zero_denominator_refuted :
  w_rbig_dec false [2; 2; 0; 0] = Ok (1, 0, []) /\ ~ rat_canon 1 0 /\
  w_relaxed_dec false [2; 2; 0; 0] = Panic Undocumented /\
  w_rbig_dec true [2; 2; 0; 0] = Err 2 /\ w_relaxed_dec true [2; 2; 0; 0] = Err 2.
Proof. repeat split; try reflexivity. intros [H _]. lia. Qed.

Lemma relaxed_of_fields_ok n d v : 0 <= d -> relaxed_of_fields true n d = Ok v -> 0 < snd v /\ fst v * d = n * snd v.
Proof.
  intros Hd. unfold relaxed_of_fields. destruct (Z.eqb_spec d 0); [discriminate|].
  intros E. injection E as <-. unfold rat_reduce2. destruct (Z.eqb_spec n 0) as [->|Hn]; [cbn; lia|].
  set (g := Z.gcd (Z.gcd n d) (2 ^ Z.log2 d)).
  assert (Hgd : (g | Z.gcd n d)) by apply Z.gcd_divide_l.
  assert (Hg : 0 < g).
  { pose proof (Z.gcd_nonneg (Z.gcd n d) (2 ^ Z.log2 d)). fold g in H. destruct (Z.eq_dec g 0) as [E|]; [|lia].
    apply Z.gcd_eq_0_l in E. apply Z.gcd_eq_0_r in E. lia. }
  assert (Hn' : (g | n)) by (eapply Z.divide_trans; [exact Hgd | apply Z.gcd_divide_l]).
  assert (Hd' : (g | d)) by (eapply Z.divide_trans; [exact Hgd | apply Z.gcd_divide_r]).
  destruct Hn' as [a Ha]. destruct Hd' as [b Hb]. cbn [fst snd].
  assert (En : n / g = a) by (rewrite Ha at 1; apply Z.div_mul; lia).
  assert (Ed : d / g = b) by (rewrite Hb at 1; apply Z.div_mul; lia).
  rewrite En, Ed. split; [nia|]. clearbody g. rewrite Ha, Hb. ring.
Qed.

(* ---------------------------------------------------------------------------------------------- *)
(** * floats *)

Lemma strip_fuel_canon B : 2 <= B -> forall f s e, s <> 0 -> Z.abs s < 2 ^ Z.of_nat f ->
  let '(s', e') := strip_fuel f B s e in s' <> 0 /\ s' mod B <> 0 /\ s = s' * B ^ (e' - e) /\ e <= e'.
Proof.
  intros HB. induction f as [|f IH]; intros s e Hs Hb.
  - cbn in Hb. lia.
  - cbn [strip_fuel]. destruct (Z.eqb_spec (s mod B) 0) as [Hm|Hm].
    + assert (Hdiv : s = B * (s / B)) by (pose proof (Z.div_mod s B ltac:(lia)); lia).
      assert (Hq : s / B <> 0) by (intros E; rewrite E in Hdiv; lia).
      assert (Hqb : Z.abs (s / B) < 2 ^ Z.of_nat f).
      { rewrite Nat2Z.inj_succ, Z.pow_succ_r in Hb by lia.
        assert (Z.abs s = B * Z.abs (s / B)) by (rewrite Hdiv at 1; rewrite Z.abs_mul; lia). nia. }
      specialize (IH (s / B) (e + 1) Hq Hqb). destruct (strip_fuel f B (s / B) (e + 1)) as [s' e'].
      destruct IH as (H1 & H2 & H3 & H4). repeat split; try assumption; [|lia].
      rewrite Hdiv at 1. rewrite H3. replace (e' - e) with (1 + (e' - (e + 1))) by lia.
      rewrite Z.pow_add_r by lia. rewrite Z.pow_1_r. ring.
    + repeat split; try assumption; [|lia]. rewrite Z.sub_diag, Z.pow_0_r. lia.
Qed.

Lemma fnormalize_canon B s e : 2 <= B -> s <> 0 ->
  let '(s', e') := fnormalize B s e in s' <> 0 /\ s' mod B <> 0 /\ s = s' * B ^ (e' - e) /\ e <= e'.
Proof.
  intros HB Hs. unfold fnormalize. destruct (Z.eqb_spec s 0); [lia|].
  apply strip_fuel_canon; [assumption | assumption |].
  pose proof (Z.log2_nonneg (Z.abs s)). rewrite Z2Nat.id by lia.
  pose proof (Z.log2_spec (Z.abs s) ltac:(lia)) as [_ H2]. unfold Z.succ in H2. exact H2.
Qed.

(** every triple of fields is rejected or decoded to a canonical float (after the repairs) *)
Theorem fbig_of_fields_canonical B s e p v : 2 <= B -> 0 <= p ->
  fbig_of_fields true B s e p = Some v -> let '(s', e', p') := v in fbig_canon B s' e' p' /\ p' = p.
Proof.
  intros HB Hp. unfold fbig_of_fields, repr_of_fields. destruct (Z.eqb_spec s 0) as [->|Hs].
  - destruct (Z.eqb_spec e 0) as [->|]; [|destruct (Z.eqb_spec e 1) as [->|]; [|destruct (Z.eqb_spec e (-1)) as [->|]; [|discriminate]]].
    all: cbn [is_inf Z.eqb negb andb].
    all: match goal with |- (if ?c then _ else _) = _ -> _ => destruct c; [discriminate|] end.
    all: intros E; injection E as <-; split; [|reflexivity]; split; [left; split; [reflexivity|lia] | right; left; reflexivity].
  - pose proof (fnormalize_canon B s e HB Hs) as H. destruct (fnormalize B s e) as [s' e'].
    destruct H as (H1 & H2 & _ & _). unfold is_inf. destruct (Z.eqb_spec s' 0); [lia|]. cbn [andb negb].
    destruct (Z.eqb_spec p 0) as [->|Hp0]; cbn [negb andb].
    + intros E; injection E as <-. split; [|reflexivity]. split; [right; split; assumption | left; reflexivity].
    + destruct (Z.ltb_spec p (ndigits B s')); [discriminate|].
      intros E; injection E as <-. split; [|reflexivity]. split; [right; split; assumption | right; right; assumption].
Qed.

Theorem fbig_of_fields_roundtrip B s e p : fbig_canon B s e p -> 0 <= p -> fbig_of_fields true B s e p = Some (s, e, p).
Proof.
  intros [Hr Hpc] Hp. unfold fbig_of_fields, repr_of_fields. destruct Hr as [[-> He]|[Hs Hm]].
  - cbn [Z.eqb]. destruct He as [ -> | [ -> | -> ] ]; cbn [Z.eqb is_inf negb andb].
    + destruct (negb (p =? 0)); cbn [andb]; try reflexivity.
      destruct (Z.ltb_spec p (ndigits B 0)) as [H|H]; [|reflexivity]. exfalso. change (ndigits B 0) with 0 in H. lia.
    + destruct (negb (p =? 0)); cbn [andb]; reflexivity.
    + destruct (negb (p =? 0)); cbn [andb]; reflexivity.
  - destruct (Z.eqb_spec s 0); [lia|].
    assert (Hn : fnormalize B s e = (s, e)).
    { unfold fnormalize. destruct (Z.eqb_spec s 0); [lia|].
      pose proof (Z.log2_nonneg (Z.abs s)).
      destruct (Z.to_nat (Z.log2 (Z.abs s) + 1)) eqn:E; [lia|]. cbn [strip_fuel].
      destruct (Z.eqb_spec (s mod B) 0); [lia | reflexivity]. }
    rewrite Hn. unfold is_inf. destruct (Z.eqb_spec s 0); [lia|]. cbn [andb negb].
    destruct (Z.eqb_spec p 0); cbn [negb andb]; [reflexivity|].
    destruct (Z.ltb_spec p (ndigits B s)); [lia | reflexivity].
Qed.

(** the defects repaired by F02 / F03 stay refuted *)
Theorem fbig_infinity_refuted :
  w_fbig_dec false 2 (w_fbig_enc 0 1 0) = Some (0, 0, 0, []) /\       (* +infinity came back as zero *)
  w_fbig_dec true 2 (w_fbig_enc 0 1 0) = Some (0, 1, 0, []) /\
  w_fbig_dec true 2 (w_fbig_enc 0 (-1) 0) = Some (0, -1, 0, []) /\
  w_repr_dec false 10 (w_repr_enc 0 1) = Some (0, 0, []) /\ w_repr_dec true 10 (w_repr_enc 0 1) = Some (0, 1, []).
Proof. repeat split; reflexivity. Qed.

Theorem fbig_precision_refuted :
  w_fbig_dec false 10 [2; 57; 48; 0; 2] = Some (12345, 0, 2, []) /\ ~ fbig_canon 10 12345 0 2 /\
  w_fbig_dec true 10 [2; 57; 48; 0; 2] = None /\ w_fbig_dec true 10 [2; 57; 48; 0; 5] = Some (12345, 0, 5, []).
Proof.
  repeat split; try reflexivity. intros [_ [H|[H|H]]]; try lia. vm_compute in H. apply H. reflexivity.
Qed.

(** wire round trip of canonical floats *)
Theorem w_fbig_roundtrip B s e p rest :
  fbig_canon B s e p -> len (ibig_enc s) < 2 ^ 64 -> - 2 ^ 63 <= e < 2 ^ 63 -> 0 <= p < 2 ^ 64 ->
  w_fbig_dec true B (w_fbig_enc s e p ++ rest) = Some (s, e, p, rest).
Proof.
  intros Hc Hl He Hp. unfold w_fbig_dec, w_fbig_enc, w_repr_enc, w_repr_fields.
  rewrite <- !app_assoc. rewrite w_ibig_roundtrip by assumption.
  rewrite varint_roundtrip by (apply zigzag_range; assumption).
  rewrite (proj1 (zigzag_roundtrip e)). rewrite varint_roundtrip by assumption.
  rewrite fbig_of_fields_roundtrip by (assumption || lia). reflexivity.
Qed.

Theorem w_rbig_roundtrip n d rest :
  rat_canon n d -> len (ibig_enc n) < 2 ^ 64 -> sbyte_len d < 2 ^ 64 ->
  w_rbig_dec true (w_rat_enc n d ++ rest) = Ok (n, d, rest).
Proof.
  intros Hc Hn Hd. unfold w_rbig_dec, w_rat_enc, w_rat_fields. rewrite <- app_assoc.
  rewrite w_ibig_roundtrip by assumption. rewrite w_ubig_roundtrip by (destruct Hc; lia || assumption).
  rewrite rbig_of_fields_roundtrip by assumption. reflexivity.
Qed.

Example wire_nonvacuous :
  rat_canon (-3) 4 /\ w_rbig_dec true (w_rat_enc (-3) 4) = Ok (-3, 4, []) /\
  fbig_canon 10 (-123) 2 5 /\ w_fbig_dec true 10 (w_fbig_enc (-123) 2 5) = Some (-123, 2, 5, []) /\
  varint_enc 300 = [172; 2] /\ ibig_enc (-255) = [255] /\ ibig_enc 255 = [255; 0] /\ ibig_enc 256 = [0; 1].
Proof.
  split; [split; [lia | reflexivity]|]. split; [reflexivity|].
  split.
  { split; [right; split; [lia | intros H; vm_compute in H; discriminate] | right; right; intros H; vm_compute in H; discriminate]. }
  repeat split; reflexivity.
Qed.

(* ---------------------------------------------------------------------------------------------- *)
(** * whole inputs: every byte string is rejected or decoded to a canonical value, never a panic *)

Lemma varint_dec_loop_suffix : forall f i acc bs n rest,
  varint_dec_loop f i acc bs = Some (n, rest) -> exists pre, bs = pre ++ rest.
Proof.
  induction f as [|f IH]; intros i acc bs n rest H; [discriminate|].
  cbn [varint_dec_loop] in H. destruct bs as [|b t]; [discriminate|].
  destruct (b <? 128).
  - destruct ((i =? 9) && (1 <? b)); [discriminate|]. injection H as _ <-. exists [b]. reflexivity.
  - apply IH in H. destruct H as [pre ->]. exists (b :: pre). reflexivity.
Qed.

Lemma varint_dec_loop_nonneg : forall f i acc bs n rest, 0 <= i -> 0 <= acc -> wf 8 bs ->
  varint_dec_loop f i acc bs = Some (n, rest) -> 0 <= n.
Proof.
  induction f as [|f IH]; intros i acc bs n rest Hi Ha Hwf H; [discriminate|].
  cbn [varint_dec_loop] in H. destruct bs as [|b t]; [discriminate|].
  apply wf_cons in Hwf. destruct Hwf as [Hb Ht].
  assert (Hm : 0 <= (b mod 128) * 2 ^ (7 * i)).
  { apply Z.mul_nonneg_nonneg; [apply Z.mod_pos_bound; lia | apply Z.pow_nonneg; lia]. }
  destruct (b <? 128).
  - destruct ((i =? 9) && (1 <? b)); [discriminate|]. injection H as E1 _. rewrite <- E1. apply Z.add_nonneg_nonneg; assumption.
  - eapply IH; [| | exact Ht | exact H]; [lia | apply Z.add_nonneg_nonneg; assumption].
Qed.

Lemma bytes_dec_wf input bs rest : wf 8 input -> bytes_dec input = Some (bs, rest) -> wf 8 bs /\ wf 8 rest.
Proof.
  intros Hwf. unfold bytes_dec, varint_dec. destruct (varint_dec_loop 10 0 0 input) as [[n r]|] eqn:E; [|discriminate].
  apply varint_dec_loop_suffix in E. destruct E as [pre ->]. apply wf_app in Hwf. destruct Hwf as [_ Hr].
  destruct (n <=? len r); [|discriminate]. intros H. injection H as <- <-.
  rewrite <- (firstn_skipn (Z.to_nat n) r) in Hr. apply wf_app in Hr. exact Hr.
Qed.

Theorem w_rbig_dec_total input : wf 8 input ->
  match w_rbig_dec true input with
  | Ok (n, d, rest) => rat_canon n d /\ wf 8 rest
  | Err _ => True
  | Panic _ | OutOfFuel => False
  end.
Proof.
  intros Hwf. unfold w_rbig_dec, w_rat_fields, w_ibig_dec, w_ubig_dec.
  destruct (bytes_dec input) as [[b1 r1]|] eqn:E1; [|exact I].
  destruct (bytes_dec_wf _ _ _ Hwf E1) as [_ Hr1].
  destruct (bytes_dec r1) as [[b2 r2]|] eqn:E2; [|exact I].
  destruct (bytes_dec_wf _ _ _ Hr1 E2) as [Hb2 Hr2].
  pose proof (ubig_dec_nonneg b2 Hb2) as Hd.
  destruct (rbig_of_fields true (ibig_dec b1) (ubig_dec b2)) as [[n d]| | |] eqn:E3; cbn [rbind].
  - split; [|exact Hr2]. apply (rbig_of_fields_canonical _ _ (n, d) Hd E3).
  - unfold rbig_of_fields in E3. destruct (true && (ubig_dec b2 =? 0)); discriminate.
  - exact I.
  - unfold rbig_of_fields in E3. destruct (true && (ubig_dec b2 =? 0)); discriminate.
Qed.

Theorem w_relaxed_dec_total input : wf 8 input ->
  match w_relaxed_dec true input with
  | Ok (n, d, rest) => 0 < d /\ wf 8 rest
  | Err _ => True
  | Panic _ | OutOfFuel => False
  end.
Proof.
  intros Hwf. unfold w_relaxed_dec, w_rat_fields, w_ibig_dec, w_ubig_dec.
  destruct (bytes_dec input) as [[b1 r1]|] eqn:E1; [|exact I].
  destruct (bytes_dec_wf _ _ _ Hwf E1) as [_ Hr1].
  destruct (bytes_dec r1) as [[b2 r2]|] eqn:E2; [|exact I].
  destruct (bytes_dec_wf _ _ _ Hr1 E2) as [Hb2 Hr2].
  pose proof (ubig_dec_nonneg b2 Hb2) as Hd.
  destruct (relaxed_of_fields true (ibig_dec b1) (ubig_dec b2)) as [[n d]| | |] eqn:E3; cbn [rbind].
  - split; [|exact Hr2]. apply (relaxed_of_fields_ok _ _ (n, d) Hd E3).
  - unfold relaxed_of_fields in E3. destruct (ubig_dec b2 =? 0); discriminate.
  - exact I.
  - unfold relaxed_of_fields in E3. destruct (ubig_dec b2 =? 0); discriminate.
Qed.

Theorem w_fbig_dec_total B input : 2 <= B -> wf 8 input ->
  match w_fbig_dec true B input with
  | Some (s, e, p, rest) => fbig_canon B s e p /\ wf 8 rest
  | None => True
  end.
Proof.
  intros HB Hwf. unfold w_fbig_dec, w_repr_fields, w_ibig_dec.
  destruct (bytes_dec input) as [[b1 r1]|] eqn:E1; [|exact I].
  destruct (bytes_dec_wf _ _ _ Hwf E1) as [_ Hr1].
  unfold varint_dec. destruct (varint_dec_loop 10 0 0 r1) as [[u r2]|] eqn:E2; [|exact I].
  destruct (varint_dec_loop_suffix _ _ _ _ _ _ E2) as [pre2 ->]. apply wf_app in Hr1. destruct Hr1 as [_ Hr2].
  destruct (varint_dec_loop 10 0 0 r2) as [[p r3]|] eqn:E3; [|exact I].
  pose proof (varint_dec_loop_nonneg 10 0 0 r2 p r3 ltac:(lia) ltac:(lia) Hr2 E3) as Hp.
  destruct (varint_dec_loop_suffix _ _ _ _ _ _ E3) as [pre3 ->]. apply wf_app in Hr2. destruct Hr2 as [_ Hr3].
  destruct (fbig_of_fields true B (ibig_dec b1) (unzigzag u) p) as [[[s e] p']|] eqn:E4; [|exact I].
  pose proof (fbig_of_fields_canonical B _ _ _ (s, e, p') HB Hp E4) as [Hc ->]. split; assumption.
Qed.
