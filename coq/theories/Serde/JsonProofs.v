(** C19 (deepening round 3) - the human-readable serde forms round trip, do not depend on the word size, and the
    one value they do NOT round trip (open finding fbig_json_inf_collision) is characterised exactly.
    Cites C07 (parse_print, fmt_asis_correct, from_str_prefix_asis_correct) and C08 (display_parse_roundtrip_asis). *)
From Coq Require Import Znumtheory.
From Dashu Require Import Base.Prelude Int.IoSpec Int.IoModel Int.IoDigits Int.IoRound Int.IoPow2 Int.IoTop.
From Dashu Require Import Float.RoundSpec Float.TextIoSpec Float.TextIoModel Float.TextIoProof Float.ParseProof.
From Dashu Require Import Serde.WireModel Serde.WireProofs Serde.JsonModel.
Open Scope Z_scope.

(* ---------------------------------------------------------------------------------------------- *)
(** * decimal text *)
Definition dec_char (c : Z) : Prop := 48 <= c <= 57.

Lemma dec_text_chars n : 0 <= n -> Forall dec_char (digit_text false 10 n).
Proof.
  intros Hn. unfold digit_text. pose proof (digits_spec_range 10 ltac:(lia) n Hn) as Hr. unfold in_range in Hr.
  induction Hr as [|d t Hd _ IH]; cbn [map]; constructor; [|exact IH].
  unfold dec_char, digit_char. destruct (Z.ltb_spec d 10); lia.
Qed.

Lemma strip_radix_prefix_dec default c t : dec_char c -> Forall dec_char t ->
  strip_radix_prefix default (c :: t) = (default, c :: t).
Proof.
  intros Hc Ht. destruct t as [|c1 t]; [unfold dec_char in Hc; unfold strip_radix_prefix;
    destruct c as [|p|p]; try reflexivity; repeat (destruct p as [p|p|]; try reflexivity)|].
  inversion Ht as [|? ? Hc1 _]; subst. unfold dec_char in Hc, Hc1. unfold strip_radix_prefix.
  destruct c as [|p|p]; try reflexivity.
  repeat (destruct p as [p|p|]; try reflexivity; try lia);
  destruct c1 as [|q|q]; try reflexivity; try lia;
  repeat (destruct q as [q|q|]; try reflexivity; try lia).
Qed.

Lemma json_int_text_shape v :
  json_int_text v = Ok ((if v <? 0 then [45] else []) ++ digit_text false 10 (Z.abs v)).
Proof.
  unfold json_int_text, fmt_spec. cbn [kind_radix kind_prefix kind_upper].
  rewrite (radix_valid_r 10) by lia. unfold pad_integral_spec, json_flags. cbn [f_width f_alt f_plus].
  destruct (Z.leb_spec 0 v), (Z.ltb_spec v 0); try lia; reflexivity.
Qed.

(** print, then parse with the radix-prefix front end (the decimal text never looks like 0b / 0o / 0x) *)
Theorem json_int_roundtrip : forall v t, json_int_text v = Ok t ->
  json_int_de true t = Ok v /\ (0 <= v -> json_int_de false t = Ok v).
Proof.
  intros v t. rewrite json_int_text_shape. intros H. injection H as <-.
  pose proof (dec_text_chars (Z.abs v) ltac:(lia)) as Hch.
  pose proof (parse_print 10 ltac:(lia) ltac:(lia) false (Z.abs v) ltac:(lia)) as Hp.
  destruct (digit_text false 10 (Z.abs v)) as [|c tl] eqn:E.
  { destruct (digit_text_head 10 ltac:(lia) ltac:(lia) false (Z.abs v) ltac:(lia)) as (c & tl & E' & _). congruence. }
  inversion Hch as [|? ? Hc Htl]; subst.
  assert (P : forall sg, from_str_prefix_spec sg 10 (c :: tl) = Ok (Z.abs v, 10)).
  { intros sg. unfold from_str_prefix_spec, from_str_prefix_gen. rewrite strip_sign_digit by (unfold dec_char in Hc; lia).
    rewrite strip_radix_prefix_dec by assumption. rewrite Hp. cbn [rmap rbind]. unfold signed, sgnz. do 2 f_equal. lia. }
  unfold json_int_de. destruct (Z.ltb_spec v 0) as [Hneg|Hpos]; cbn [app].
  - split; [|lia]. unfold from_str_prefix_spec, from_str_prefix_gen. cbn [strip_sign].
    rewrite strip_radix_prefix_dec by assumption. rewrite Hp. cbn [rmap rbind fst]. unfold signed, sgnz. f_equal. lia.
  - split; [|intros _]; rewrite P; cbn [rmap rbind fst]; f_equal; lia.
Qed.

(** the as-is printer / parser at ANY word size produce / accept the same texts *)
Theorem json_int_any_word_size : forall w, 0 < w -> w mod 2 = 0 -> 36 < IoModel.Bw w ->
  (forall v, json_int_text_asis w v = json_int_text v) /\ (forall sg s, json_int_de_asis w sg s = json_int_de sg s).
Proof.
  intros w A B C. split.
  - intros v. exact (fmt_asis_correct w KDisplay json_flags v A B C).
  - intros sg s. unfold json_int_de_asis, json_int_de. rewrite (from_str_prefix_asis_correct w sg 10 s A B C ltac:(lia)). reflexivity.
Qed.

Corollary json_int_asis_roundtrip : forall w, 0 < w -> w mod 2 = 0 -> 36 < IoModel.Bw w -> forall v t,
  json_int_text_asis w v = Ok t -> json_int_de_asis w true t = Ok v /\ (0 <= v -> json_int_de_asis w false t = Ok v).
Proof.
  intros w A B C v t H. destruct (json_int_any_word_size w A B C) as [P Q]. rewrite P in H. rewrite !Q.
  exact (json_int_roundtrip v t H).
Qed.

(* ---------------------------------------------------------------------------------------------- *)
(** * rationals *)
Lemma split_slash_app a b : Forall (fun c => c <> 47) a -> split_slash (a ++ 47 :: b) = Some (a, b).
Proof.
  induction 1 as [|c t Hc _ IH]; cbn [app split_slash]; [reflexivity|].
  destruct (Z.eqb_spec c 47); [contradiction|]. rewrite IH. reflexivity.
Qed.
Lemma split_slash_none a : Forall (fun c => c <> 47) a -> split_slash a = None.
Proof.
  induction 1 as [|c t Hc _ IH]; cbn [split_slash]; [reflexivity|].
  destruct (Z.eqb_spec c 47); [contradiction|]. rewrite IH. reflexivity.
Qed.

Lemma int_text_no_slash v t : json_int_text v = Ok t -> Forall (fun c => c <> 47) t.
Proof.
  rewrite json_int_text_shape. intros H. injection H as <-.
  pose proof (dec_text_chars (Z.abs v) ltac:(lia)) as Hch.
  apply Forall_app. split; [destruct (v <? 0); repeat constructor; lia|].
  eapply Forall_impl; [|exact Hch]. unfold dec_char. intros; lia.
Qed.

Lemma rat_reduce_id n d : rat_canon n d -> rat_reduce n d = (n, d).
Proof.
  intros [Hd Hg]. unfold rat_reduce. destruct (Z.eqb_spec n 0) as [->|Hn].
  - rewrite Z.gcd_0_l in Hg. f_equal. lia.
  - rewrite Hg, !Z.div_1_r. reflexivity.
Qed.

(** the text of a rational in lowest terms decodes to the same pair *)
Lemma json_rat_roundtrip_gen : forall (relaxed : bool) n d t, 0 < d ->
  (if relaxed then rat_reduce2 n d else rat_reduce n d) = (n, d) ->
  json_rat_text n d = Ok t -> json_rat_de relaxed t = Ok (n, d).
Proof.
  intros relaxed n d t Hd Hc. unfold json_rat_text, json_rat_de, rat_from_str_prefix.
  destruct (Z.eqb_spec d 1) as [->|Hd1].
  - intros Ht. rewrite (split_slash_none t (int_text_no_slash n t Ht)).
    pose proof (proj1 (json_int_roundtrip n t Ht)) as R. unfold json_int_de in R.
    destruct (from_str_prefix_spec true 10 t) as [[v r]| | |]; cbn [rmap rbind fst] in R; try discriminate.
    injection R as ->. cbn [rbind fst snd]. rewrite Hc. reflexivity.
  - destruct (json_int_text n) as [tn| | |] eqn:En; cbn [rbind]; try discriminate.
    destruct (json_int_text d) as [td| | |] eqn:Ed; cbn [rbind]; try discriminate.
    intros H. injection H as <-. rewrite (split_slash_app tn td (int_text_no_slash n tn En)).
    (* numerator: prefix front end with default 10; denominator: default = the numerator's radix = 10 *)
    assert (Rn : from_str_prefix_spec true 10 tn = Ok (n, 10)).
    { pose proof (proj1 (json_int_roundtrip n tn En)) as R. unfold json_int_de in R.
      rewrite json_int_text_shape in En. injection En as <-.
      pose proof (dec_text_chars (Z.abs n) ltac:(lia)) as Hch.
      unfold from_str_prefix_spec, from_str_prefix_gen in *.
      destruct (digit_text false 10 (Z.abs n)) as [|c tl] eqn:E.
      { destruct (digit_text_head 10 ltac:(lia) ltac:(lia) false (Z.abs n) ltac:(lia)) as (c & tl & E' & _). congruence. }
      inversion Hch as [|? ? Hc0 Htl]; subst.
      destruct (n <? 0); cbn [app] in *.
      - cbn [strip_sign] in *. rewrite strip_radix_prefix_dec in * by assumption.
        destruct (body_spec 10 (c :: tl)); cbn [rmap rbind fst] in *; try discriminate. injection R as <-. reflexivity.
      - rewrite strip_sign_digit in * by (unfold dec_char in Hc0; lia). rewrite strip_radix_prefix_dec in * by assumption.
        destruct (body_spec 10 (c :: tl)); cbn [rmap rbind fst] in *; try discriminate. injection R as <-. reflexivity. }
    assert (Rd : from_str_prefix_spec true 10 td = Ok (d, 10)).
    { pose proof (proj1 (json_int_roundtrip d td Ed)) as R. unfold json_int_de in R.
      rewrite json_int_text_shape in Ed. injection Ed as <-.
      pose proof (dec_text_chars (Z.abs d) ltac:(lia)) as Hch.
      unfold from_str_prefix_spec, from_str_prefix_gen in *.
      destruct (digit_text false 10 (Z.abs d)) as [|c tl] eqn:E.
      { destruct (digit_text_head 10 ltac:(lia) ltac:(lia) false (Z.abs d) ltac:(lia)) as (c & tl & E' & _). congruence. }
      inversion Hch as [|? ? Hc0 Htl]; subst.
      destruct (Z.ltb_spec d 0); [lia|]. cbn [app] in *.
      rewrite strip_sign_digit in * by (unfold dec_char in Hc0; lia). rewrite strip_radix_prefix_dec in * by assumption.
      destruct (body_spec 10 (c :: tl)); cbn [rmap rbind fst] in *; try discriminate. injection R as <-. reflexivity. }
    rewrite Rn. cbn [rbind fst snd]. rewrite Rd. cbn [rbind fst snd].
    rewrite Z.eqb_refl. cbn [negb]. destruct (Z.eqb_spec d 0); [lia|].
    cbn [rbind]. rewrite Z.sgn_pos, Z.abs_eq, Z.mul_1_r by lia. destruct (Z.eqb_spec d 0); [lia|].
    rewrite Hc. reflexivity.
Qed.

Theorem json_rbig_roundtrip : forall n d t, rat_canon n d -> json_rat_text n d = Ok t -> json_rat_de false t = Ok (n, d).
Proof. intros n d t Hc. apply (json_rat_roundtrip_gen false n d t (proj1 Hc)). exact (rat_reduce_id n d Hc). Qed.

(** Relaxed: the canonical form is the fixed point of reduce2 (common power of two removed, 0 = 0/1) *)
Theorem json_relaxed_roundtrip : forall n d t, 0 < d -> rat_reduce2 n d = (n, d) ->
  json_rat_text n d = Ok t -> json_rat_de true t = Ok (n, d).
Proof. intros n d t Hd Hc. exact (json_rat_roundtrip_gen true n d t Hd Hc). Qed.

(** whatever text is accepted: the decoded rational is in lowest terms with a positive denominator *)
Theorem json_rbig_de_canonical : forall t n d, json_rat_de false t = Ok (n, d) -> rat_canon n d.
Proof.
  intros t n d. unfold json_rat_de. destruct (rat_from_str_prefix t) as [[[n0 d0] r]| | |] eqn:E; cbn [rbind]; try discriminate.
  destruct (Z.eqb_spec d0 0); [discriminate|]. intros H. injection H as H.
  assert (Hd0 : 0 < d0).
  { unfold rat_from_str_prefix in E. destruct (split_slash t) as [[a b]|].
    - destruct (from_str_prefix_spec true 10 a) as [nr| | |]; cbn [rbind] in E; try discriminate.
      destruct (from_str_prefix_spec true (snd nr) b) as [dr| | |]; cbn [rbind] in E; try discriminate.
      destruct (negb (snd nr =? snd dr)); [discriminate|]. destruct (Z.eqb_spec (fst dr) 0); [discriminate|].
      injection E as _ <- _. lia.
    - destruct (from_str_prefix_spec true 10 t) as [nr| | |]; cbn [rbind] in E; try discriminate. injection E as _ <- _. lia. }
  pose proof (rat_reduce_canon n0 d0 Hd0) as C. rewrite H in C. exact (proj1 C).
Qed.

(* ---------------------------------------------------------------------------------------------- *)
(** * floats *)
Lemma list_eqb_eq a : forall b, list_eqb a b = true <-> a = b.
Proof.
  induction a as [|x a IH]; intros [|y b]; cbn [list_eqb]; split; try discriminate; try reflexivity.
  - intros H. apply andb_prop in H. destruct H as [H1 H2]. apply Z.eqb_eq in H1. apply IH in H2. congruence.
  - intros H. injection H as -> ->. rewrite Z.eqb_refl. cbn [andb]. apply IH. reflexivity.
Qed.

(** the two infinities round trip in every base *)
Theorem json_float_inf_roundtrip : forall B e, e <> 0 ->
  json_float_de B (json_float_text B 0 e) = Ok (0, Z.sgn e).
Proof.
  intros B e He. unfold json_float_text. cbn [Z.eqb andb].
  destruct (Z.ltb_spec 0 e); [rewrite Z.sgn_pos by lia; reflexivity|].
  destruct (Z.ltb_spec e 0); [|lia]. rewrite Z.sgn_neg by lia. reflexivity.
Qed.

(** a finite float in normal form (what Repr keeps) round trips unless its text is "inf" / "-inf" *)
Theorem json_float_roundtrip : forall B s e, 2 <= B <= 36 ->
  s mod B <> 0 \/ (s = 0 /\ e = 0) -> in_isize e = true -> json_inf_collision B s e = false ->
  json_float_de B (json_float_text B s e) = Ok (s, e).
Proof.
  intros B s e HB Hn He Hc.
  assert (Hfin : (s =? 0) && negb (e =? 0) = false).
  { destruct Hn as [Hn|[-> ->]]; [|reflexivity]. destruct (Z.eqb_spec s 0) as [->|]; [|reflexivity]. rewrite Z.mod_0_l in Hn by lia. lia. }
  unfold json_inf_collision in Hc. rewrite Hfin in Hc. cbn [negb andb] in Hc. apply orb_false_elim in Hc. destruct Hc as [C1 C2].
  unfold json_float_de. rewrite C1, C2.
  assert (T : json_float_text B s e = (if s <? 0 then [45] else []) ++ fmt_round_body_asis B MZero s e None).
  { unfold json_float_text.
    assert (F1 : (s =? 0) && (0 <? e) = false).
    { destruct (Z.eqb_spec s 0); [|reflexivity]. destruct (Z.eqb_spec e 0); [subst; reflexivity | cbn in Hfin; discriminate]. }
    assert (F2 : (s =? 0) && (e <? 0) = false).
    { destruct (Z.eqb_spec s 0); [|reflexivity]. destruct (Z.eqb_spec e 0); [subst; reflexivity | cbn in Hfin; discriminate]. }
    rewrite F1, F2. unfold fmt_round_asis, fmt_round_pads, json_flags. cbn [f_width f_zero f_plus f_fill].
    unfold rep. cbn [Z.to_nat repeat concat app]. rewrite app_nil_r. reflexivity. }
  rewrite T, (display_parse_roundtrip_asis B HB MZero s e Hn He). reflexivity.
Qed.

(** OPEN FINDING fbig_json_inf_collision: in base 36 the number 24171 = "inf" is written like +infinity and read back
    as +infinity (and -24171 as -infinity): the round trip theorem cannot hold without the class hypothesis *)
Theorem json_float_inf_collision_refuted :
  json_inf_collision 36 24171 0 = true /\ json_float_text 36 24171 0 = json_float_text 36 0 1 /\
  json_float_de 36 (json_float_text 36 24171 0) = Ok (0, 1) /\
  json_float_de 36 (json_float_text 36 (-24171) 0) = Ok (0, -1) /\
  json_inf_collision 10 24171 0 = false /\ json_float_de 10 (json_float_text 10 24171 0) = Ok (24171, 0).
Proof. repeat split; vm_compute; reflexivity. Qed.

(** the class is exactly: base >= 24 (n = digit 23), exponent 0, digits i n f *)
Lemma digit_char_lower_inj d c : 0 <= d < 36 -> digit_char false d = c -> (c = 105 -> d = 18) /\ (c = 110 -> d = 23) /\ (c = 102 -> d = 15).
Proof. unfold digit_char. intros Hd <-. destruct (Z.ltb_spec d 10); repeat split; lia. Qed.

Theorem json_inf_collision_class : forall B s e, 2 <= B <= 36 -> json_inf_collision B s e = true ->
  24 <= B /\ e = 0 /\ Z.abs s = 18 * B * B + 23 * B + 15.
Proof.
  intros B s e HB H. unfold json_inf_collision in H. apply andb_prop in H. destruct H as [Hfin H].
  assert (Hs : s <> 0 \/ e = 0).
  { destruct (Z.eqb_spec s 0); [|left; assumption]. right. destruct (Z.eqb_spec e 0); [assumption | cbn in Hfin; discriminate]. }
  assert (T : json_float_text B s e = (if s <? 0 then [45] else []) ++ fmt_round_body_asis B MZero s e None).
  { unfold json_float_text.
    assert (F1 : (s =? 0) && (0 <? e) = false) by (destruct (Z.eqb_spec s 0); [|reflexivity]; destruct Hs; [contradiction|subst; reflexivity]).
    assert (F2 : (s =? 0) && (e <? 0) = false) by (destruct (Z.eqb_spec s 0); [|reflexivity]; destruct Hs; [contradiction|subst; reflexivity]).
    rewrite F1, F2. unfold fmt_round_asis, fmt_round_pads, json_flags. cbn [f_width f_zero f_plus f_fill].
    unfold rep. cbn [Z.to_nat repeat concat app]. rewrite app_nil_r. reflexivity. }
  rewrite T in H.
  (* the body: digits of |s|, then zeros or a fraction point *)
  assert (Body : fmt_round_body_asis B MZero s e None = txt_inf).
  { apply orb_prop in H. destruct H as [H|H]; apply list_eqb_eq in H.
    - destruct (s <? 0); [|exact H]. cbn [app] in H. unfold txt_inf in H. discriminate.
    - destruct (s <? 0) eqn:Es; cbn [app] in H; [unfold txt_ninf in H; injection H as H; exact H|].
      (* non-negative: the body starts with a digit character, not '-' *)
      exfalso. unfold fmt_round_body_asis, fmt_rounded, signif_str in H. rewrite Es in H. cbn [andb] in H.
      unfold dtext in H.
      destruct (digit_text_head B ltac:(lia) ltac:(lia) false (Z.abs s) ltac:(lia)) as (c & tl & E & Hc).
      rewrite E in H. destruct (e <? 0).
      + set (cut := Z.to_nat (Z.max 0 (len (c :: tl) - - e))) in *.
        destruct cut as [|k]; cbn [firstn skipn] in H.
        * unfold len at 1 in H. cbn [length Z.of_nat Z.eqb app] in H. unfold txt_ninf in H. injection H as H _. lia.
        * unfold len at 1 in H. cbn [length] in H.
          destruct (Z.eqb_spec (Z.of_nat (S (length (firstn k tl)))) 0); [lia|].
          cbn [app] in H. unfold txt_ninf in H. injection H as H _. lia.
      + unfold len at 1 in H. cbn [length] in H.
        destruct (Z.eqb_spec (Z.of_nat (S (length tl))) 0); [lia|]. cbn [app] in H. unfold txt_ninf in H. injection H as H _. lia. }
  clear H T Hfin.
  unfold fmt_round_body_asis, fmt_rounded in Body.
  assert (Str : signif_str B (s <? 0) s = dtext false B (Z.abs s)).
  { unfold signif_str. destruct (s <? 0) eqn:Es; [|reflexivity]. destruct (Z.eqb_spec s 0); [apply Z.ltb_lt in Es; lia | reflexivity]. }
  rewrite Str in Body. unfold dtext in Body.
  pose proof (digits_spec_range B ltac:(lia) (Z.abs s) ltac:(lia)) as Hr.
  pose proof (digits_spec_value B ltac:(lia) (Z.abs s) ltac:(lia)) as Hv.
  unfold digit_text in Body.
  destruct (Z.ltb_spec e 0) as [Hneg|Hpos].
  - (* a fraction point appears, or the fractional part is empty - impossible for exponent < 0 *)
    exfalso. set (str := map (digit_char false) (digits_spec B (Z.abs s))) in *.
    set (cut := Z.max 0 (len str - - e)) in *.
    assert (Hlen : Z.of_nat (length (skipn (Z.to_nat cut) str)) = len str - cut).
    { rewrite skipn_length. unfold len. unfold cut, len. lia. }
    assert (Hfd : 0 < len (skipn (Z.to_nat cut) str) \/ len str = 0).
    { unfold len at 1. rewrite Hlen. unfold cut. unfold len. lia. }
    destruct Hfd as [Hfd|Hz].
    + destruct (Z.ltb_spec 0 (len (skipn (Z.to_nat cut) str))); [|lia].
      (* text = int ++ '.' :: ..., but "inf" has no '.' *)
      assert (In 46 txt_inf).
      { rewrite <- Body. apply in_or_app. right. left. reflexivity. }
      unfold txt_inf in H0. cbn in H0. lia.
    + unfold str, len in Hz. rewrite map_length in Hz. destruct (digits_spec B (Z.abs s)) eqn:Ed; [|cbn in Hz; lia].
      exact (digits_spec_nonempty B ltac:(lia) (Z.abs s) Ed).
  - (* digits ++ zeros e = "inf": e = 0 and the digits are 18, 23, 15 *)
    set (ds := digits_spec B (Z.abs s)) in *.
    assert (Hne : ds <> []) by (intros E0; exact (digits_spec_nonempty B ltac:(lia) (Z.abs s) E0)).
    assert (L0 : (len (map (digit_char false) ds) =? 0) = false).
    { destruct ds; [contradiction|]. unfold len. cbn [map length]. apply Z.eqb_neq. lia. }
    rewrite L0, app_nil_r in Body.
    assert (Ez : e = 0).
    { destruct (Z.eq_dec e 0) as [|Hne0]; [assumption|]. exfalso.
      assert (In 48 txt_inf).
      { rewrite <- Body. apply in_or_app. right. unfold zeros. destruct (Z.to_nat e) eqn:En; [lia|]. left. reflexivity. }
      unfold txt_inf in H. cbn in H. lia. }
    subst e. unfold zeros in Body. cbn [Z.to_nat repeat] in Body. rewrite app_nil_r in Body.
    destruct ds as [|d0 [|d1 [|d2 [|d3 rest]]]]; cbn [map] in Body; unfold txt_inf in Body; try discriminate.
    injection Body as E0 E1 E2.
    inversion Hr as [|? ? R0 Hr1]; subst. inversion Hr1 as [|? ? R1 Hr2]; subst. inversion Hr2 as [|? ? R2 _]; subst.
    destruct (digit_char_lower_inj d0 _ ltac:(lia) E0) as (A & _ & _).
    destruct (digit_char_lower_inj d1 _ ltac:(lia) E1) as (_ & A1 & _).
    destruct (digit_char_lower_inj d2 _ ltac:(lia) E2) as (_ & _ & A2).
    specialize (A eq_refl). specialize (A1 eq_refl). specialize (A2 eq_refl). subst.
    split; [lia|]. split; [reflexivity|]. rewrite <- Hv. unfold digits_value. cbn [fold_left]. ring.
Qed.

(** hence: in every base below 24 (2, 10, 16, ... - all the bases of the DBig / FBig aliases) every finite
    float in normal form round trips through the text form *)
Corollary json_float_roundtrip_small_base : forall B s e, 2 <= B < 24 ->
  s mod B <> 0 \/ (s = 0 /\ e = 0) -> in_isize e = true -> json_float_de B (json_float_text B s e) = Ok (s, e).
Proof.
  intros B s e HB Hn He. apply json_float_roundtrip; try assumption; [lia|].
  destruct (json_inf_collision B s e) eqn:C; [|reflexivity].
  destruct (json_inf_collision_class B s e ltac:(lia) C) as [H _]. lia.
Qed.

Example json_nonvacuous :
  rat_reduce2 (-3) 4 = (-3, 4) /\ json_int_text (-1205) = Ok [45; 49; 50; 48; 53] /\ json_int_de true [45; 49; 50; 48; 53] = Ok (-1205) /\
  json_rat_text (-3) 4 = Ok [45; 51; 47; 52] /\ json_rat_de false [45; 54; 47; 56] = Ok (-3, 4) /\
  rat_canon (-3) 4 /\ json_float_text 10 (-15) (-1) = [45; 49; 46; 53] /\ in_isize (-1) = true /\
  json_float_de 10 [45; 49; 46; 53] = Ok (-15, -1).
Proof. repeat split; vm_compute; reflexivity. Qed.
