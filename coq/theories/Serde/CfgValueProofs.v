(** C19 - the value-level specifications used for every build configuration have the defining
    properties (so that the single expected answer is the mathematical one). *)
From Dashu Require Import Base.Prelude Serde.CfgValueSpec.
Open Scope Z_scope.

Theorem cv_diveuc_ok a b : b <> 0 -> let '(q, r) := cv_diveuc a b in a = q * b + r /\ 0 <= r < Z.abs b.
Proof.
  intros Hb. unfold cv_diveuc. set (r := a mod Z.abs b).
  assert (Hr : 0 <= r < Z.abs b) by (apply Z.mod_pos_bound; lia).
  split; [|exact Hr].
  assert (Hd : (b | a - r)).
  { apply Z.divide_trans with (Z.abs b); [apply Z.divide_abs_r; apply Z.divide_refl|].
    exists (a / Z.abs b). pose proof (Z.div_mod a (Z.abs b) ltac:(lia)). subst r. lia. }
  destruct Hd as [c Hc]. rewrite Hc, Z.div_mul by assumption. lia.
Qed.

Theorem cv_divrem_ok a b : b <> 0 ->
  let '(q, r) := cv_divrem a b in a = q * b + r /\ Z.abs r < Z.abs b /\ (r = 0 \/ Z.sgn r = Z.sgn a).
Proof.
  intros Hb. unfold cv_divrem. pose proof (Z.quot_rem' a b) as H1. pose proof (Z.rem_bound_abs a b Hb) as H2.
  split; [lia|]. split; [exact H2|].
  destruct (Z.eq_dec (Z.rem a b) 0) as [E|E]; [left; exact E | right].
  pose proof (Z.rem_sign_nz a b Hb E). assumption.
Qed.

Lemma cv_powmod_pos_spec m x e : 0 < m -> cv_powmod_pos m x e = (x ^ Zpos e) mod m.
Proof.
  intros Hm. induction e as [e IH|e IH|]; cbn [cv_powmod_pos].
  - rewrite IH. rewrite Pos2Z.inj_xI. replace (2 * Z.pos e + 1) with (Z.pos e + Z.pos e + 1) by lia.
    rewrite !Z.pow_add_r, Z.pow_1_r by lia.
    rewrite <- Z.mul_mod by lia. rewrite Z.mul_mod_idemp_l by lia. reflexivity.
  - rewrite IH. rewrite Pos2Z.inj_xO. replace (2 * Z.pos e) with (Z.pos e + Z.pos e) by lia.
    rewrite Z.pow_add_r by lia. rewrite <- Z.mul_mod by lia. reflexivity.
  - now rewrite Z.pow_1_r.
Qed.

Theorem cv_powmod_spec m x e : 0 < m -> 0 <= e -> cv_powmod m x e = (x ^ e) mod m.
Proof.
  intros Hm He. destruct e as [|p|p]; [reflexivity | apply cv_powmod_pos_spec; assumption | lia].
Qed.

(** a checked root / logarithm answer is THE floor root / floor logarithm *)
Theorem cv_root_ok_unique x n r r' : 0 < n -> cv_root_ok x n r = true -> cv_root_ok x n r' = true -> r = r'.
Proof.
  intros Hn H1 H2. unfold cv_root_ok in *.
  apply andb_prop in H1. destruct H1 as [H1 H1c]. apply andb_prop in H1. destruct H1 as [H1a H1b].
  apply andb_prop in H2. destruct H2 as [H2 H2c]. apply andb_prop in H2. destruct H2 as [H2a H2b].
  apply Z.leb_le in H1a, H1b, H2a, H2b. apply Z.ltb_lt in H1c, H2c.
  destruct (Z.lt_trichotomy r r') as [Hlt|[E|Hgt]]; [|exact E|]; exfalso.
  - assert ((r + 1) ^ n <= r' ^ n) by (apply Z.pow_le_mono_l; lia). lia.
  - assert ((r' + 1) ^ n <= r ^ n) by (apply Z.pow_le_mono_l; lia). lia.
Qed.

Theorem cv_ilog_ok_unique x b e e' : 1 < b -> cv_ilog_ok x b e = true -> cv_ilog_ok x b e' = true -> e = e'.
Proof.
  intros Hb H1 H2. unfold cv_ilog_ok in *.
  apply andb_prop in H1. destruct H1 as [H1 H1c]. apply andb_prop in H1. destruct H1 as [H1a H1b].
  apply andb_prop in H2. destruct H2 as [H2 H2c]. apply andb_prop in H2. destruct H2 as [H2a H2b].
  apply Z.leb_le in H1a, H1b, H2a, H2b. apply Z.ltb_lt in H1c, H2c.
  destruct (Z.lt_trichotomy e e') as [Hlt|[E|Hgt]]; [|exact E|]; exfalso.
  - assert (b ^ (e + 1) <= b ^ e') by (apply Z.pow_le_mono_r; lia). lia.
  - assert (b ^ (e' + 1) <= b ^ e) by (apply Z.pow_le_mono_r; lia). lia.
Qed.

Example cv_nonvacuous : cv_diveuc (-7) 3 = (-3, 2) /\ cv_divrem (-7) 3 = (-2, -1) /\ cv_powmod 97 3 100 = 81 /\
  cv_root_ok 1000 3 10 = true /\ cv_ilog_ok 1000 10 3 = true.
Proof. repeat split; reflexivity. Qed.
