(** C19 (deepening round 3) - the word-level runs the oracle evaluates AT THE WORD SIZE OF THE BUILD that produced the
    answer: an integer is turned into the representation the build keeps (inline up to two WORDS, else a minimal word
    list), the word-level as-is models of C01 / C02 / C09 / C07 / C12 / C13 / C06 (imported read-only) are run on it, and the
    value is read back.  DEFINITIONS ONLY (model files only are imported, so that the oracle builds even when a proof
    breaks); the theorems are in Serde/WordRuns.v and Serde/WordSizeKernels2.v. *)
From Dashu Require Import Base.Prelude Base.Words Int.RingOps Int.DivWordInst Int.RingMulW Int.RingOpsW Int.DivSrcInst.
From Dashu Require Import Int.BitsKernels Int.IoSpec Int.IoModel Int.GrlKsqrt Conv.ConvSpec Conv.ConvModel.
From Dashu Require Import Int.ModRingModel Int.DivNumModular.
From Dashu Require Import Serde.JsonModel.
From DashuGen Require Import Params.
Open Scope Z_scope.

(** the thresholds of mul / sqr as regenerated from the source (counted in words) *)
Definition wr_T_simple : nat := Z.to_nat mul_threshold_simple.
Definition wr_T_kara : nat := Z.to_nat mul_threshold_karatsuba.
Definition wr_CHUNK : nat := Z.to_nat mul_simple_chunk_len.

Definition wr_tv (w v : Z) : trepr := typed_of_value w (Z.abs v).

(* ------------------------------------------------------------------------------------- definitions *)
Definition wr_mul (w a b : Z) : result Z :=
  rmap (srepr_value w)
    (ibig_mul_asis_w w x2by1 (Z.to_nat mul_threshold_simple) (Z.to_nat mul_threshold_karatsuba) (Z.to_nat mul_simple_chunk_len) (Z.to_nat sqr_max_len_simple) (sign_of a) (wr_tv w a) (sign_of b) (wr_tv w b)).
Definition wr_sqr (w a : Z) : result Z :=
  rmap (repr_value w) (repr_sqr_w w x2by1 (Z.to_nat mul_threshold_simple) (Z.to_nat mul_threshold_karatsuba) (Z.to_nat sqr_max_len_simple) (wr_tv w a)).
Definition wr_add (w a b : Z) : result Z :=
  rmap (srepr_value w) (ibig_add_asis w OVV (sign_of a) (wr_tv w a) (sign_of b) (wr_tv w b)).
Definition wr_sub (w a b : Z) : result Z :=
  rmap (srepr_value w) (ibig_sub_asis w OVR (sign_of a) (wr_tv w a) (sign_of b) (wr_tv w b)).
Definition wr_pow (w a e : Z) : result Z :=
  rmap (srepr_value w) (ibig_pow_asis w (Z.to_nat mul_threshold_simple) (Z.to_nat mul_threshold_karatsuba) (Z.to_nat mul_simple_chunk_len) (Z.to_nat sqr_max_len_simple) (sign_of a) (wr_tv w a) e).

(** DivRem for IBig: the magnitudes through every transcribed kernel, the signs as the truncating convention *)
Definition wr_divrem (w a b : Z) : result (Z * Z) :=
  if b =? 0 then Panic DivideBy0
  else rmap (fun qr => (Z.sgn a * Z.sgn b * fst qr, Z.sgn a * snd qr)) (s_repr_div_rem w (Z.abs a) (Z.abs b)).

Definition wr_br (w v : Z) : brepr := to_brepr w (Z.abs v).
Definition wr_and (w a b : Z) : Z := ibig_bitand_asis w VV (sign_of a) (wr_br w a) (sign_of b) (wr_br w b).
Definition wr_or (w a b : Z) : Z := ibig_bitor_asis w VV (sign_of a) (wr_br w a) (sign_of b) (wr_br w b).
Definition wr_xor (w a b : Z) : Z := ibig_bitxor_asis w VV (sign_of a) (wr_br w a) (sign_of b) (wr_br w b).
Definition wr_shl (w a n : Z) : Z := ibig_shl_asis w (sign_of a) false (wr_br w a) n.
Definition wr_shr (w a n : Z) : Z := ibig_shr_asis w (sign_of a) (wr_br w a) n.
Definition wr_bitlen (w a : Z) : Z := repr_bit_len w (wr_br w a).
Definition wr_tz (w a : Z) : option Z := repr_trailing_zeros w (wr_br w a).
Definition wr_ones (w a : Z) : Z := repr_count_ones (wr_br w a).

(** in_radix(r) Display and from_str_radix: digits per word / chunking by the word size *)
Definition wr_tostr (w r v : Z) : result (list Z) := fmt_asis w (KInRadix r) json_flags v.
Definition wr_fromstr (w r : Z) (s : list Z) : result Z := from_str_radix_asis w true r s.

(** sqrt: three or more words through sqrt_rem_large (Karatsuba square root); shorter operands take the
    primitive route, which has no word-level structure to model *)
Definition wr_sqrt (w x : Z) : result Z :=
  if x <? (2 ^ w) ^ 2 then Ok (Z.sqrt x) else rmap fst (sqrt_rem_large_asis w x).

(** IBig::to_f64 / to_f32: the double-word shortcut depends on DoubleWord::BITS = 2 w *)
Definition wr_tof64 (w v : Z) : Z * comparison := ibig_to_float P64 (2 * w) v.
Definition wr_tof32 (w v : Z) : Z * comparison := ibig_to_float P32 (2 * w) v.

(* ------------------------------------------------------------------------------------- the reduced ring (C13) *)
(** ConstDivisor::new picks the single-word / double-word / multi-word representation by comparing the modulus with 2^w
    and 2^2w, the shift that normalises the divisor depends on w.  The pipelines are what the harness ops modmul /
    modpow do (ring, reduce, operate, residue), with num-modular's reciprocal division transcribed. *)
Definition ws_modmul (w m x y : Z) : result Z :=
  rbind (new_ring w 0 m) (fun r =>
  rbind (reduce_asis w (nm2by1 w) (nm3by2 w) r x) (fun a =>
  rbind (reduce_asis w (nm2by1 w) (nm3by2 w) r y) (fun b =>
  rbind (mul_asis w (nm2by1 w) (nm3by2 w) a b) residue_asis))).
Definition ws_modpow (w m x e : Z) : result Z :=
  rbind (new_ring w 0 m) (fun r =>
  rbind (reduce_asis w (nm2by1 w) (nm3by2 w) r x) (fun a =>
  rbind (pow_asis w (nm2by1 w) (nm3by2 w) a e) residue_asis)).

