(** C19 - word-size independence of the integer kernels, as corollaries of the theorems of C01 and C09
    (imported read-only).  Those theorems hold for an arbitrary word size [w] and their right-hand
    sides do not mention [w]; hence two builds with different word sizes compute the same numbers. *)
From Dashu Require Import Base.Prelude Base.Words Int.BitsSpec Int.BitsWords
  Int.RingAdd Int.RingAddProofs Int.RingMul Int.RingDispatchProofs.
From DashuGen Require Import Params.
Open Scope Z_scope.

Theorem multiply_word_size_independent : forall w1 w2, 8 <= w1 -> 8 <= w2 ->
  forall a1 b1 a2 b2, wf w1 a1 -> wf w1 b1 -> wf w2 a2 -> wf w2 b2 ->
  value w1 a1 = value w2 a2 -> value w1 b1 = value w2 b2 ->
  exists r1 r2,
    multiply w1 (Z.to_nat mul_threshold_simple) (Z.to_nat mul_threshold_karatsuba) (Z.to_nat mul_simple_chunk_len) a1 b1 = Ok r1 /\
    multiply w2 (Z.to_nat mul_threshold_simple) (Z.to_nat mul_threshold_karatsuba) (Z.to_nat mul_simple_chunk_len) a2 b2 = Ok r2 /\
    value w1 r1 = value w2 r2.
Proof.
  intros w1 w2 H1 H2 a1 b1 a2 b2 Wa1 Wb1 Wa2 Wb2 Ea Eb.
  destruct (multiply_source_correct w1 H1 a1 b1 Wa1 Wb1) as (r1 & E1 & _ & _ & V1).
  destruct (multiply_source_correct w2 H2 a2 b2 Wa2 Wb2) as (r2 & E2 & _ & _ & V2).
  exists r1, r2. repeat split; try assumption. rewrite V1, V2, Ea, Eb. reflexivity.
Qed.

Theorem add_in_place_word_size_independent : forall w1 w2, 0 < w1 -> 0 < w2 ->
  forall l1 r1 l2 r2, (length r1 <= length l1)%nat -> (length r2 <= length l2)%nat ->
  wf w1 l1 -> wf w1 r1 -> wf w2 l2 -> wf w2 r2 ->
  value w1 l1 = value w2 l2 -> value w1 r1 = value w2 r2 ->
  forall s1 c1 s2 c2, add_in_place w1 l1 r1 = (s1, c1) -> add_in_place w2 l2 r2 = (s2, c2) ->
  value w1 s1 + b2z c1 * B w1 ^ len l1 = value w2 s2 + b2z c2 * B w2 ^ len l2.
Proof.
  intros w1 w2 H1 H2 l1 r1 l2 r2 L1 L2 Wl1 Wr1 Wl2 Wr2 El Er s1 c1 s2 c2 A1 A2.
  destruct (add_in_place_spec w1 H1 l1 r1 L1 Wl1 Wr1 s1 c1 A1) as (_ & _ & V1).
  destruct (add_in_place_spec w2 H2 l2 r2 L2 Wl2 Wr2 s2 c2 A2) as (_ & _ & V2).
  rewrite V1, V2, El, Er. reflexivity.
Qed.

Theorem trailing_zeros_word_size_independent : forall w1 w2, 0 < w1 -> 0 < w2 ->
  forall ws1 ws2, wf w1 ws1 -> wf w2 ws2 -> value w1 ws1 = value w2 ws2 -> value w1 ws1 <> 0 ->
  trailing_zeros_large w1 ws1 = trailing_zeros_large w2 ws2.
Proof.
  intros w1 w2 H1 H2 ws1 ws2 W1 W2 E Hne.
  destruct (trailing_zeros_large_correct w1 H1 ws1 W1 Hne) as [T1 _].
  assert (Hne2 : value w2 ws2 <> 0) by (rewrite <- E; exact Hne).
  destruct (trailing_zeros_large_correct w2 H2 ws2 W2 Hne2) as [T2 _].
  rewrite E in T1. rewrite T1 in T2. now injection T2.
Qed.

Example word_size_corollaries_nonvacuous :
  wf 64 [5; 0; 1] /\ wf 32 [5; 0; 0; 0; 1] /\ value 64 [5; 0; 1] = value 32 [5; 0; 0; 0; 1] /\ value 64 [5; 0; 1] <> 0.
Proof. repeat split; try (repeat constructor; cbn; lia); cbn; lia. Qed.
