(** C19 (deepening round 3) - std vs no_std.  The only code that differs between the two feature sets is the
    log2 estimator of base/src/math/log.rs (f32::log2 with std, the 8-bit table without).  Every consumer of
    an estimate is modelled with the estimate as a PARAMETER, and the theorems of C12 / C05 / C03 hold for
    every sound (or even every) estimate.  Corollaries: two builds that plug in different estimates return the
    same integer logarithm, the same root, the same comparison, and float sums meeting the same contract. *)
From Dashu Require Import Base.Prelude Int.GrlSpec Int.GrlModel Int.GrlSpecProof Int.GrlRootProof Int.GrlLogProof.
From Dashu Require Import Float.RoundSpec Float.Contract Float.Model Float.FloatOrdModel Float.FloatOrdProofs.
From Dashu Require Import Float.AddModel Float.AddModelProof.
Open Scope Z_scope.

(** ** integer logarithm: the three estimate-then-correct loops of integer/src/log.rs.  [est1]/[est2] are the
    first guesses derived from log2_bounds in the two builds (any integers), the fuels may differ too *)
Theorem ilog_large_estimator_independent : forall target base, 2 <= base -> 1 <= target ->
  forall fuel1 fuel2 est1 est2 e1 p1 e2 p2,
  log_large_asis fuel1 est1 target base = Ok (e1, p1) -> log_large_asis fuel2 est2 target base = Ok (e2, p2) ->
  e1 = e2 /\ p1 = p2.
Proof.
  intros t b Hb Ht f1 f2 s1 s2 e1 p1 e2 p2 R1 R2.
  destruct (log_large_asis_correct t b Hb Ht f1 s1 e1 p1 R1) as [C1 P1].
  destruct (log_large_asis_correct t b Hb Ht f2 s2 e2 p2 R2) as [C2 P2].
  assert (E : e1 = e2) by exact (ilog_cert_unique t b e1 e2 Hb C1 C2). subst. split; reflexivity.
Qed.

Theorem ilog_dword_estimator_independent : forall target base, 2 <= base -> 1 <= target ->
  forall fuel1 fuel2 D1 D2 est1 est2 e1 p1 e2 p2, target < D1 -> target < D2 -> 0 <= est1 -> 0 <= est2 ->
  log_dword_asis fuel1 D1 est1 target base = Ok (e1, p1) -> log_dword_asis fuel2 D2 est2 target base = Ok (e2, p2) ->
  e1 = e2 /\ p1 = p2.
Proof.
  intros t b Hb Ht f1 f2 D1 D2 s1 s2 e1 p1 e2 p2 HD1 HD2 S1 S2 R1 R2.
  destruct (log_dword_asis_correct t b Hb Ht f1 D1 s1 e1 p1 HD1 S1 R1) as [C1 P1].
  destruct (log_dword_asis_correct t b Hb Ht f2 D2 s2 e2 p2 HD2 S2 R2) as [C2 P2].
  assert (E : e1 = e2) by exact (ilog_cert_unique t b e1 e2 Hb C1 C2). subst. split; reflexivity.
Qed.

(** the word-base loop: both the estimate AND the word size (hence base^wexp, the largest power in a word) differ *)
Theorem ilog_word_base_estimator_and_ws_independent : forall target base, 2 <= base -> 1 <= target ->
  forall w1 w2, 0 < w1 -> 0 < w2 -> forall wexp1 wexp2, 0 <= wexp1 -> 0 <= wexp2 -> base ^ wexp1 < 2 ^ w1 -> base ^ wexp2 < 2 ^ w2 ->
  forall fuel1 fuel2 est1 est2 e1 p1 e2 p2, 2 <= wlen w1 target -> 2 <= wlen w2 target -> 0 <= est1 -> 0 <= est2 ->
  log_word_base_asis fuel1 w1 est1 wexp1 target base = Ok (e1, p1) ->
  log_word_base_asis fuel2 w2 est2 wexp2 target base = Ok (e2, p2) -> e1 = e2 /\ p1 = p2.
Proof.
  intros t b Hb Ht w1 w2 W1 W2 x1 x2 X1 X2 L1 L2 f1 f2 s1 s2 e1 p1 e2 p2 T1 T2 S1 S2 R1 R2.
  destruct (log_word_base_asis_correct t b Hb Ht w1 W1 (b ^ x1) x1 X1 eq_refl L1 f1 s1 e1 p1 T1 S1 R1) as [C1 P1].
  destruct (log_word_base_asis_correct t b Hb Ht w2 W2 (b ^ x2) x2 X2 eq_refl L2 f2 s2 e2 p2 T2 S2 R2) as [C2 P2].
  assert (E : e1 = e2) by exact (ilog_cert_unique t b e1 e2 Hb C1 C2). subst. split; reflexivity.
Qed.

(** ** n-th root: Newton from ANY positive first guess *)
Theorem nth_root_guess_independent : forall x n, 0 < x -> 2 <= n -> forall fuel1 fuel2 g1 g2 r1 r2, 0 < g1 -> 0 < g2 ->
  newton_root_from fuel1 x n g1 = Ok r1 -> newton_root_from fuel2 x n g2 = Ok r2 -> r1 = r2.
Proof.
  intros x n Hx Hn f1 f2 g1 g2 r1 r2 G1 G2 R1 R2.
  destruct (newton_root_from_correct x n Hx Hn f1 g1 r1 G1 R1) as [P1 Q1].
  destruct (newton_root_from_correct x n Hx Hn f2 g2 r2 G2 R2) as [P2 Q2].
  apply (root_cert_unique n x r1 r2 ltac:(lia)); unfold root_cert;
    repeat (apply andb_true_intro; split); first [apply Z.leb_le | apply Z.ltb_lt]; lia.
Qed.

(** ** FBig comparison: Repr::digits_ub / digits_lb come from log2_bounds; any admissible over-estimate *)
Definition digits_ub_sound (B : Z) (du : Z -> Z) : Prop := forall s, s <> 0 -> Z.abs s < B ^ (du s + 1).

Theorem float_cmp_estimator_independent : forall B, 2 <= B -> forall du1 du2, digits_ub_sound B du1 -> digits_ub_sound B du2 ->
  forall a l r, fwf l -> fwf r -> repr_cmp_same_base B du1 a l r = repr_cmp_same_base B du2 a l r.
Proof.
  intros B HB du1 du2 S1 S2 a l r Hl Hr. destruct a.
  - rewrite (repr_cmp_same_base_abs_correct B HB du1 S1 l r Hl Hr), (repr_cmp_same_base_abs_correct B HB du2 S2 l r Hl Hr). reflexivity.
  - rewrite (repr_cmp_same_base_correct B HB du1 S1 l r Hl Hr), (repr_cmp_same_base_correct B HB du2 S2 l r Hl Hr). reflexivity.
Qed.

(** ** FBig + and -: the far-apart shortcut compares exponents with digits_ub; with either build's estimate the
    result is the correctly rounded exact sum (same exact sum, same contract) *)
Theorem float_add_sub_estimator_contract : forall B, 2 <= B -> forall du1 du2,
  (forall s, dlen B s <= du1 s) -> (forall s, dlen B s <= du2 s) ->
  forall p m s1 e1 s2 e2, 1 <= p -> dlen B s1 <= p -> dlen B s2 <= p ->
  rounded_sum B p m (exact_sum B s1 e1 s2 e2 Positive) (Z.min e1 e2) (ctx_add B du1 p m s1 e1 s2 e2) /\
  rounded_sum B p m (exact_sum B s1 e1 s2 e2 Positive) (Z.min e1 e2) (ctx_add B du2 p m s1 e1 s2 e2) /\
  rounded_sum B p m (exact_sum B s1 e1 s2 e2 Negative) (Z.min e1 e2) (ctx_sub B du1 p m s1 e1 s2 e2) /\
  rounded_sum B p m (exact_sum B s1 e1 s2 e2 Negative) (Z.min e1 e2) (ctx_sub B du2 p m s1 e1 s2 e2).
Proof.
  intros B HB du1 du2 S1 S2 p m s1 e1 s2 e2 Hp D1 D2. repeat split.
  - exact (ctx_add_correct B HB du1 S1 p m s1 e1 s2 e2 Hp D1 D2).
  - exact (ctx_add_correct B HB du2 S2 p m s1 e1 s2 e2 Hp D1 D2).
  - exact (ctx_sub_correct B HB du1 S1 p m s1 e1 s2 e2 Hp D1 D2).
  - exact (ctx_sub_correct B HB du2 S2 p m s1 e1 s2 e2 Hp D1 D2).
Qed.

Example estimator_independence_nonvacuous :
  log_large_asis 50 3 1000 10 = Ok (3, 1000) /\ log_large_asis 50 1 1000 10 = Ok (3, 1000) /\
  newton_root_from 50 1000 3 40 = Ok 10 /\ newton_root_from 50 1000 3 11 = Ok 10 /\
  digits_ub_sound 10 (fun s => Z.log2 (Z.abs s)).
Proof.
  repeat split; try (vm_compute; reflexivity).
  intros s Hs. assert (0 < Z.abs s) by lia. set (a := Z.abs s) in *.
  pose proof (Z.log2_spec a H) as [_ L]. apply (Z.lt_le_trans _ _ _ L).
  rewrite Z.pow_succ_r by apply Z.log2_nonneg. replace (Z.log2 a + 1) with (Z.succ (Z.log2 a)) by lia.
  rewrite Z.pow_succ_r by apply Z.log2_nonneg.
  assert (2 ^ Z.log2 a <= 10 ^ Z.log2 a) by (apply Z.pow_le_mono_l; lia).
  assert (0 < 2 ^ Z.log2 a) by (apply Z.pow_pos_nonneg; [lia | apply Z.log2_nonneg]). lia.
Qed.
