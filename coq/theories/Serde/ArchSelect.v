(** C19 (deepening round 3) - the word size a build configuration selects, computed from the regenerated
    architecture chain (coq/gen/ArchGen.v).  Definitions only (the oracle extracts arch_word_bits and must build
    even when a proof of Serde/ArchProofs.v breaks on an edited source). *)
From Coq Require Import String.
From Dashu Require Import Base.Prelude Serde.ArchModel.
From DashuGen Require Import ArchGen.
Open Scope Z_scope.

Definition arch_select (c : cfg) : string := chain_select arch_chain_gen arch_default_gen c.
Definition word_bits_of (dir : string) : option Z :=
  match assoc_str dir arch_word_bits_gen with Some (w, _, _, _) => Some w | None => None end.
Definition arch_word_bits (c : cfg) : option Z := word_bits_of (arch_select c).

