(** C19 - the binary serde forms of UBig / IBig / Repr / FBig / RBig / Relaxed (integer/, float/,
    rational/ src/third_party/serde.rs) carried by postcard (length-prefixed byte strings, LEB128
    varints, zigzag for isize, structs = concatenated fields).  Definitions only.

    Bytes are words of size 8: [sle_value = Words.value 8].  The as-is models of the word <-> byte
    conversions take WORD_BYTES = k as a parameter (k = 8: 64-bit words, k = 4: force_bits="32"); the
    specifications do not mention k, which is what "independent of the word size" means here. *)
From Dashu Require Import Base.Prelude Base.Words.
Open Scope Z_scope.

(* ---------------------------------------------------------------------------------------------- *)
(** * specification: shortest little-endian bytes *)

Definition sblen (v : Z) : Z := if v <=? 0 then 0 else Z.log2 v + 1.
Definition sbyte_len (v : Z) : Z := (sblen v + 7) / 8.

Definition sle_value (bs : list Z) : Z := value 8 bs.
Definition sle_bytes (v : Z) : list Z := to_words 8 (Z.to_nat (sbyte_len v)) v.

Definition odd_len (bs : list Z) : bool := Z.odd (len bs).

(** UBig: the shortest little-endian bytes (zero = no bytes) *)
Definition ubig_enc (v : Z) : list Z := sle_bytes v.
Definition ubig_dec (bs : list Z) : Z := sle_value bs.

(** IBig: the bytes of the magnitude, the sign is the parity of the length (positive = even), one
    zero byte of padding where the parity is wrong *)
Definition ibig_enc (v : Z) : list Z :=
  if v =? 0 then [] else
  let bs := sle_bytes (Z.abs v) in
  if Bool.eqb (odd_len bs) (v <? 0) then bs else bs ++ [0].
Definition ibig_dec (bs : list Z) : Z :=
  signed (if odd_len bs then Negative else Positive) (sle_value bs).

(* ---------------------------------------------------------------------------------------------- *)
(** * as-is: convert.rs words_to_le_bytes / Repr::from_le_bytes and the serde visitors, for
      WORD_BYTES = k *)
Section AsIs.
Variable k : Z.
Definition wbits : Z := 8 * k.

Definition word_bytes (x : Z) : list Z := to_words 8 (Z.to_nat k) x.          (* Word::to_le_bytes *)

(** words_to_le_bytes::<false>: all words but the last in full, the last without its
    leading_zeros() / 8 top bytes *)
Definition words_to_le_bytes (ws : list Z) : list Z :=
  let l := last ws 0 in
  let skip := (wbits - sblen l) / 8 in
  flat_map word_bytes (removelast ws) ++ firstn (Z.to_nat (k - skip)) (word_bytes l).

(** Serialize for UBig (binary): is_zero -> no bytes, else the bytes of as_words() *)
Definition ubig_ser_asis (ws : list Z) : list Z :=
  match ws with [] => [] | _ => words_to_le_bytes ws end.

(** Serialize for IBig (binary) *)
Definition ibig_ser_asis (s : sign) (ws : list Z) : list Z :=
  match ws with
  | [] => []
  | _ =>
    let bs := words_to_le_bytes ws in
    match s with
    | Positive => if odd_len bs then bs ++ [0] else bs
    | Negative => if odd_len bs then bs else bs ++ [0]
    end
  end.

(** from_le_bytes_large: chunks_exact(WORD_BYTES) and the zero-extended remainder, one word each *)
Fixpoint chunk_words (fuel : nat) (bs : list Z) : list Z :=
  match fuel with
  | O => []
  | S f =>
    match bs with
    | [] => []
    | _ => value 8 (firstn (Z.to_nat k) bs) :: chunk_words f (skipn (Z.to_nat k) bs)
    end
  end.

(** Repr::from_le_bytes: at most DWORD_BYTES -> one double word, else the word buffer *)
Definition from_le_bytes_asis (bs : list Z) : Z :=
  if len bs <=? 2 * k then value 8 bs else value wbits (chunk_words (length bs) bs).

Definition ubig_de_asis (bs : list Z) : Z := from_le_bytes_asis bs.
(** IBigVisitor::visit_bytes: Sign::from(len & 1 == 1), IBig::from_parts (minus zero is zero) *)
Definition ibig_de_asis (bs : list Z) : Z :=
  signed (if Z.odd (len bs) then Negative else Positive) (from_le_bytes_asis bs).
End AsIs.

(* ---------------------------------------------------------------------------------------------- *)
(** * postcard: varints, zigzag, byte strings *)

Fixpoint varint_enc_fuel (fuel : nat) (n : Z) : list Z :=
  match fuel with
  | O => []
  | S f => if n <? 128 then [n] else (n mod 128 + 128) :: varint_enc_fuel f (n / 128)
  end.
Definition varint_enc (n : Z) : list Z := varint_enc_fuel 10 n.             (* varint_max::<u64>() = 10 *)

(** try_take_varint_u64: at most 10 bytes, the tenth may only be 0 or 1, a missing byte is an error *)
Fixpoint varint_dec_loop (fuel : nat) (i acc : Z) (bs : list Z) : option (Z * list Z) :=
  match fuel with
  | O => None
  | S f =>
    match bs with
    | [] => None
    | b :: t =>
      let acc' := acc + (b mod 128) * 2 ^ (7 * i) in
      if b <? 128 then (if (i =? 9) && (1 <? b) then None else Some (acc', t))
      else varint_dec_loop f (i + 1) acc' t
    end
  end.
Definition varint_dec (bs : list Z) : option (Z * list Z) := varint_dec_loop 10 0 0 bs.

Definition zigzag (n : Z) : Z := if n <? 0 then -2 * n - 1 else 2 * n.
Definition unzigzag (u : Z) : Z := if Z.even u then u / 2 else - ((u + 1) / 2).

(** serialize_bytes / deserialize_bytes: varint(len) then the bytes *)
Definition bytes_enc (bs : list Z) : list Z := varint_enc (len bs) ++ bs.
Definition bytes_dec (input : list Z) : option (list Z * list Z) :=
  match varint_dec input with
  | None => None
  | Some (n, rest) =>
    if n <=? len rest then Some (firstn (Z.to_nat n) rest, skipn (Z.to_nat n) rest) else None
  end.

Definition w_ubig_enc (v : Z) : list Z := bytes_enc (ubig_enc v).
Definition w_ibig_enc (v : Z) : list Z := bytes_enc (ibig_enc v).
Definition w_ubig_dec (input : list Z) : option (Z * list Z) :=
  match bytes_dec input with None => None | Some (bs, rest) => Some (ubig_dec bs, rest) end.
Definition w_ibig_dec (input : list Z) : option (Z * list Z) :=
  match bytes_dec input with None => None | Some (bs, rest) => Some (ibig_dec bs, rest) end.

(* ---------------------------------------------------------------------------------------------- *)
(** * rationals: struct (numerator : IBig, denominator : UBig); RBig reduces, Relaxed strips twos *)

Definition rat_reduce (n d : Z) : Z * Z :=
  if n =? 0 then (0, 1) else let g := Z.gcd n d in (n / g, d / g).
(** 2^min(tz n, tz d) = gcd (gcd n d) 2^L for any L >= tz d *)
Definition rat_reduce2 (n d : Z) : Z * Z :=
  if n =? 0 then (0, 1) else let g := Z.gcd (Z.gcd n d) (2 ^ Z.log2 d) in (n / g, d / g).

Definition rat_canon (n d : Z) : Prop := 0 < d /\ Z.gcd n d = 1.
Definition rat_canonb (n d : Z) : bool := (0 <? d) && (Z.gcd n d =? 1).
Definition relaxed_canon (n d : Z) : Prop := 0 < d /\ (Z.odd n = true \/ Z.odd d = true \/ (n = 0 /\ d = 1)).
Definition relaxed_canonb (n d : Z) : bool := (0 <? d) && (Z.odd n || Z.odd d).

Definition w_rat_enc (n d : Z) : list Z := w_ibig_enc n ++ w_ubig_enc d.
Definition w_rat_fields (input : list Z) : option (Z * Z * list Z) :=
  match w_ibig_dec input with
  | None => None
  | Some (n, r1) => match w_ubig_dec r1 with None => None | Some (d, r2) => Some (n, d, r2) end
  end.

(** [fixed = false]: the code before the repair (no test of the denominator) *)
Definition rbig_of_fields (fixed : bool) (n d : Z) : result (Z * Z) :=
  if fixed && (d =? 0) then Err 2 else Ok (rat_reduce n d).
Definition relaxed_of_fields (fixed : bool) (n d : Z) : result (Z * Z) :=
  if d =? 0 then
    (if fixed then Err 2 else if n =? 0 then Ok (0, 1) else Panic Undocumented)  (* trailing_zeros().unwrap() *)
  else Ok (rat_reduce2 n d).

Definition w_rbig_dec (fixed : bool) (input : list Z) : result (Z * Z * list Z) :=
  match w_rat_fields input with
  | None => Err 1
  | Some (n, d, rest) => rbind (rbig_of_fields fixed n d) (fun v => Ok (v, rest))
  end.
Definition w_relaxed_dec (fixed : bool) (input : list Z) : result (Z * Z * list Z) :=
  match w_rat_fields input with
  | None => Err 1
  | Some (n, d, rest) => rbind (relaxed_of_fields fixed n d) (fun v => Ok (v, rest))
  end.

(* ---------------------------------------------------------------------------------------------- *)
(** * floats: struct (significand : IBig, exponent : isize [, precision : usize]) *)

Fixpoint strip_fuel (fuel : nat) (B s e : Z) : Z * Z :=
  match fuel with
  | O => (s, e)
  | S f => if s mod B =? 0 then strip_fuel f B (s / B) (e + 1) else (s, e)
  end.
(** Repr::new = normalize: zero significand -> zero, else no trailing zero digit *)
Definition fnormalize (B s e : Z) : Z * Z :=
  if s =? 0 then (0, 0) else strip_fuel (Z.to_nat (Z.log2 (Z.abs s) + 1)) B s e.

Fixpoint ndigits_aux (fuel : nat) (B a : Z) : Z :=
  match fuel with O => 0 | S f => if a =? 0 then 0 else 1 + ndigits_aux f B (a / B) end.
Definition ndigits (B a : Z) : Z := ndigits_aux (Z.to_nat (Z.log2 (Z.abs a) + 1)) B (Z.abs a).

Definition is_inf (s e : Z) : bool := (s =? 0) && negb (e =? 0).

(** value in canonical form: zero (0,0), the infinities (0,1) (0,-1), else no trailing zero digit *)
Definition repr_canon (B s e : Z) : Prop :=
  (s = 0 /\ (e = 0 \/ e = 1 \/ e = -1)) \/ (s <> 0 /\ s mod B <> 0).
Definition repr_canonb (B s e : Z) : bool :=
  if s =? 0 then (e =? 0) || (e =? 1) || (e =? -1) else negb (s mod B =? 0).
Definition fbig_canon (B s e p : Z) : Prop :=
  repr_canon B s e /\ (p = 0 \/ s = 0 \/ ndigits B s <= p).
Definition fbig_canonb (B s e p : Z) : bool :=
  repr_canonb B s e && ((p =? 0) || (s =? 0) || (ndigits B s <=? p)).

(** the fields -> Repr; [fixed = false]: Repr::new on everything (infinities become zero) *)
Definition repr_of_fields (fixed : bool) (B s e : Z) : option (Z * Z) :=
  if s =? 0 then
    (if fixed
     then (if e =? 0 then Some (0, 0) else if e =? 1 then Some (0, 1) else if e =? -1 then Some (0, -1) else None)
     else Some (0, 0))
  else Some (fnormalize B s e).
Definition fbig_of_fields (fixed : bool) (B s e p : Z) : option (Z * Z * Z) :=
  match repr_of_fields fixed B s e with
  | None => None
  | Some (s', e') =>
    if fixed && negb (p =? 0) && negb (is_inf s' e') && (p <? ndigits B s') then None
    else Some (s', e', p)
  end.

Definition w_repr_enc (s e : Z) : list Z := w_ibig_enc s ++ varint_enc (zigzag e).
Definition w_fbig_enc (s e p : Z) : list Z := w_repr_enc s e ++ varint_enc p.

Definition w_repr_fields (input : list Z) : option (Z * Z * list Z) :=
  match w_ibig_dec input with
  | None => None
  | Some (s, r1) => match varint_dec r1 with None => None | Some (u, r2) => Some (s, unzigzag u, r2) end
  end.
Definition w_repr_dec (fixed : bool) (B : Z) (input : list Z) : option (Z * Z * list Z) :=
  match w_repr_fields input with
  | None => None
  | Some (s, e, rest) =>
    match repr_of_fields fixed B s e with None => None | Some (s', e') => Some (s', e', rest) end
  end.
Definition w_fbig_dec (fixed : bool) (B : Z) (input : list Z) : option (Z * Z * Z * list Z) :=
  match w_repr_fields input with
  | None => None
  | Some (s, e, r2) =>
    match varint_dec r2 with
    | None => None
    | Some (p, rest) =>
      match fbig_of_fields fixed B s e p with None => None | Some (s', e', p') => Some (s', e', p', rest) end
    end
  end.

(* ---------------------------------------------------------------------------------------------- *)
(** * human readable form of the integers: decimal digits (Display), most significant first *)
Fixpoint dec_digits_fuel (fuel : nat) (n : Z) (acc : list Z) : list Z :=
  match fuel with
  | O => acc
  | S f => if n <? 10 then (48 + n) :: acc else dec_digits_fuel f (n / 10) ((48 + n mod 10) :: acc)
  end.
Definition dec_text (v : Z) : list Z :=
  let m := Z.abs v in
  let ds := dec_digits_fuel (Z.to_nat (Z.log2 m + 2)) m [] in
  if v <? 0 then 45 :: ds else ds.
Definition rat_text (n d : Z) : list Z := if d =? 1 then dec_text n else dec_text n ++ 47 :: dec_text d.
