(** C19 (deepening round 3) - hand-written semantics of the atoms the regenerated fragment coq/gen/ArchGen.v
    (tools/translate_c19_r3.py, from the files under integer/src/arch) is written in: cfg keys, the first-match selection of
    cfg_if!, and the primitive-integer methods used by arch/generic/add.rs. *)
From Coq Require Import String.
From Dashu Require Import Base.Prelude Base.Words.
Open Scope Z_scope.

(** the three kinds of cfg predicates the architecture chain tests *)
Inductive cfgkey := KForceBits | KTargetArch | KPointerWidth.
Definition cfgkey_eqb (a b : cfgkey) : bool :=
  match a, b with KForceBits, KForceBits | KTargetArch, KTargetArch | KPointerWidth, KPointerWidth => true | _, _ => false end.

(** a build configuration: the (key, value) pairs that are set *)
Definition cfg := list (cfgkey * string).
Definition cfg_has (c : cfg) (kv : cfgkey * string) : bool :=
  existsb (fun x => cfgkey_eqb (fst x) (fst kv) && String.eqb (snd x) (snd kv)) c.
(** one arm: #[cfg(k = "v")] or #[cfg(any(k1 = "v1", ...))] *)
Definition arm_matches (c : cfg) (alts : list (cfgkey * string)) : bool := existsb (cfg_has c) alts.
(** cfg_if!: the first arm whose predicate holds, else the final else *)
Fixpoint chain_select (chain : list (list (cfgkey * string) * string)) (default : string) (c : cfg) : string :=
  match chain with
  | [] => default
  | (alts, dir) :: rest => if arm_matches c alts then dir else chain_select rest default c
  end.

Fixpoint assoc_str {A} (k : string) (l : list (string * A)) : option A :=
  match l with [] => None | (k', v) :: t => if String.eqb k k' then Some v else assoc_str k t end.

(** Word::overflowing_add / overflowing_sub on w-bit unsigned words *)
Definition overflowing_add (w a b : Z) : Z * bool := ((a + b) mod B w, B w <=? a + b).
Definition overflowing_sub (w a b : Z) : Z * bool := ((a - b) mod B w, a <? b).
(** Word::from(bool) *)
Definition word_of_bool (b : bool) : Z := if b then 1 else 0.
