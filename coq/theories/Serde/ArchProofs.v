(** C19 (deepening round 3) - the architecture selection of dashu-int, over the fragment coq/gen/ArchGen.v that
    tools/translate_c19_r3.py regenerates from integer/src/arch/** on every run:
    whatever the build configuration, the selected word is 16, 32 or 64 bits wide with a double word of twice the
    width - so every premise the word-size-generic theorems of C01/C02/C07/C09/C12/C13/C19 put on [w] holds in every
    build; force_bits = "N" selects N-bit words; and the portable add_with_carry / sub_with_borrow of
    arch/generic/add.rs are the functions C01's model is written with. *)
From Coq Require Import String.
From Dashu Require Import Base.Prelude Base.Words Int.RingAdd Serde.ArchModel.
From DashuGen Require Import ArchGen.
From Dashu Require Import Serde.ArchSelect.
Open Scope Z_scope.

(** Word unsigned 16/32/64 bits, SignedWord the same width, DoubleWord / SignedDoubleWord twice as wide *)
Definition widths_ok (t : Z * Z * Z * Z) : bool :=
  let '(w, sw, dw, sdw) := t in
  ((w =? 16) || (w =? 32) || (w =? 64)) && (sw =? w) && (dw =? 2 * w) && (sdw =? 2 * w).
Definition dir_ok (d : string) : bool :=
  match assoc_str d arch_word_bits_gen with Some t => widths_ok t | None => false end.

(** finite check over the regenerated tables (9 arms + the default, 5 directories) *)
Lemma arch_tables_ok : forallb (fun e => dir_ok (snd e)) arch_chain_gen = true /\ dir_ok arch_default_gen = true.
Proof. split; vm_compute; reflexivity. Qed.

Lemma chain_select_in chain default c :
  chain_select chain default c = default \/ In (chain_select chain default c) (map snd chain).
Proof.
  induction chain as [|[alts d] rest IH]; cbn [chain_select map]; [left; reflexivity|].
  destruct (arm_matches c alts); [right; left; reflexivity|]. destruct IH as [IH|IH]; [left; exact IH | right; right; exact IH].
Qed.

(** every build configuration whatsoever: the word size meets every premise used anywhere *)
Theorem arch_word_admissible : forall c : cfg, exists w,
  arch_word_bits c = Some w /\ (w = 16 \/ w = 32 \/ w = 64) /\ 8 <= w /\ w mod 8 = 0 /\ w mod 2 = 0 /\ 36 < 2 ^ w.
Proof.
  intros c. assert (D : dir_ok (arch_select c) = true).
  { unfold arch_select. destruct arch_tables_ok as [T D]. destruct (chain_select_in arch_chain_gen arch_default_gen c) as [E|I].
    - rewrite E. exact D.
    - rewrite forallb_forall in T. apply in_map_iff in I. destruct I as (e & <- & I). exact (T e I). }
  unfold arch_word_bits, word_bits_of. unfold dir_ok in D.
  destruct (assoc_str (arch_select c) arch_word_bits_gen) as [[[[w sw] dw] sdw]|]; [|discriminate].
  exists w. split; [reflexivity|]. unfold widths_ok in D.
  apply andb_prop in D. destruct D as [D _]. apply andb_prop in D. destruct D as [D _]. apply andb_prop in D. destruct D as [D _].
  assert (W : w = 16 \/ w = 32 \/ w = 64).
  { apply orb_prop in D. destruct D as [D|D]; [apply orb_prop in D; destruct D as [D|D]|]; apply Z.eqb_eq in D; auto. }
  split; [exact W|]. destruct W as [ -> | [ -> | -> ] ]; repeat split; try lia; reflexivity.
Qed.

(** force_bits (cfg(force_bits = "N") is set by RUSTFLAGS, one value at a time) decides before anything else *)
Theorem arch_force_bits : forall c : cfg,
  (cfg_has c (KForceBits, "16"%string) = true -> arch_word_bits c = Some 16) /\
  (cfg_has c (KForceBits, "16"%string) = false -> cfg_has c (KForceBits, "32"%string) = true -> arch_word_bits c = Some 32) /\
  (cfg_has c (KForceBits, "16"%string) = false -> cfg_has c (KForceBits, "32"%string) = false ->
   cfg_has c (KForceBits, "64"%string) = true -> arch_word_bits c = Some 64).
Proof.
  intros c. unfold arch_word_bits, arch_select, arch_chain_gen. cbn [chain_select arm_matches existsb]. repeat split.
  - intros ->. reflexivity.
  - intros -> ->. reflexivity.
  - intros -> -> ->. reflexivity.
Qed.

(** the host of the pinned baseline: x86_64 without force_bits -> 64-bit words *)
Theorem arch_x86_64_default : forall c : cfg,
  (forall v, cfg_has c (KForceBits, v) = false) -> cfg_has c (KTargetArch, "x86"%string) = false ->
  cfg_has c (KTargetArch, "x86_64"%string) = true -> arch_word_bits c = Some 64.
Proof.
  intros c F X86 X64. unfold arch_word_bits, arch_select, arch_chain_gen. cbn [chain_select arm_matches existsb].
  rewrite !F, X86, X64. reflexivity.
Qed.

(** arch/generic/add.rs (used by every generic_N_bit architecture) = the primitives of C01's model, any word size *)
Theorem add_with_carry_gen_spec : forall w a b c, 0 < w -> 0 <= a < B w -> 0 <= b < B w ->
  add_with_carry_gen w a b c = add_with_carry w a b c.
Proof.
  intros w a b c Hw Ha Hb. unfold add_with_carry_gen, add_with_carry, overflowing_add, word_of_bool, b2z.
  pose proof (B_pos w Hw) as HB. set (cz := if c then 1 else 0). assert (Hc : 0 <= cz <= 1) by (subst cz; destruct c; lia).
  destruct (Z.leb_spec (B w) (a + b)) as [Hov|Hno].
  - assert (E1 : (a + b) mod B w = a + b - B w) by (symmetry; apply (Zmod_unique _ _ 1); lia). rewrite E1.
    assert (E2 : (a + b - B w + cz) mod B w = a + b - B w + cz) by (apply Z.mod_small; lia). rewrite E2.
    assert (E3 : (a + b + cz) mod B w = a + b - B w + cz) by (symmetry; apply (Zmod_unique _ _ 1); lia). rewrite E3.
    destruct (Z.leb_spec (B w) (a + b - B w + cz)); [lia|]. destruct (Z.leb_spec (B w) (a + b + cz)); [reflexivity | lia].
  - rewrite (Z.mod_small (a + b)) by lia. cbn [orb]. reflexivity.
Qed.

Theorem sub_with_borrow_gen_spec : forall w a b c, 0 < w -> 0 <= a < B w -> 0 <= b < B w ->
  sub_with_borrow_gen w a b c = sub_with_borrow w a b c.
Proof.
  intros w a b c Hw Ha Hb. unfold sub_with_borrow_gen, sub_with_borrow, overflowing_sub, word_of_bool, b2z.
  pose proof (B_pos w Hw) as HB. set (cz := if c then 1 else 0). assert (Hc : 0 <= cz <= 1) by (subst cz; destruct c; lia).
  destruct (Z.ltb_spec a b) as [Hlt|Hge].
  - assert (E1 : (a - b) mod B w = a - b + B w) by (symmetry; apply (Zmod_unique _ _ (-1)); lia). rewrite E1.
    assert (E2 : (a - b + B w - cz) mod B w = a - b + B w - cz) by (apply Z.mod_small; lia). rewrite E2.
    assert (E3 : (a - b - cz) mod B w = a - b + B w - cz) by (symmetry; apply (Zmod_unique _ _ (-1)); lia). rewrite E3.
    cbn [orb]. destruct (Z.ltb_spec (a - b - cz) 0); [reflexivity | lia].
  - rewrite (Z.mod_small (a - b)) by lia. cbn [orb].
    destruct (Z.ltb_spec (a - b) cz), (Z.ltb_spec (a - b - cz) 0); try lia; reflexivity.
Qed.

Example arch_nonvacuous :
  arch_word_bits [(KForceBits, "32"%string); (KTargetArch, "x86_64"%string); (KPointerWidth, "64"%string)] = Some 32 /\
  arch_word_bits [(KTargetArch, "x86_64"%string); (KPointerWidth, "64"%string)] = Some 64 /\
  arch_word_bits [(KTargetArch, "riscv64"%string); (KPointerWidth, "64"%string)] = Some 64 /\
  arch_word_bits [(KTargetArch, "wasm32"%string); (KPointerWidth, "32"%string)] = Some 32 /\
  add_with_carry_gen 32 (2 ^ 32 - 1) 0 true = (0, true).
Proof. repeat split; vm_compute; reflexivity. Qed.
