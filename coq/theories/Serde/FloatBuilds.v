(** C19 (deepening round 4) - float mul / div / sqrt per build.  The oracle now compares every build token for token with
    C03's digit-exact models (Float/LongModel.v: the pinned models plus every Repr::new of the code).  Those models have
    no word-size parameter at all (they compute on Z: that IBig behaves like Z in every build is C01 / C02 / C09 per word
    size, Serde/WordRuns.v); the only build-dependent input is the digit estimate of Context::div (log2 estimator, std vs
    no_std), and the model does not depend on it.  Corollaries of C03's theorems, restated for the five builds. *)
From Dashu Require Import Base.Prelude Float.RoundSpec Float.Contract Float.Model Float.AddModel Float.AddModelProof Float.DivMulModel Float.DivMulProof
  Float.LongModel Float.MulDivLongProof Float.NormalProof.
From Dashu Require Import Conv.ConvModel Conv.ConvDivRoute.
Open Scope Z_scope.

(** Context::div with the estimates of two different builds (ANY functions): the same answer, digit for digit, for every
    dividend of up to p + digits(divisor) digits (contains the premise "operands fit the precision") *)
Theorem float_div_n_estimator_independent : forall B, 2 <= B -> forall du1 dl1 du2 dl2 p m s1 e1 s2 e2,
  div_long_class B p s1 s2 = false ->
  ctx_div_n B du1 dl1 p m s1 e1 s2 e2 = ctx_div_n B du2 dl2 p m s1 e1 s2 e2.
Proof.
  intros B HB du1 dl1 du2 dl2 p m s1 e1 s2 e2 Hc.
  rewrite (ctx_div_n_eq B du1 dl1 p m s1 e1 s2 e2 Hc), (ctx_div_n_eq B du2 dl2 p m s1 e1 s2 e2 Hc).
  unfold div_long_class in Hc. rewrite Z.gtb_ltb in Hc. apply Z.ltb_ge in Hc.
  rewrite (ctx_div_eq B du1 dl1 p m s1 e1 s2 e2 Hc), (ctx_div_eq B du2 dl2 p m s1 e1 s2 e2 Hc). reflexivity.
Qed.

(** what every build stores is in normal form (zero = (0, 0), otherwise the significand is not divisible by the base) *)
Theorem float_n_results_normal : forall B, 2 <= B -> forall du dl p m s1 e1 s2 e2,
  approx_normal B (ctx_mul_n B p m s1 e1 s2 e2) /\ result_normal B (ctx_div_n B du dl p m s1 e1 s2 e2) /\
  result_normal B (ctx_sqrt_n B p m s1 e1).
Proof.
  intros B HB du dl p m s1 e1 s2 e2. split; [exact (proj1 (ctx_mul_n_normal B HB p m s1 e1 s2 e2))|]. split.
  - exact (proj1 (proj2 (div_n_normal B HB du dl p m s1 e1 s2 e2))).
  - exact (proj1 (sqrt_rem_n_normal B HB p m s1 e1 s2 e2)).
Qed.

(** Context::mul in every build: ONE rounding of the exact product, then stored in normal form *)
Theorem float_mul_n_one_rounding : forall B, 2 <= B -> forall p m s1 e1 s2 e2, 1 <= p -> mul_long_class B p s1 s2 = false ->
  ctx_mul_n B p m s1 e1 s2 e2 = norm_approx B (ctx_mul B p m s1 e1 s2 e2) /\
  rounded_sum B p m (s1 * s2) (e1 + e2) (ctx_mul B p m s1 e1 s2 e2).
Proof.
  intros B HB p m s1 e1 s2 e2 Hp Hc. split; [exact (ctx_mul_n_eq B HB p m s1 e1 s2 e2 Hc)|].
  exact (proj2 (ctx_mul_long B HB p m s1 e1 s2 e2 Hp Hc)).
Qed.

(** FBig<_, B> -> f32 / f64 for B <> 2, division route of convert_base after the repair 344196e (C06): what is handed to
    into_f32_internal / into_f64_internal never has more than p bits - the debug assertion that split debug and release
    builds (finding fbig_to_float_wide_significand, Serde/FloatToIeeeAsis.v) is now a theorem *)
Theorem to_float_div_route_fits : forall p m N D e1 e2, 1 <= p -> 0 < D -> N <> 0 ->
  let a := div_round_once 2 p m N e1 D e2 in dlen 2 (fst (normalize 2 (approx_sig a) (approx_exp a))) <= p.
Proof. intros p m N D e1 e2. exact (div_round_once_fits 2 p m N D e1 e2 ltac:(lia)). Qed.

Example float_builds_nonvacuous :
  div_long_class 10 3 123 7 = false /\ mul_long_class 10 3 123 456 = false /\
  ctx_div_n 10 (dlen 10) (dlen 10) 3 MHalfEven 123 0 7 0 = ctx_div_n 10 (fun s => dlen 10 s + 1) (fun s => dlen 10 s - 1) 3 MHalfEven 123 0 7 0 /\
  ctx_mul_n 10 3 MHalfEven 125 0 8 0 = AExact 1 3 /\
  (let a := div_round_once 2 53 MHalfEven 4899 0 (10 ^ 7) 0 in dlen 2 (fst (normalize 2 (approx_sig a) (approx_exp a)))) = 53.
Proof. repeat split; vm_compute; reflexivity. Qed.
