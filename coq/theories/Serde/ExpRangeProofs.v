(** C19 (deepening round 4) - release vs debug builds of Context::mul (Serde/ExpRangeModel.v). *)
From Dashu Require Import Base.Prelude Float.RoundSpec Float.Model Float.LongModel Float.TextIoSpec Serde.ExpRangeModel.
From DashuGen Require Import RoundTables.
Open Scope Z_scope.

(** outside the class the two kinds of build agree, for all inputs (and are C03's model, whose theorems apply) *)
Theorem ctx_mul_builds_agree : forall B p m s1 e1 s2 e2, mul_exp_range_class e1 e2 = false ->
  ctx_mul_build true B p m s1 e1 s2 e2 = ctx_mul_build false B p m s1 e1 s2 e2 /\
  ctx_mul_build true B p m s1 e1 s2 e2 = Ok (ctx_mul_n B p m s1 e1 s2 e2).
Proof. intros. unfold ctx_mul_build. rewrite H. split; reflexivity. Qed.

(** exponents that stay in range are never in the class: in particular every case of the other generators *)
Lemma mul_exp_range_class_small : forall e1 e2, - 2 ^ 62 <= e1 < 2 ^ 62 -> - 2 ^ 62 <= e2 < 2 ^ 62 -> mul_exp_range_class e1 e2 = false.
Proof.
  intros e1 e2 H1 H2. unfold mul_exp_range_class, in_isize, isize_min, isize_max.
  change (2 ^ 62) with 4611686018427387904 in *.
  destruct (Z.leb_spec (- 2 ^ 63) (e1 + e2)) as [A|A]; [|change (2 ^ 63) with 9223372036854775808 in A; lia].
  destruct (Z.leb_spec (e1 + e2) (2 ^ 63 - 1)) as [C|C]; [|change (2 ^ 63) with 9223372036854775808 in C; lia].
  cbn [andb negb]. rewrite !andb_false_r. reflexivity.
Qed.

(** the finding: 3 * 10^(2^63 - 1) times 5 * 10^(2^63 - 1) at one digit.  Builds with overflow checks panic; builds without
    them return 2 * 10^-1 (the product is 2 * 10^(2^64 - 1) after rounding 15 to one digit, ties to even) *)
Theorem mul_exp_range_refuted :
  mul_exp_range_class (2 ^ 63 - 1) (2 ^ 63 - 1) = true /\
  ctx_mul_build true 10 1 MHalfEven 3 (2 ^ 63 - 1) 5 (2 ^ 63 - 1) = Panic Undocumented /\
  ctx_mul_build false 10 1 MHalfEven 3 (2 ^ 63 - 1) 5 (2 ^ 63 - 1) = Ok (AInexact 2 (-1) AddOne) /\
  ctx_mul_n 10 1 MHalfEven 3 (2 ^ 63 - 1) 5 (2 ^ 63 - 1) = AInexact 2 (2 ^ 64 - 1) AddOne.
Proof. repeat split; vm_compute; reflexivity. Qed.
