(** C19 (deepening round 4) - word-level runs of gcd / gcd_ext / nth_root / ilog AT THE WORD SIZE OF THE BUILD.
    The dispatch of integer/src/gcd_ops.rs, root_ops.rs and log.rs depends on the word size: what is "small" (fits a
    DoubleWord = 2 w bits), whether the divisor is a Word or a DoubleWord, the primitive type the binary gcd runs on, the
    Lehmer loop on words of w bits (COEFF_LIMIT = 2^(w-1) - 1, the double-word guess from MIN_DWORD_GUESS_LEN words on),
    the largest power of the base in a word (max_exp_in_word).  The kernels are C12's as-is models (imported read-only:
    Int/GrlModel.v, Int/GrlLehmer.v, Int/GrlKsqrt.v); this file transcribes the dispatch around them.
    DEFINITIONS ONLY; theorems in Serde/WordRuns2.v. *)
From Dashu Require Import Base.Prelude Int.GrlSpec Int.GrlModel Int.GrlLehmer Int.GrlKsqrt Int.IoSpec.
From Dashu Require Import Serde.WordRunsModel.
Open Scope Z_scope.

(** TypedReprRef: RefSmall(dword) iff the value fits two words *)
Definition wr_small (w v : Z) : bool := v <? 2 ^ (2 * w).

(* ------------------------------------------------------------------------------------- gcd (gcd_ops.rs) *)
(** gcd_large_dword: reduce the large operand by the Word / DoubleWord, then the primitive gcd of that width *)
Definition wr_gcd_large_dword (fuel : nat) (w big d : Z) : result Z :=
  if d =? 0 then Ok big
  else if d <? 2 ^ w then                                    (* shrink_dword(rhs) = Some(word) *)
    let rem := big mod d in
    if rem =? 0 then Ok d else prim_gcd_asis fuel w rem d
  else
    let rem := big mod d in
    if rem =? 0 then Ok d else prim_gcd_asis fuel (2 * w) rem d.

(** Gcd for TypedReprRef (IBig::gcd / UBig::gcd go through the magnitudes) *)
Definition wr_gcd (fuel : nat) (w a b : Z) : result Z :=
  let x := Z.abs a in let y := Z.abs b in
  match wr_small w x, wr_small w y with
  | true, true => prim_gcd_asis fuel (2 * w) x y
  | true, false => wr_gcd_large_dword fuel w y x
  | false, true => wr_gcd_large_dword fuel w x y
  | false, false => lehmer_gcd_asis fuel w x y
  end.

(* ------------------------------------------------------------------------------------- gcd_ext *)
(** gcd::gcd_ext_word / gcd_ext_dword (gcd/mod.rs): divide, extended gcd of (rhs, rem) on the primitive type, then
    b = s - t * q assembled from magnitudes: |b| = q * |t| + |s|, sign of b = sign of s, or the opposite of t's if s = 0;
    result (g, a, b) with g = a * lhs + b * rhs *)
Definition wr_gcd_ext_large_small (fuel : nat) (lhs rhs : Z) : result (Z * Z * Z) :=
  let q := lhs / rhs in
  let rem := lhs mod rhs in
  if rem =? 0 then Ok (rhs, 0, 1)
  else
    rbind (prim_gcd_ext_asis fuel rhs rem) (fun r =>
      let '(g, s, t) := r in
      let b_neg := if s =? 0 then negb (t <? 0) else s <? 0 in
      let b_mag := q * Z.abs t + Z.abs s in
      Ok (g, t, if b_neg then - b_mag else b_mag)).

Definition wr_gcd_ext_large_dword (fuel : nat) (big d : Z) : result (Z * Z * Z) :=
  if d =? 0 then Ok (big, 1, 0) else wr_gcd_ext_large_small fuel big d.

(** ExtendedGcd for TypedReprRef on magnitudes *)
Definition wr_gcdext (fuel : nat) (w x y : Z) : result (Z * Z * Z) :=
  match wr_small w x, wr_small w y with
  | true, true => prim_gcd_ext_asis fuel x y
  | false, true => wr_gcd_ext_large_dword fuel x y
  | true, false => rmap (fun r => let '(g, s, t) := r in (g, t, s)) (wr_gcd_ext_large_dword fuel y x)
  | false, false => lehmer_gcd_ext_asis fuel w x y
  end.

(** which arm, for the path histogram of the run *)
Definition wr_gcd_path (w x y : Z) : Z :=
  match wr_small w (Z.abs x), wr_small w (Z.abs y) with
  | true, true => 0
  | false, false => if MIN_DWORD_GUESS_LEN <=? Z.min (wlen w (Z.abs x)) (wlen w (Z.abs y)) then 3 else 2
  | _, _ => 1
  end.

(* ------------------------------------------------------------------------------------- nth_root (root_ops.rs) *)
(** n = 2 goes to sqrt, whose large arm is the Karatsuba square root on words of this size *)
Definition wr_nthroot (fuel : nat) (w x n : Z) : result Z :=
  if n =? 0 then Panic RootZeroth
  else if n =? 1 then Ok x
  else if n =? 2 then wr_sqrt w x
  else if bit_len x =? 0 then Ok 0
  else if bit_len x <=? n then Ok 1
  else newton_root fuel x n.

(* ------------------------------------------------------------------------------------- ilog (log.rs, math.rs) *)
(** max_exp_in_word(base) = (exp, base^exp): the largest power of the base that fits a word *)
Fixpoint mew_loop (fuel : nat) (W base exp pow : Z) : result (Z * Z) :=
  match fuel with
  | O => OutOfFuel
  | S k => if pow * base <? W then mew_loop k W base (exp + 1) (pow * base) else Ok (exp, pow)   (* checked_mul *)
  end.
Definition max_exp_in_word_asis (w base : Z) : result (Z * Z) :=
  if 2 ^ (w / 2) - 1 <? base then Ok (1, base)              (* base > ones_word(WORD_BITS / 2) *)
  else
    let exp := w / bit_len base in                           (* WORD_BITS / (WORD_BITS - leading_zeros) *)
    mew_loop (Z.to_nat w) (2 ^ w) base exp (base ^ exp).

(** the first guess.  The builds derive it from log2_bounds in f32 arithmetic (different in std and no_std builds); the
    loops return the same answer for EVERY guess that passes their own assertion base^est <= target (C12), so the run
    uses an integer under-estimate: floor((bit_len x - 1) / bit_len b) *)
Definition wr_ilog_est (x b : Z) : Z := (bit_len x - 1) / bit_len b.

Definition wr_ilog (fuel : nat) (w x b : Z) : result Z :=
  let D := 2 ^ (2 * w) in
  let shortcut := if x =? 0 then Some (Panic LogOperand) else if b <? D then ilog_shortcuts x b else None in
  match shortcut with
  | Some r => r
  | None =>
    let est := wr_ilog_est x b in
    match wr_small w x, wr_small w b with
    | true, true => rmap fst (log_dword_asis fuel D est x b)
    | true, false => Ok 0
    | false, true =>
        if b <? 2 ^ w then
          rbind (max_exp_in_word_asis w b) (fun we => rmap fst (log_word_base_asis fuel w est (fst we) x b))
        else rmap fst (log_large_asis fuel est x b)
    | false, false =>
        if x <? b then Ok 0 else if x =? b then Ok 1 else rmap fst (log_large_asis fuel est x b)
    end
  end.

Definition wr_ilog_path (w x b : Z) : Z :=
  let D := 2 ^ (2 * w) in
  if (x =? 0) || ((b <? D) && ((b <? 3) || is_pow2 b)) then 0
  else match wr_small w x, wr_small w b with
       | true, true => 1 | true, false => 2
       | false, true => if b <? 2 ^ w then 3 else 4
       | false, false => 5
       end.
