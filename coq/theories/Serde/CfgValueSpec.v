(** C19 - value-level specifications of the operations replayed in every build configuration
    (64/32-bit words, debug/release, std/no_std).  None of them mentions a word size: the same
    expected answer is used for every configuration.  Definitions only. *)
From Dashu Require Import Base.Prelude.
Open Scope Z_scope.

Definition cv_divrem (a b : Z) : Z * Z := (Z.quot a b, Z.rem a b).
Definition cv_diveuc (a b : Z) : Z * Z := let r := a mod Z.abs b in ((a - r) / b, r).
Definition cv_cmp (a b : Z) : Z := match a ?= b with Lt => -1 | Eq => 0 | Gt => 1 end.
Definition cv_bitlen (a : Z) : Z := if a =? 0 then 0 else Z.log2 (Z.abs a) + 1.

(** certificates (the answer is checked, not recomputed) *)
Definition cv_gcdext_ok (a b g s t : Z) : bool := (g =? Z.gcd a b) && (s * a + t * b =? g).
Definition cv_root_ok (x n r : Z) : bool := (0 <=? r) && (r ^ n <=? x) && (x <? (r + 1) ^ n).
Definition cv_ilog_ok (x b e : Z) : bool := (0 <=? e) && (b ^ e <=? x) && (x <? b ^ (e + 1)).

(** modular power by repeated squaring *)
Fixpoint cv_powmod_pos (m x : Z) (e : positive) : Z :=
  match e with
  | xH => x mod m
  | xO e' => let y := cv_powmod_pos m x e' in (y * y) mod m
  | xI e' => let y := cv_powmod_pos m x e' in ((y * y) mod m * x) mod m
  end.
Definition cv_powmod (m x e : Z) : Z :=
  match e with Z0 => 1 mod m | Zpos p => cv_powmod_pos m x p | Zneg _ => 0 end.

(** integer -> IEEE binary format (precision p, exponent field of eb bits), round to nearest, ties
    to even; the answer is the bit pattern and the sign of (rounded - exact) *)
Definition cv_int_to_float (p eb : Z) (v : Z) : Z * Z :=
  let m := Z.abs v in
  let sbit := if v <? 0 then 2 ^ (p - 1 + eb) else 0 in
  if m =? 0 then (0, 0) else
  let n := Z.log2 m + 1 in
  let sh := Z.max 0 (n - p) in
  let q0 := m / 2 ^ sh in
  let r := m mod 2 ^ sh in
  let half := 2 ^ sh / 2 in
  let up := if sh =? 0 then false else (half <? r) || ((r =? half) && Z.odd q0) in
  let q1 := if up then q0 + 1 else q0 in
  (* a carry out of the p bits moves the binade *)
  let '(q, sh') := if q1 =? 2 ^ p then (2 ^ (p - 1), sh + 1) else (q1, sh) in
  (* q * 2^sh' with 2^(k-1) <= q < 2^k, k <= p *)
  let k := Z.log2 q + 1 in
  let e := sh' + k - 1 in                                  (* unbiased exponent of the leading bit *)
  let bias := 2 ^ (eb - 1) - 1 in
  let err := Z.sgn (q * 2 ^ sh' - m) * Z.sgn v in
  if bias <? e then (sbit + (2 ^ eb - 1) * 2 ^ (p - 1), Z.sgn v)          (* overflow: infinity *)
  else (sbit + (e + bias) * 2 ^ (p - 1) + (q * 2 ^ (p - k) - 2 ^ (p - 1)), err).

(** rationals in lowest terms *)
Definition cv_qcanon (n d : Z) : Z * Z := let g := Z.gcd n d in if g =? 0 then (0, 0) else (n / g, d / g).
