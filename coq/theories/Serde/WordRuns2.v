(** C19 (deepening round 4) - the word-level runs of gcd / gcd_ext / nth_root / ilog (Serde/WordRunsModel2.v) return
    the word-size-free specification for EVERY word size, hence builds with different word sizes (and different first
    guesses, std / no_std) return the same answers.  Partial correctness + uniqueness of the certified answer: whenever
    two builds answer at all, they answer the same (totality of the inner loops is C12's: lehmer_loop_total,
    newton_root_terminates, log_*_terminates). *)
From Dashu Require Import Base.Prelude Int.GrlSpec Int.GrlSpecProof Int.GrlModel Int.GrlGcdProof Int.GrlRootProof Int.GrlLogProof.
From Dashu Require Import Int.GrlLehmer Int.GrlLehmerProof Int.GrlKsqrt Int.GrlKsqrtProof Int.IoSpec.
From Dashu Require Import Serde.WordRunsModel Serde.WordRuns Serde.WordRunsModel2.
Open Scope Z_scope.

Lemma gcd_spec_ok a b g : gcd_spec a b = Ok g -> g = Z.gcd a b.
Proof. unfold gcd_spec. destruct (_ && _); [discriminate|]. intros H. injection H as <-. reflexivity. Qed.

Section Runs2.
Variable w : Z.
Hypothesis w_ge : 8 <= w.

(* ------------------------------------------------------------------------------------- gcd *)
Lemma wr_gcd_large_dword_correct fuel big d g : 0 <= big -> 0 <= d ->
  wr_gcd_large_dword fuel w big d = Ok g -> g = Z.gcd big d.
Proof.
  intros Hb Hd. unfold wr_gcd_large_dword. destruct (Z.eqb_spec d 0) as [->|Hd0].
  { intros H. injection H as <-. rewrite Z.gcd_0_r, Z.abs_eq; lia. }
  pose proof (Z.gcd_mod big d Hd0) as G. pose proof (Z.mod_pos_bound big d ltac:(lia)) as Hm.
  assert (K : forall bits, (if big mod d =? 0 then Ok d else prim_gcd_asis fuel bits (big mod d) d) = Ok g -> g = Z.gcd big d).
  { intros bits. destruct (Z.eqb_spec (big mod d) 0) as [E|E].
    - intros H. injection H as <-. rewrite E, Z.gcd_0_l, Z.abs_eq in G by lia. rewrite (Z.gcd_comm big d). lia.
    - intros H. apply prim_gcd_asis_correct in H; [|lia|lia]. apply gcd_spec_ok in H. rewrite H, G. apply Z.gcd_comm. }
  destruct (d <? 2 ^ w); apply K.
Qed.

Theorem wr_gcd_correct fuel a b g : wr_gcd fuel w a b = Ok g -> g = Z.gcd a b.
Proof.
  unfold wr_gcd. rewrite <- (Z.gcd_abs_l a b), <- (Z.gcd_abs_r (Z.abs a) b).
  pose proof (Z.abs_nonneg a) as Ha. pose proof (Z.abs_nonneg b) as Hb.
  set (x := Z.abs a) in *. set (y := Z.abs b) in *.
  destruct (wr_small w x), (wr_small w y); intros H.
  - apply prim_gcd_asis_correct in H; [|lia|lia]. exact (gcd_spec_ok _ _ _ H).
  - rewrite Z.gcd_comm. exact (wr_gcd_large_dword_correct fuel y x g Hb Ha H).
  - exact (wr_gcd_large_dword_correct fuel x y g Ha Hb H).
  - exact (lehmer_gcd_asis_correct fuel w x y g ltac:(lia) Ha Hb H).
Qed.

(* ------------------------------------------------------------------------------------- gcd_ext *)
Lemma wr_gcd_ext_large_small_correct fuel lhs rhs g a b : 0 <= lhs -> 0 < rhs ->
  wr_gcd_ext_large_small fuel lhs rhs = Ok (g, a, b) -> gcd_ext_cert lhs rhs g a b = true.
Proof.
  intros Hl Hr. unfold wr_gcd_ext_large_small.
  pose proof (Z.div_mod lhs rhs ltac:(lia)) as DM. pose proof (Z.mod_pos_bound lhs rhs Hr) as Hm.
  set (q := lhs / rhs) in *. set (rem := lhs mod rhs) in *.
  destruct (Z.eqb_spec rem 0) as [E|E].
  - intros H. injection H as <- <- <-. apply mk_gcd_ext_cert; [|lia].
    rewrite (Z.gcd_comm lhs rhs), <- (Z.gcd_mod lhs rhs ltac:(lia)). fold rem. rewrite E, Z.gcd_0_l, Z.abs_eq; lia.
  - destruct (prim_gcd_ext_asis fuel rhs rem) as [[[g0 s] t]|?|?|] eqn:P; cbn [rbind]; try discriminate.
    pose proof (prim_gcd_ext_signs fuel rhs rem g0 s t ltac:(lia) ltac:(lia) P) as Sg.
    apply prim_gcd_ext_asis_correct in P; [|lia|lia]. apply gcd_ext_cert_complete in P. destruct P as [G Bz].
    intros H. injection H as <- <- <-.
    assert (Eb : (if (if s =? 0 then negb (t <? 0) else s <? 0) then - (q * Z.abs t + Z.abs s) else q * Z.abs t + Z.abs s) = s - t * q).
    { assert (0 <= q) by (apply Z.div_pos; lia).
      destruct (Z.eqb_spec s 0) as [->|Hs].
      - destruct (Z.ltb_spec t 0); cbn [negb]; [rewrite Z.abs_neq by lia | rewrite Z.abs_eq by lia]; cbn [Z.abs]; ring.
      - destruct (Z.ltb_spec s 0) as [Ls|Ls].
        + assert (0 <= t) by nia. rewrite (Z.abs_eq t), (Z.abs_neq s) by lia. ring.
        + assert (t <= 0) by nia. rewrite (Z.abs_neq t), (Z.abs_eq s) by lia. ring. }
    rewrite Eb. apply mk_gcd_ext_cert.
    + rewrite G. rewrite (Z.gcd_comm lhs rhs), <- (Z.gcd_mod lhs rhs ltac:(lia)). fold rem. apply Z.gcd_comm.
    + rewrite <- Bz. rewrite DM at 1. ring.
Qed.

Lemma gcd_ext_cert_swap a b g s t : gcd_ext_cert a b g s t = true -> gcd_ext_cert b a g t s = true.
Proof.
  intros H. apply gcd_ext_cert_complete in H. destruct H as [G E]. apply mk_gcd_ext_cert; [rewrite Z.gcd_comm; exact G | lia].
Qed.

Lemma wr_gcd_ext_large_dword_correct fuel big d g a b : 0 <= big -> 0 <= d ->
  wr_gcd_ext_large_dword fuel big d = Ok (g, a, b) -> gcd_ext_cert big d g a b = true.
Proof.
  intros Hb Hd. unfold wr_gcd_ext_large_dword. destruct (Z.eqb_spec d 0) as [->|Hd0].
  - intros H. injection H as <- <- <-. apply mk_gcd_ext_cert; [rewrite Z.gcd_0_r, Z.abs_eq; lia | lia].
  - apply wr_gcd_ext_large_small_correct; lia.
Qed.

Theorem wr_gcdext_correct fuel x y g s t : 0 <= x -> 0 <= y ->
  wr_gcdext fuel w x y = Ok (g, s, t) -> gcd_ext_cert x y g s t = true.
Proof.
  intros Hx Hy. unfold wr_gcdext. destruct (wr_small w x), (wr_small w y); intros H.
  - exact (prim_gcd_ext_asis_correct fuel x y g s t Hx Hy H).
  - unfold rmap in H. destruct (wr_gcd_ext_large_dword fuel y x) as [[[g0 s0] t0]|?|?|] eqn:E; cbn [rbind] in H; try discriminate.
    injection H as <- <- <-. apply gcd_ext_cert_swap. exact (wr_gcd_ext_large_dword_correct fuel y x g0 s0 t0 Hy Hx E).
  - exact (wr_gcd_ext_large_dword_correct fuel x y g s t Hx Hy H).
  - exact (lehmer_gcd_ext_asis_correct fuel w x y g s t ltac:(lia) Hx Hy H).
Qed.

(* ------------------------------------------------------------------------------------- nth_root *)
Hypothesis w_even : w mod 2 = 0.

(** the run is C12's value-level model, whatever the word size: only the n = 2 arm touches words *)
Theorem wr_nthroot_eq fuel x n : 0 <= x -> wr_nthroot fuel w x n = nth_root_asis fuel x n.
Proof.
  intros Hx. unfold wr_nthroot, nth_root_asis. rewrite (wr_sqrt_spec w w_ge w_even x Hx). reflexivity.
Qed.

Theorem wr_nthroot_correct fuel x n r : 0 <= x -> 0 < n ->
  wr_nthroot fuel w x n = Ok r -> root_cert n x r = true.
Proof. intros Hx Hn. rewrite (wr_nthroot_eq fuel x n Hx). exact (nth_root_asis_correct fuel x n r Hx Hn). Qed.

Theorem wr_nthroot_panics fuel x n r : 0 <= x -> wr_nthroot fuel w x n = Panic r -> r = RootZeroth /\ n = 0.
Proof. intros Hx. rewrite (wr_nthroot_eq fuel x n Hx). exact (nth_root_asis_panics fuel x n r). Qed.

(* ------------------------------------------------------------------------------------- ilog *)
Lemma mew_loop_correct base W : 2 <= base -> forall fuel exp pow e p, 0 <= exp -> pow = base ^ exp -> pow < W ->
  mew_loop fuel W base exp pow = Ok (e, p) -> 0 <= e /\ p = base ^ e /\ p < W /\ W <= p * base.
Proof.
  intros Hb. induction fuel as [|k IH]; intros exp pow e p He Hp Hw H; [discriminate|]. cbn [mew_loop] in H.
  destruct (Z.ltb_spec (pow * base) W) as [L|L].
  - apply (IH (exp + 1) (pow * base) e p ltac:(lia)); [|exact L|exact H]. rewrite Z.pow_add_r, Z.pow_1_r by lia. rewrite Hp. reflexivity.
  - injection H as <- <-. repeat split; assumption.
Qed.

Lemma bit_len_pow base : 0 < base -> base < 2 ^ bit_len base /\ 0 < bit_len base.
Proof.
  intros Hb. unfold bit_len. destruct (Z.eqb_spec base 0); [lia|]. pose proof (Z.log2_spec base Hb) as [_ L]. pose proof (Z.log2_nonneg base).
  unfold Z.succ in L. split; lia.
Qed.

(** max_exp_in_word: the largest power of the base below 2^w *)
Theorem max_exp_in_word_asis_correct base e p : 2 <= base < 2 ^ w ->
  max_exp_in_word_asis w base = Ok (e, p) -> 0 <= e /\ p = base ^ e /\ p < 2 ^ w /\ (2 ^ (w / 2) - 1 < base \/ 2 ^ w <= p * base).
Proof.
  intros Hb. unfold max_exp_in_word_asis. destruct (Z.ltb_spec (2 ^ (w / 2) - 1) base) as [L|L].
  - intros H. injection H as <- <-. rewrite Z.pow_1_r. repeat split; lia.
  - intros H. destruct (bit_len_pow base ltac:(lia)) as [Hbl Hpos].
    set (k := bit_len base) in *. set (exp := w / k) in *.
    assert (Hexp : 0 <= exp) by (apply Z.div_pos; lia).
    assert (Hlt : base ^ exp < 2 ^ w).
    { assert (base ^ exp < (2 ^ k) ^ exp \/ exp = 0).
      { destruct (Z.eq_dec exp 0); [right; assumption|left]. apply Z.pow_lt_mono_l; lia. }
      assert ((2 ^ k) ^ exp <= 2 ^ w).
      { rewrite <- Z.pow_mul_r by lia. apply Z.pow_le_mono_r; [lia|]. unfold exp. apply Z.mul_div_le. lia. }
      destruct H0 as [H0|H0]; [lia|]. rewrite H0, Z.pow_0_r. apply Z.pow_gt_1; lia. }
    destruct (mew_loop_correct base (2 ^ w) ltac:(lia) _ _ _ _ _ Hexp eq_refl Hlt H) as (A & B & C & D).
    repeat split; try assumption. right. exact D.
Qed.

Lemma wr_ilog_est_nonneg x b : 0 < x -> 2 <= b -> 0 <= wr_ilog_est x b.
Proof.
  intros Hx Hb. unfold wr_ilog_est. destruct (bit_len_pow b ltac:(lia)) as [_ Hk]. destruct (bit_len_pow x Hx) as [_ Hkx].
  apply Z.div_pos; lia.
Qed.

Lemma wlen_large x : 2 ^ (2 * w) <= x -> 2 <= wlen w x.
Proof.
  intros Hx. assert (0 < 2 ^ (2 * w)) by (apply Z.pow_pos_nonneg; lia). unfold wlen. destruct (Z.eqb_spec x 0); [lia|].
  assert (2 * w <= Z.log2 x) by (apply Z.log2_le_pow2; lia).
  assert (2 <= Z.log2 x / w) by (apply Z.div_le_lower_bound; lia). lia.
Qed.

Theorem wr_ilog_correct fuel x b e : 0 <= x -> 0 <= b ->
  wr_ilog fuel w x b = Ok e -> ilog_cert x b e = true.
Proof.
  intros Hx Hb. unfold wr_ilog. cbv zeta. set (D := 2 ^ (2 * w)).
  assert (HD : 4 <= D).
  { unfold D. change 4 with (2 ^ 2). apply Z.pow_le_mono_r; lia. }
  assert (HW : 2 ^ w < D).
  { unfold D. apply Z.pow_lt_mono_r; lia. }
  destruct (Z.eqb_spec x 0) as [->|Hx0]; [discriminate|].
  assert (Sc : forall r, ilog_shortcuts x b = Some r -> r = Ok e -> ilog_cert x b e = true).
  { intros r S ->. exact (ilog_shortcuts_correct x b (Ok e) Hx S). }
  assert (Nb : ilog_shortcuts x b = None -> 3 <= b).
  { unfold ilog_shortcuts. destruct (Z.eqb_spec x 0); [discriminate|]. destruct (Z.ltb_spec b 2); [discriminate|].
    destruct (Z.eqb_spec b 2); [discriminate|]. intros _. lia. }
  assert (Cone : x < b -> ilog_cert x b 0 = true).
  { intros L. unfold ilog_cert. rewrite Z.abs_eq, Z.pow_0_r, Z.pow_1_r by lia. cbn [Z.leb].
    destruct (Z.leb_spec 1 x); [|lia]. destruct (Z.ltb_spec x b); [reflexivity | lia]. }
  assert (Hest : forall b', 2 <= b' -> 0 <= wr_ilog_est x b') by (intros; apply wr_ilog_est_nonneg; lia).
  assert (Main : 3 <= b ->
    match wr_small w x, wr_small w b with
    | true, true => rmap fst (log_dword_asis fuel D (wr_ilog_est x b) x b)
    | true, false => Ok 0
    | false, true => if b <? 2 ^ w then rbind (max_exp_in_word_asis w b) (fun we => rmap fst (log_word_base_asis fuel w (wr_ilog_est x b) (fst we) x b))
                     else rmap fst (log_large_asis fuel (wr_ilog_est x b) x b)
    | false, false => if x <? b then Ok 0 else if x =? b then Ok 1 else rmap fst (log_large_asis fuel (wr_ilog_est x b) x b)
    end = Ok e -> ilog_cert x b e = true).
  { intros Hb3. unfold wr_small. fold D.
    assert (Large : rmap fst (log_large_asis fuel (wr_ilog_est x b) x b) = Ok e -> ilog_cert x b e = true).
    { unfold rmap. destruct (log_large_asis fuel (wr_ilog_est x b) x b) as [[e0 p0]|?|?|] eqn:E; cbn [rbind fst]; try discriminate.
      intros H. injection H as <-. exact (proj1 (log_large_asis_correct x b ltac:(lia) ltac:(lia) fuel _ e0 p0 E)). }
    destruct (Z.ltb_spec x D) as [Sx|Sx], (Z.ltb_spec b D) as [Sb|Sb].
    - unfold rmap. destruct (log_dword_asis fuel D (wr_ilog_est x b) x b) as [[e0 p0]|?|?|] eqn:E; cbn [rbind fst]; try discriminate.
      intros H. injection H as <-. exact (proj1 (log_dword_asis_correct x b ltac:(lia) ltac:(lia) fuel D _ e0 p0 Sx (Hest b ltac:(lia)) E)).
    - intros H. injection H as <-. apply Cone. lia.
    - destruct (Z.ltb_spec b (2 ^ w)) as [Bw|Bw]; [|exact Large].
      destruct (max_exp_in_word_asis w b) as [[we wb]|?|?|] eqn:M; cbn [rbind fst]; try discriminate.
      destruct (max_exp_in_word_asis_correct b we wb ltac:(lia) M) as (We & Wp & Wl & _).
      unfold rmap. destruct (log_word_base_asis fuel w (wr_ilog_est x b) we x b) as [[e0 p0]|?|?|] eqn:E; cbn [rbind fst]; try discriminate.
      intros H. injection H as <-. subst wb.
      exact (proj1 (log_word_base_asis_correct x b ltac:(lia) ltac:(lia) w ltac:(lia) (b ^ we) we We eq_refl Wl fuel _ e0 p0 (wlen_large x Sx) (Hest b ltac:(lia)) E)).
    - destruct (Z.ltb_spec x b) as [L|L]; [intros H; injection H as <-; exact (Cone L)|].
      destruct (Z.eqb_spec x b) as [->|N]; [|exact Large].
      intros H. injection H as <-. unfold ilog_cert. rewrite Z.abs_eq, Z.pow_1_r by lia. cbn [Z.leb].
      destruct (Z.leb_spec b b); [|lia]. replace (1 + 1) with 2 by lia. destruct (Z.ltb_spec b (b ^ 2)); [reflexivity | nia]. }
  destruct (Z.ltb_spec b D) as [Sb|Sb].
  - destruct (ilog_shortcuts x b) as [r|] eqn:S; [intros H; exact (Sc r eq_refl H) | exact (Main (Nb eq_refl))].
  - apply Main. lia.
Qed.
End Runs2.

(** the headline: two builds with different word sizes (and different fuels / first guesses) that both answer, answer the
    same: gcd, the gcd and the Bezout combination of gcd_ext, the n-th root, the integer logarithm *)
Theorem word_runs2_independent : forall w1 w2, 8 <= w1 -> 8 <= w2 -> w1 mod 2 = 0 -> w2 mod 2 = 0 -> forall f1 f2,
  (forall a b g1 g2, wr_gcd f1 w1 a b = Ok g1 -> wr_gcd f2 w2 a b = Ok g2 -> g1 = g2) /\
  (forall x y g1 s1 t1 g2 s2 t2, 0 <= x -> 0 <= y -> wr_gcdext f1 w1 x y = Ok (g1, s1, t1) -> wr_gcdext f2 w2 x y = Ok (g2, s2, t2) ->
     g1 = g2 /\ g1 = Z.gcd x y /\ s1 * x + t1 * y = g1 /\ s2 * x + t2 * y = g1) /\
  (forall x n r1 r2, 0 <= x -> 0 < n -> wr_nthroot f1 w1 x n = Ok r1 -> wr_nthroot f2 w2 x n = Ok r2 -> r1 = r2) /\
  (forall x n, 0 <= x -> wr_nthroot f1 w1 x n = wr_nthroot f1 w2 x n) /\
  (forall x b e1 e2, 0 <= x -> 2 <= b -> wr_ilog f1 w1 x b = Ok e1 -> wr_ilog f2 w2 x b = Ok e2 -> e1 = e2).
Proof.
  intros w1 w2 H1 H2 E1 E2 f1 f2.
  repeat match goal with |- _ /\ _ => split | |- forall _, _ => intro end.
  - rewrite (wr_gcd_correct w1 H1 f1 a b g1 H), (wr_gcd_correct w2 H2 f2 a b g2 H0). reflexivity.
  - destruct (gcd_ext_cert_complete _ _ _ _ _ (wr_gcdext_correct w1 H1 f1 x y g1 s1 t1 H H0 H3)) as [G1 _].
    destruct (gcd_ext_cert_complete _ _ _ _ _ (wr_gcdext_correct w2 H2 f2 x y g2 s2 t2 H H0 H4)) as [G2 _]. congruence.
  - exact (proj1 (gcd_ext_cert_complete _ _ _ _ _ (wr_gcdext_correct w1 H1 f1 x y g1 s1 t1 H H0 H3))).
  - exact (proj2 (gcd_ext_cert_complete _ _ _ _ _ (wr_gcdext_correct w1 H1 f1 x y g1 s1 t1 H H0 H3))).
  - destruct (gcd_ext_cert_complete _ _ _ _ _ (wr_gcdext_correct w1 H1 f1 x y g1 s1 t1 H H0 H3)) as [G1 _].
    destruct (gcd_ext_cert_complete _ _ _ _ _ (wr_gcdext_correct w2 H2 f2 x y g2 s2 t2 H H0 H4)) as [G2 B2]. rewrite B2. congruence.
  - exact (root_cert_unique n x r1 r2 H0 (wr_nthroot_correct w1 H1 E1 f1 x n r1 H H0 H3) (wr_nthroot_correct w2 H2 E2 f2 x n r2 H H0 H4)).
  - rewrite (wr_nthroot_eq w1 H1 E1 f1 x n H), (wr_nthroot_eq w2 H2 E2 f1 x n H). reflexivity.
  - exact (ilog_cert_unique x b e1 e2 H0 (wr_ilog_correct w1 H1 f1 x b e1 H ltac:(lia) H3) (wr_ilog_correct w2 H2 f2 x b e2 H ltac:(lia) H4)).
Qed.

(** non-vacuity: the arms differ between the word sizes (three 64-bit words are six 32-bit words: Lehmer in both, but a
    96-bit operand is "small" only with 64-bit words), the answers do not *)
Example word_runs2_nonvacuous :
  wr_gcd 400 32 (3 * (2 ^ 190 + 7)) (- 3 * (2 ^ 170 + 11)) = Ok 3 /\ wr_gcd 400 64 (3 * (2 ^ 190 + 7)) (- 3 * (2 ^ 170 + 11)) = Ok 3 /\
  wr_gcd_path 32 (2 ^ 90) (2 ^ 80 + 1) = 2 /\ wr_gcd_path 64 (2 ^ 90) (2 ^ 80 + 1) = 0 /\
  wr_gcd 400 32 (6 * (2 ^ 90 + 1)) (2 ^ 80 + 4) = wr_gcd 400 64 (6 * (2 ^ 90 + 1)) (2 ^ 80 + 4) /\
  wr_gcdext 400 32 (3 * (2 ^ 190 + 7)) (3 * (2 ^ 170 + 11)) = wr_gcdext 400 64 (3 * (2 ^ 190 + 7)) (3 * (2 ^ 170 + 11)) /\
  wr_gcdext 400 32 (2 ^ 100 + 1) 12345 = wr_gcdext 400 64 (2 ^ 100 + 1) 12345 /\
  wr_gcdext 400 64 (2 ^ 200 + 1) 12345 = Ok (1, -4777, 621817986020672057210526765096292730032285435504285247001594) /\
  wr_nthroot 100 32 (10 ^ 40 + 1) 5 = Ok (10 ^ 8) /\ wr_nthroot 100 32 (2 ^ 130 + 7) 2 = Ok (2 ^ 65) /\
  max_exp_in_word_asis 64 10 = Ok (19, 10 ^ 19) /\ max_exp_in_word_asis 32 10 = Ok (9, 10 ^ 9) /\ max_exp_in_word_asis 32 65536 = Ok (1, 65536) /\
  wr_ilog 100 32 (10 ^ 30 - 1) 10 = Ok 29 /\ wr_ilog 100 64 (10 ^ 30 - 1) 10 = Ok 29 /\
  wr_ilog_path 32 (10 ^ 30) 10 = 3 /\ wr_ilog_path 64 (10 ^ 30) 10 = 1 /\
  wr_ilog 100 32 (7 ^ 50) (2 ^ 40 + 1) = wr_ilog 100 64 (7 ^ 50) (2 ^ 40 + 1) /\ wr_ilog 100 32 5 (2 ^ 70) = Ok 0.
Proof. repeat match goal with |- _ /\ _ => split end; vm_compute; reflexivity. Qed.
