(** C19 (deepening round 4) - release vs debug: exponent arithmetic on isize.  DEFINITIONS ONLY.
    OPEN finding float_exponent_range_unchecked: the exponent of a product / square / cube / quotient / shifted float is
    formed with a plain + - * on isize (mul.rs [lhs.exponent + rhs.exponent], [2 * exponent], [3 * exponent], div.rs
    [lhs.exponent - rhs.exponent], shift.rs [exponent += rhs]).  When the true exponent leaves the range of isize the
    result is not representable; builds with overflow checks panic with core's "attempt to add with overflow", builds
    without them (release) wrap the exponent modulo 2^64 and return a finite number that is off by a factor B^(2^64).
    Model of Context::mul in both kinds of build on top of C03's digit-exact model. *)
From Dashu Require Import Base.Prelude Float.RoundSpec Float.Model Float.LongModel Float.TextIoSpec.
Open Scope Z_scope.

Definition isize_bits : Z := 64.
Definition wrap_isize (e : Z) : Z := (e + 2 ^ (isize_bits - 1)) mod 2 ^ isize_bits - 2 ^ (isize_bits - 1).

(** the class: operands are stored floats (exponents in range), their exponents do not add up within isize *)
Definition mul_exp_range_class (e1 e2 : Z) : bool := in_isize e1 && in_isize e2 && negb (in_isize (e1 + e2)).

Definition shift_approx (k : Z) (a : approx) : approx :=
  match a with AExact s e => AExact s (e + k) | AInexact s e r => AInexact s (e + k) r end.

Definition wrap_approx (a : approx) : approx :=
  match a with AExact s e => AExact s (wrap_isize e) | AInexact s e r => AInexact s (wrap_isize e) r end.

(** Context::mul: [checked] = overflow checks on (debug / verif profile).  Outside the class: C03's model.  Inside: the sum
    wraps, and so does the small amount the rounding adds to it (repr.rs [repr.exponent + shift as isize]): the stored exponent
    is the true one modulo 2^64 *)
Definition ctx_mul_build (checked : bool) (B p : Z) (m : mode) (s1 e1 s2 e2 : Z) : result approx :=
  if mul_exp_range_class e1 e2 then
    if checked then Panic Undocumented
    else Ok (wrap_approx (shift_approx (e1 + e2) (ctx_mul_n B p m s1 0 s2 0)))
  else Ok (ctx_mul_n B p m s1 e1 s2 e2).
