(** C19 (deepening round 3) - the human-readable serde forms (what serde_json carries inside a JSON string).
    Serialize: [serializer.collect_str(self)] = Display with a default Formatter.
    Deserialize: visit_str = from_str_with_radix_prefix (integers, rationals), the "inf"/"-inf" shortcut followed by
    from_str_native (floats).  The integer printer / parser are C07's (IoSpec / IoModel), the float ones C08's
    (TextIoModel); this file only composes them the way the three third_party/serde.rs files do. *)
From Dashu Require Import Base.Prelude Int.IoSpec Int.IoModel Float.RoundSpec Float.TextIoSpec Float.TextIoModel Serde.WireModel.
Open Scope Z_scope.

(** a default core::fmt::Formatter: no flags, no width, no precision, fill ' ' *)
Definition json_flags : fmtflags := mkflags false false false None None [32].

(* ---------------------------------------------------------------------------------------------- *)
(** * UBig / IBig (integer/src/third_party/serde.rs) *)
Definition json_int_text (v : Z) : result (list Z) := fmt_spec KDisplay json_flags v.
Definition json_int_text_asis (w v : Z) : result (list Z) := fmt_asis w KDisplay json_flags v.
(** visit_str: [match X::from_str_with_radix_prefix(v) { Ok((n, _)) => Ok(n), Err(e) => Err(custom(e)) }] *)
Definition json_int_de (signed_ : bool) (s : list Z) : result Z := rmap fst (from_str_prefix_spec signed_ 10 s).
Definition json_int_de_asis (w : Z) (signed_ : bool) (s : list Z) : result Z := rmap fst (from_str_prefix_asis w signed_ 10 s).

(* ---------------------------------------------------------------------------------------------- *)
(** * RBig / Relaxed (rational/src/third_party/serde.rs, fmt.rs Display for Repr, parse.rs) *)
Definition json_rat_text (n d : Z) : result (list Z) :=
  if d =? 1 then json_int_text n
  else rbind (json_int_text n) (fun tn => rbind (json_int_text d) (fun td => Ok (tn ++ 47 :: td))).

(** src.find('/'): split at the FIRST slash *)
Fixpoint split_slash (s : list Z) : option (list Z * list Z) :=
  match s with
  | [] => None
  | c :: t => if c =? 47 then Some ([], t)
              else match split_slash t with Some (a, b) => Some (c :: a, b) | None => None end
  end.

Definition E_InconsistentRadix : Z := 4.

(** Repr::from_str_with_radix_prefix: numerator with prefix (default radix 10), denominator with the numerator's
    radix as default, both radices must agree, zero denominator rejected, the denominator's sign moves up *)
Definition rat_from_str_prefix (s : list Z) : result (Z * Z * Z) :=
  match split_slash s with
  | Some (a, b) =>
    rbind (from_str_prefix_spec true 10 a) (fun nr =>
    rbind (from_str_prefix_spec true (snd nr) b) (fun dr =>
      if negb (snd nr =? snd dr) then Err E_InconsistentRadix
      else if fst dr =? 0 then Err E_InvalidDigit
      else Ok (fst nr * Z.sgn (fst dr), Z.abs (fst dr), snd nr)))
  | None => rbind (from_str_prefix_spec true 10 s) (fun nr => Ok (fst nr, 1, snd nr))
  end.

(** deserialize_repr (zero-denominator guard) then reduce() / reduce2() *)
Definition json_rat_de (relaxed : bool) (s : list Z) : result (Z * Z) :=
  rbind (rat_from_str_prefix s) (fun x =>
    let '(n, d, _) := x in
    if d =? 0 then Err 2 else Ok (if relaxed then rat_reduce2 n d else rat_reduce n d)).

(* ---------------------------------------------------------------------------------------------- *)
(** * Repr<B> / FBig<R, B> (float/src/third_party/serde.rs, fmt.rs)
    a float is (significand, exponent); (0, e > 0) / (0, e < 0) are the infinities *)
Definition txt_inf : list Z := [105; 110; 102].
Definition txt_ninf : list Z := 45 :: txt_inf.

(** Display for Repr = fmt_round::<Zero> with its shortcut for the infinities *)
Definition json_float_text (B s e : Z) : list Z :=
  if (s =? 0) && (0 <? e) then txt_inf
  else if (s =? 0) && (e <? 0) then txt_ninf
  else fmt_round_asis B MZero json_flags s e None.

Fixpoint list_eqb (a b : list Z) : bool :=
  match a, b with
  | [], [] => true
  | x :: a', y :: b' => (x =? y) && list_eqb a' b'
  | _, _ => false
  end.

(** ReprVisitor::visit_str / FBigVisitor::visit_str: infinity_from_str first, then from_str_native; the value part *)
Definition json_float_de (B : Z) (t : list Z) : result (Z * Z) :=
  if list_eqb t txt_inf then Ok (0, 1)
  else if list_eqb t txt_ninf then Ok (0, -1)
  else rbind (parse_asis B t) (fun x => let '(s, e, _) := x in Ok (s, e)).

(** OPEN FINDING fbig_json_inf_collision: for bases >= 24 the letters i, n, f are digits, the finite number with the
    digit string "inf" (18 B^2 + 23 B + 15, exponent 0) is printed exactly like +infinity and is decoded as
    +infinity.  The class, as a function of the value: *)
Definition json_inf_collision (B s e : Z) : bool :=
  negb ((s =? 0) && negb (e =? 0)) &&
  (list_eqb (json_float_text B s e) txt_inf || list_eqb (json_float_text B s e) txt_ninf).
