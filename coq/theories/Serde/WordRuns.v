(** C19 (deepening round 3) - the word-level runs the oracle evaluates AT THE WORD SIZE OF THE BUILD that produced
    the answer (w = 64 for the default / release / nostd builds, w = 32 for force_bits="32"): an integer is turned
    into the representation the build keeps (inline up to two WORDS, else a minimal word list), the word-level
    as-is models of C01 / C02 / C09 / C07 / C12 / C13 / C06 are run on it, and the value is read back.
    Every run is proved equal to its word-size-free specification FOR EVERY w (>= 8, a multiple of 8):
    the control flow differs between the builds (thresholds counted in words, digits per word, ring kind,
    normalising shifts), the answer cannot. *)
From Dashu Require Import Base.Prelude Base.Words Int.RingSpec Int.RingSign Int.RingAdd Int.RingMul
  Int.RingDispatchProofs Int.RingOps Int.RingOpsProofs Int.RingOpsMulProofs Int.RingPowProofs Int.RingTop Int.RingCanon
  Int.DivWordModel Int.DivWordInst Int.RingMulW Int.RingOpsW Int.RingOpsWProofs Int.RingTopW.
From Dashu Require Import Int.DivContracts Int.DivSrcInst Int.DivSrcInstProofs.
From Dashu Require Import Int.BitsSpec Int.BitsKernels Int.BitsKernelsBase Int.BitsShiftProofs Int.BitsMiscProofs
  Int.BitsCountProofs Int.BitsSignedProofs Int.BitsTrailProofs.
From Dashu Require Import Int.IoSpec Int.IoModel Int.IoPow2 Int.IoTop.
From Dashu Require Import Int.GrlSpec Int.GrlKsqrt Int.GrlKsqrtProof.
From Dashu Require Import Conv.ConvSpec Conv.ConvModel Conv.ConvSmallProofs.
From Dashu Require Import Serde.WordSizeKernels2 Serde.JsonModel Serde.WordRunsModel.
From DashuGen Require Import Params.
Open Scope Z_scope.

(* ------------------------------------------------------------------------------------- theorems *)
Ltac srcfold := change (Z.to_nat mul_threshold_simple) with src_T_simple; change (Z.to_nat mul_threshold_karatsuba) with src_T_kara;
  change (Z.to_nat mul_simple_chunk_len) with src_CHUNK; change (Z.to_nat sqr_max_len_simple) with src_SQR.

Section Runs.
Variable w : Z.
Hypothesis w_ge : 8 <= w.
Let w_pos : 0 < w. Proof. lia. Qed.

Lemma x2by1_contract : contract_2by1 w x2by1.
Proof. intros d a _ _. reflexivity. Qed.

Lemma wr_tv_ok v : repr_value w (wr_tv w v) = Z.abs v /\ twf w (wr_tv w v).
Proof. exact (typed_of_value_twf w w_ge (Z.abs v) (Z.abs_nonneg v)). Qed.

Theorem wr_mul_spec a b : wr_mul w a b = Ok (a * b).
Proof.
  unfold wr_mul. srcfold. destruct (wr_tv_ok a) as [Va Ta], (wr_tv_ok b) as [Vb Tb].
  destruct (ibig_mul_w_exact w w_ge x2by1 x2by1_contract (sign_of a) _ (sign_of b) _ (twf_tok w _ Ta) (twf_tok w _ Tb)) as (r & E & V & _).
  rewrite E. cbn [rmap rbind]. rewrite V. unfold wr_tv. rewrite !(ityped_value w w_ge). reflexivity.
Qed.

Theorem wr_sqr_spec a : wr_sqr w a = Ok (a * a).
Proof.
  unfold wr_sqr. srcfold. destruct (wr_tv_ok a) as [Va Ta].
  destruct (sqr_w_exact w w_ge x2by1 x2by1_contract _ (twf_tok w _ Ta)) as (r & E & V & _).
  rewrite E. cbn [rmap rbind]. rewrite V, Va. unfold sqr_spec. f_equal. lia.
Qed.

Theorem wr_add_sub_spec a b : wr_add w a b = Ok (a + b) /\ wr_sub w a b = Ok (a - b).
Proof.
  unfold wr_add, wr_sub, wr_tv. split.
  - destruct (ibig_add_Z w w_ge OVV a b) as (r & E & V). rewrite E. cbn [rmap rbind]. rewrite V. reflexivity.
  - destruct (ibig_sub_Z w w_ge OVR a b) as (r & E & V). rewrite E. cbn [rmap rbind]. rewrite V. reflexivity.
Qed.

Theorem wr_pow_spec a e : 0 <= e -> wr_pow w a e = Ok (a ^ e).
Proof.
  intros He. unfold wr_pow, wr_tv. srcfold. destruct (ibig_pow_Z w w_ge a e He) as (r & E & V). rewrite E. cbn [rmap rbind]. rewrite V. reflexivity.
Qed.

Theorem wr_divrem_spec a b : wr_divrem w a b = if b =? 0 then Panic DivideBy0 else Ok (Z.quot a b, Z.rem a b).
Proof.
  unfold wr_divrem. destruct (Z.eqb_spec b 0) as [|Hb]; [reflexivity|].
  destruct (s_division_unconditional w w_ge (Z.abs a) (Z.abs b) (Z.abs_nonneg a) ltac:(lia)) as (E & _).
  rewrite E. cbn [rmap rbind fst snd]. f_equal. f_equal.
  - rewrite (Z.quot_div a b Hb). ring.
  - rewrite (Z.rem_mod a b Hb). reflexivity.
Qed.

Lemma wr_br_ok v : bvalue w (wr_br w v) = Z.abs v /\ brepr_ok w (wr_br w v).
Proof. exact (to_brepr_ok w w_pos (Z.abs v) (Z.abs_nonneg v)). Qed.

Lemma wr_mag_ok v : mag_ok w (sign_of v) (wr_br w v).
Proof.
  destruct (wr_br_ok v) as [V K]. split; [exact K|]. rewrite V. unfold sign_of. destruct (Z.ltb_spec v 0); [lia | discriminate].
Qed.

Lemma wr_signed v : signed (sign_of v) (bvalue w (wr_br w v)) = v.
Proof. rewrite (proj1 (wr_br_ok v)). unfold signed, sign_of. destruct (Z.ltb_spec v 0); cbn [sgnz]; lia. Qed.

Theorem wr_bitops_spec a b :
  wr_and w a b = Z.land a b /\ wr_or w a b = Z.lor a b /\ wr_xor w a b = Z.lxor a b.
Proof.
  unfold wr_and, wr_or, wr_xor.
  destruct (ibig_bitops_asis_correct w w_pos VV (sign_of a) _ (sign_of b) _ (wr_mag_ok a) (wr_mag_ok b)) as (P & Q & R).
  rewrite P, Q, R, !wr_signed. repeat split; reflexivity.
Qed.

Theorem wr_shift_spec a n : 0 <= n -> wr_shl w a n = Z.shiftl a n /\ wr_shr w a n = Z.shiftr a n.
Proof.
  intros Hn. unfold wr_shl, wr_shr. destruct (wr_br_ok a) as [_ K].
  rewrite (ibig_shl_asis_correct w w_pos _ false _ n Hn K), (proj1 (ibig_shr_asis_correct w w_pos _ _ n Hn K)), !wr_signed.
  split; reflexivity.
Qed.

Theorem wr_queries_spec a :
  wr_bitlen w a = bit_len_spec (Z.abs a) /\ wr_tz w a = trailing_zeros_spec (Z.abs a) /\ wr_ones w a = count_ones_spec (Z.abs a).
Proof.
  unfold wr_bitlen, wr_tz, wr_ones. destruct (wr_br_ok a) as [V K].
  rewrite (repr_bit_len_correct w w_pos _ K), (repr_trailing_zeros_correct w w_pos _ K), (repr_count_ones_correct w w_pos _ K), V.
  repeat split; reflexivity.
Qed.

Hypothesis w_even : w mod 2 = 0.

Lemma w_io : 36 < IoModel.Bw w.
Proof. unfold IoModel.Bw. apply (Z.lt_le_trans _ (2 ^ 8)); [reflexivity | apply Z.pow_le_mono_r; lia]. Qed.

Theorem wr_text_spec :
  (forall r v, wr_tostr w r v = fmt_spec (KInRadix r) json_flags v) /\
  (forall r s, wr_fromstr w r s = from_str_radix_spec true r s).
Proof.
  split; intros.
  - exact (fmt_asis_correct w (KInRadix r) json_flags v w_pos w_even w_io).
  - exact (from_str_radix_asis_correct w true r s w_pos w_even w_io).
Qed.

Theorem wr_sqrt_spec x : 0 <= x -> wr_sqrt w x = Ok (Z.sqrt x).
Proof.
  intros Hx. unfold wr_sqrt. destruct (Z.ltb_spec x ((2 ^ w) ^ 2)); [reflexivity|].
  rewrite (sqrt_rem_large_asis_correct w ltac:(lia) w_even x H). reflexivity.
Qed.

Theorem wr_modular_spec m x y e : 1 <= m -> 0 <= e ->
  ws_modmul w m x y = Ok ((x * y) mod m) /\ ws_modpow w m x e = Ok ((x ^ e) mod m).
Proof. intros Hm He. split; [apply ws_modmul_spec | apply ws_modpow_spec]; lia. Qed.

Theorem wr_tofloat_spec v : 32 <= w -> wr_tof64 w v = ieee_rne F64 v 1 /\ wr_tof32 w v = ieee_rne F32 v 1.
Proof.
  intros Hw. unfold wr_tof64, wr_tof32. split; [apply ibig_to_f64_correct | apply ibig_to_f32_correct]; lia.
Qed.
End Runs.

(** the headline: the answers of two builds with different word sizes are equal, run by run *)
Theorem word_runs_independent : forall w1 w2, 8 <= w1 -> 8 <= w2 -> w1 mod 2 = 0 -> w2 mod 2 = 0 ->
  (forall a b, wr_mul w1 a b = wr_mul w2 a b /\ wr_add w1 a b = wr_add w2 a b /\ wr_sub w1 a b = wr_sub w2 a b /\
               wr_divrem w1 a b = wr_divrem w2 a b /\
               wr_and w1 a b = wr_and w2 a b /\ wr_or w1 a b = wr_or w2 a b /\ wr_xor w1 a b = wr_xor w2 a b) /\
  (forall a, wr_sqr w1 a = wr_sqr w2 a /\ wr_bitlen w1 a = wr_bitlen w2 a /\ wr_tz w1 a = wr_tz w2 a /\ wr_ones w1 a = wr_ones w2 a) /\
  (forall a n, 0 <= n -> wr_pow w1 a n = wr_pow w2 a n /\ wr_shl w1 a n = wr_shl w2 a n /\ wr_shr w1 a n = wr_shr w2 a n) /\
  (forall r v s, wr_tostr w1 r v = wr_tostr w2 r v /\ wr_fromstr w1 r s = wr_fromstr w2 r s) /\
  (forall x, 0 <= x -> wr_sqrt w1 x = wr_sqrt w2 x) /\
  (forall m x y e, 1 <= m -> 0 <= e -> ws_modmul w1 m x y = ws_modmul w2 m x y /\ ws_modpow w1 m x e = ws_modpow w2 m x e).
Proof.
  intros w1 w2 H1 H2 E1 E2.
  repeat match goal with |- _ /\ _ => split | |- forall _, _ => intro end.
  - rewrite (wr_mul_spec w1 H1), (wr_mul_spec w2 H2). reflexivity.
  - rewrite (proj1 (wr_add_sub_spec w1 H1 a b)), (proj1 (wr_add_sub_spec w2 H2 a b)). reflexivity.
  - rewrite (proj2 (wr_add_sub_spec w1 H1 a b)), (proj2 (wr_add_sub_spec w2 H2 a b)). reflexivity.
  - rewrite (wr_divrem_spec w1 H1), (wr_divrem_spec w2 H2). reflexivity.
  - destruct (wr_bitops_spec w1 H1 a b) as (P & _), (wr_bitops_spec w2 H2 a b) as (P' & _). congruence.
  - destruct (wr_bitops_spec w1 H1 a b) as (_ & P & _), (wr_bitops_spec w2 H2 a b) as (_ & P' & _). congruence.
  - destruct (wr_bitops_spec w1 H1 a b) as (_ & _ & P), (wr_bitops_spec w2 H2 a b) as (_ & _ & P'). congruence.
  - rewrite (wr_sqr_spec w1 H1), (wr_sqr_spec w2 H2). reflexivity.
  - destruct (wr_queries_spec w1 H1 a) as (P & _), (wr_queries_spec w2 H2 a) as (P' & _). congruence.
  - destruct (wr_queries_spec w1 H1 a) as (_ & P & _), (wr_queries_spec w2 H2 a) as (_ & P' & _). congruence.
  - destruct (wr_queries_spec w1 H1 a) as (_ & _ & P), (wr_queries_spec w2 H2 a) as (_ & _ & P'). congruence.
  - rewrite (wr_pow_spec w1 H1 a n H), (wr_pow_spec w2 H2 a n H). reflexivity.
  - destruct (wr_shift_spec w1 H1 a n H) as (P & _), (wr_shift_spec w2 H2 a n H) as (P' & _). congruence.
  - destruct (wr_shift_spec w1 H1 a n H) as (_ & P), (wr_shift_spec w2 H2 a n H) as (_ & P'). congruence.
  - rewrite (proj1 (wr_text_spec w1 H1 E1)), (proj1 (wr_text_spec w2 H2 E2)). reflexivity.
  - rewrite (proj2 (wr_text_spec w1 H1 E1)), (proj2 (wr_text_spec w2 H2 E2)). reflexivity.
  - rewrite (wr_sqrt_spec w1 H1 E1 x H), (wr_sqrt_spec w2 H2 E2 x H). reflexivity.
  - rewrite (proj1 (wr_modular_spec w1 H1 m x y e H H0)), (proj1 (wr_modular_spec w2 H2 m x y e H H0)). reflexivity.
  - rewrite (proj2 (wr_modular_spec w1 H1 m x y e H H0)), (proj2 (wr_modular_spec w2 H2 m x y e H H0)). reflexivity.
Qed.

Example word_runs_nonvacuous :
  wr_mul 32 (-(2 ^ 70)) 3 = Ok (-(3 * 2 ^ 70)) /\ wr_divrem 32 (-(2 ^ 100) - 5) (2 ^ 40 + 1) = wr_divrem 64 (-(2 ^ 100) - 5) (2 ^ 40 + 1) /\
  wr_sqrt 32 (2 ^ 130 + 7) = Ok (2 ^ 65) /\ wr_tostr 32 10 (2 ^ 64) = wr_tostr 64 10 (2 ^ 64).
Proof. repeat split; vm_compute; reflexivity. Qed.
